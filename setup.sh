#!/bin/bash
# MANIFEST.setup_cmd: offline install of the runtime-contract libraries beside the repo's interpreter packages
# (into the git-ignored /verif/.deps) and an import smoke test. Nothing is fetched from a network.
cd "$(dirname "$0")"
export PIP_NO_INDEX=1
mkdir -p .deps .work/scratch
if [ ! -d .deps/icontract ]; then
  /venv/bin/python -m pip install -q --no-index --find-links /opt/veriftools/wheels --target .deps icontract deal || echo "WARN: icontract/deal not installed (contracts will be skipped and counted as such)"
fi
PYTHONPATH="$PWD:$PWD/.deps" /venv/bin/python -c "import vp.runner, vp.ref, vp.expr, vp.build; import pyrates; print('vp setup ok')"
