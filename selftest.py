#!/usr/bin/env python3
"""Sensitivity self-test of the checks (not a registered command).

  python3 selftest.py seeded [ids...]     apply each /verif/seeded/<id>/patch.diff to /repo, run the quick checks named in its
                                          meta.json (or all with --all), expect a VIOLATION, undo the patch
  python3 selftest.py fixes [commits...]  revert each `fix:` commit recorded in known_findings.json (natural mutants), run the
                                          quick check of its property, expect a VIOLATION, undo

/repo must be clean; it is restored with `git checkout -- .` after every patch."""
import json
import os
import subprocess
import sys
import time

ROOT = os.path.dirname(os.path.abspath(__file__))
ALL = [f'C{i:02d}' for i in range(1, 21)]


def sh(cmd, **kw):
    return subprocess.run(cmd, shell=True, capture_output=True, text=True, **kw)


def repo_clean():
    return sh('git -C /repo status --porcelain --untracked-files=no').stdout.strip() == ''


def run_check(pid, seed=0):
    t0 = time.time()
    r = sh(f'cd {ROOT} && ./check {pid} --tier quick --seed {seed}', timeout=3000)
    viol = [l for l in r.stdout.splitlines() if l.startswith('VIOLATION')]
    return r.returncode, len(viol), time.time() - t0, r.stdout


def main():
    mode = sys.argv[1]
    args = [a for a in sys.argv[2:] if not a.startswith('--')]
    run_all = '--all' in sys.argv
    if not repo_clean():
        sys.exit('/repo has uncommitted changes; refusing')
    results = []
    if mode == 'seeded':
        ids = args or sorted(os.listdir(os.path.join(ROOT, 'seeded')))
        for sid in ids:
            d = os.path.join(ROOT, 'seeded', sid)
            meta = json.load(open(os.path.join(d, 'meta.json')))
            if meta.get('status') == 'neutralised' and not args:
                # the change no longer breaks the property on the repaired tree (its demo passes with the patch): nothing to catch
                print(f"  seeded {sid}: neutralised by {meta.get('neutralised_by')} - skipped", flush=True)
                continue
            r = sh(f'git -C /repo apply {d}/patch.diff')
            if r.returncode != 0:
                results.append((sid, 'patch does not apply', r.stderr[-200:]))
                continue
            try:
                checks = ALL if run_all else meta.get('checks', [meta['property']])
                fired = {}
                for pid in checks:
                    rc, nv, wall, out = run_check(pid)
                    fired[pid] = (rc, nv, round(wall, 1))
                    print(f'  seeded {sid}: {pid} exit={rc} violations={nv} wall={wall:.1f}s', flush=True)
                results.append((sid, meta['property'], fired))
            finally:
                sh('git -C /repo checkout -- .')
    elif mode == 'fixes':
        kf = json.load(open(os.path.join(ROOT, 'known_findings.json')))
        entries = [e for e in kf['findings'] if e['status'] == 'fixed' and (not args or e['commit'] in args)]
        for e in entries:
            r = sh(f"git -C /repo revert --no-commit {e['commit']}")
            if r.returncode != 0:
                sh('git -C /repo revert --abort; git -C /repo checkout -- .; git -C /repo reset -q --hard HEAD')
                results.append((e['commit'], e['property'], 'revert conflicts with later commits - skipped'))
                print(f"  fix {e['commit']} ({e['property']}): revert conflicts - skipped", flush=True)
                continue
            try:
                rc, nv, wall, out = run_check(e['property'])
                print(f"  fix {e['commit']} reverted: {e['property']} exit={rc} violations={nv} wall={wall:.1f}s", flush=True)
                results.append((e['commit'], e['property'], (rc, nv, round(wall, 1))))
            finally:
                sh('git -C /repo revert --abort; git -C /repo reset -q --hard HEAD; git -C /repo checkout -- .')
    out = os.path.join(ROOT, f'selftest_{mode}_results.json')
    # merge with earlier results (keyed by seeded id / (commit, property)): partial re-runs update their entries only
    merged = {}
    if os.path.exists(out):
        try:
            for r in json.load(open(out)):
                merged[json.dumps(r[:2])] = r
        except Exception:
            merged = {}
    for r in results:
        merged[json.dumps(list(r[:2]), default=str)] = r
    json.dump(list(merged.values()), open(out, 'w'), indent=1, default=str)
    print('written', out)
    assert repo_clean(), '/repo not restored!'


if __name__ == '__main__':
    main()
