"""C05 (fixed f5392d8): a sum that occurs once negated and once more inside another factor / argument."""
import numpy as np, warnings, os, tempfile
warnings.simplefilter('ignore'); os.chdir(tempfile.mkdtemp())
from pyrates import OperatorTemplate, NodeTemplate, CircuitTemplate
def go(expr, expected):
    V = {'rr': 0.7782, 'a': 0.6, 'b': 0.7, 'zz': 'output(0.0)'}
    op = OperatorTemplate(name='expr_op', equations=[f"zz' = {expr}"], variables=V)
    c = CircuitTemplate(name='c', nodes={'n': NodeTemplate(name='nt', operators=[op])})
    f, args, names, smap = c.get_run_func('vf', step_size=1e-3, vectorize=False, verbose=False, clear=True, float_precision='float64')
    got = float(np.asarray(f(*args)).ravel()[smap['n/expr_op/zz']]); print(expr, got, expected); assert abs(got - expected) < 1e-12
go('(rr + (a+b)) * (-(a+b))', (0.7782 + 1.3) * -1.3)
go('(-(a+b)) * sin((a+b))', -1.3 * np.sin(1.3))
