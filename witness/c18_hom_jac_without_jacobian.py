"""C18: export with auto_jac=False and the scenarios ('eq', 'hom'): FUNC contains no DFDU / DFDP assignments, c.eq said JAC = 0 but
c.hom said JAC = 1 (auto-07p would read derivative arrays that FUNC never fills).  Repaired by eab6a7f.
Run: cd $(mktemp -d) && PATH=/venv/bin:$PATH PYTHONPATH=/repo /venv/bin/python /verif/witness/c18_hom_jac_without_jacobian.py"""
import re
from pyrates import OperatorTemplate, NodeTemplate, CircuitTemplate
op = OperatorTemplate(name='o', equations=["x' = -x/tau + k"], variables={'x': 'output(0.3)', 'tau': 10.0, 'k': 3.0}, path=None)
c = CircuitTemplate(name='m', nodes={'p': NodeTemplate(name='n', operators=[op], path=None)})
c.get_run_func('vfx', step_size=1e-3, file_name='hom_x', backend='fortran', float_precision='float64', auto=True, auto_jac=False,
               auto_constants=('eq', 'hom'), vectorize=False, solver='scipy', verbose=False)
src = open('hom_x.f90').read()
has_jac = bool(re.search(r'dfdu\(\s*\d+\s*,\s*\d+\s*\)\s*=', src))
jac = {s: [l.strip() for l in open('c.' + s).read().splitlines() if l.strip().startswith('JAC')] for s in ('eq', 'hom')}
print('DFDU assignments in FUNC:', has_jac, ' constants:', jac)
ok = (not has_jac) and jac['eq'] == ['JAC = 0'] and jac['hom'] == ['JAC = 0']
print('PASS' if ok else 'FAIL')
raise SystemExit(0 if ok else 1)
