"""C05 witness: the constant E (Euler's number) in a model equation."""
import numpy as np, warnings, os, tempfile
warnings.simplefilter('ignore'); os.chdir(tempfile.mkdtemp())
from pyrates import OperatorTemplate, NodeTemplate, CircuitTemplate
op = OperatorTemplate(name='op', equations=["x' = -x + E"], variables={'x': 'output(0.3)'})
c = CircuitTemplate(name='c', nodes={'a': NodeTemplate(name='n', operators=[op])})
f, args, names, smap = c.get_run_func('vf', step_size=1e-3, vectorize=False, verbose=False, float_precision='float64')
got = f(0, np.array(args[1]), *args[2:])[0]
print(got, np.e - 0.3); assert abs(got - (np.e - 0.3)) < 1e-12
