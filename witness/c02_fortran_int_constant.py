import numpy as np, warnings, os, tempfile, sys, subprocess
warnings.simplefilter('ignore'); d=tempfile.mkdtemp(); os.chdir(d); os.environ['PATH'] = '/venv/bin:' + os.environ['PATH']
from pyrates import OperatorTemplate, NodeTemplate, CircuitTemplate
op = OperatorTemplate('op', ["x' = (a - x)/tau"], {'x': 'output(0.1)', 'a': 1, 'tau': 2.0})
c = CircuitTemplate('c', nodes={'p': NodeTemplate('n', operators=[op])})
try:
    c.get_run_func('vfi', step_size=1e-3, file_name='int_par', backend='fortran', float_precision='float64', vectorize=False, verbose=False)
except Exception as e:
    pass
print(open('int_par.f90').read())
r = subprocess.run(['gfortran', '-c', 'int_par.f90'], capture_output=True, text=True); print(r.stderr[:1500])
