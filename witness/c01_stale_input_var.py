"""C01 witness: operator with two inputs u (driven by two same-node operators) and w (unconnected, default 0.07).
Expected dx/dt = -x + 3*(s1 + s2) + 5*w."""
import numpy as np, warnings, os, tempfile
warnings.simplefilter('ignore'); os.chdir(tempfile.mkdtemp())
from pyrates import OperatorTemplate, NodeTemplate, CircuitTemplate
o1 = OperatorTemplate(name='o1', equations=["u' = -u"], variables={'u': 'output(0.2)'})
o2 = OperatorTemplate(name='o2', equations=["u' = -2*u"], variables={'u': 'output(0.5)'})
o3 = OperatorTemplate(name='o3', equations=["x' = -x + 3*u + 5*w"], variables={'x': 'output(0.1)', 'u': 'input(0.0)', 'w': 'input(0.07)'})
c = CircuitTemplate(name='c', nodes={'n': NodeTemplate(name='n', operators=[o1, o2, o3])})
f, args, names, smap = c.get_run_func('vf', step_size=1e-3, vectorize=False, float_precision='float64', verbose=False)
dy = f(0, np.array(args[1]), *args[2:])
got = dy[smap['n/o3/x']]
exp = -0.1 + 3 * (0.2 + 0.5) + 5 * 0.07
print('got', got, 'expected', exp)
assert abs(got - exp) < 1e-12
