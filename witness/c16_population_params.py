"""C16 / C20 (fixed 853b5f6, 03723d1): params of a population for an input variable / a misspelt variable."""
import numpy as np, warnings, os, tempfile
os.chdir(tempfile.mkdtemp())
from pyrates import OperatorTemplate, NodeTemplate, CircuitTemplate
from pyrates.frontend.template import PopulationTemplate
node = NodeTemplate('n', operators=[OperatorTemplate('op', ["r' = -r + u"], {'r': 'output(0.5)', 'u': 'input(0.3)', 'k': 1.0})])
with warnings.catch_warnings(record=True) as w:
    warnings.simplefilter('always')
    c = CircuitTemplate('c', populations={'p': PopulationTemplate('p', node, 3, params={'op/u': [0.1, 0.2, 0.9], 'op/kk': 2.0})})
    f, args, names, _ = c.get_run_func('f', step_size=1e-3, verbose=False, clear=True, float_precision='float64')
dy = np.asarray(f(*args)); notices = [str(x.message) for x in w if 'op/kk' in str(x.message)]
print(dy, notices); assert np.allclose(dy, [-0.4, -0.3, 0.4]) and notices
