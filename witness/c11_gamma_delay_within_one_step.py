"""C11 open finding: a gamma-kernel edge whose mean delay does not exceed step_size is dropped (no chain is built)."""
import numpy as np, warnings, os, tempfile
warnings.simplefilter('ignore'); os.chdir(tempfile.mkdtemp())
from pyrates import OperatorTemplate, NodeTemplate, CircuitTemplate
def n_states(d, s, dt=1e-2):
    node = NodeTemplate('n', operators=[OperatorTemplate('op', ["x' = -x + u"], {'x': 'output(1.0)', 'u': 'input(0.0)'})])
    c = CircuitTemplate('c', nodes={'p1': node, 'p2': node}, edges=[('p1/op/x', 'p2/op/u', None, {'weight': 1.0, 'delay': d, 'spread': s})])
    f, args, names, smap = c.get_run_func('f', step_size=dt, solver='scipy', vectorize=False, verbose=False, clear=True, float_precision='float64')
    return len(np.asarray(args[1]))
for d, s in ((2.0, 1.0), (0.02, 0.01), (0.01, 0.005), (0.005, 0.0025)):
    n = n_states(d, s); print(f'delay {d} spread {s} (order 4): {n} state variables'); assert n == 6, 'kernel dropped'
