import numpy as np, warnings, os, tempfile, traceback
warnings.simplefilter('ignore'); os.chdir(tempfile.mkdtemp())
from pyrates import OperatorTemplate, NodeTemplate, CircuitTemplate
op = OperatorTemplate(name='lin', path=None, equations=["x' = -a*x + b + inp"], variables={'x': 'output(0.1)', 'a': 1.0, 'b': 0.5, 'inp': 'input(0.0)'})
n = NodeTemplate(name='pop', path=None, operators=[op])
for es in ([('p1/lin/x','p3/lin/inp',None,{'weight':1.5}), ('p2/lin/x','p4/lin/inp',None,{})], [('p1/lin/x','p3/lin/inp',None,{})], [('p1/lin/x','p3/lin/inp',None,{}), ('p2/lin/x','p4/lin/inp',None,{'weight':1.5})]):
  for vec in (False, True):
    try:
        net = CircuitTemplate('net', nodes={f'p{i}': n for i in (1,2,3,4)}, edges=list(es))
        f, args, names, smap = net.get_run_func('f', vectorize=vec, step_size=1e-3, verbose=False, clear=True, float_precision='float64')
        a = list(args); a[1] = np.array([0.1, 0.2, 0.3, 0.4]); print(len(es), vec, np.asarray(f(*a)).round(4))
    except Exception as e:
        print(len(es), vec, 'EXC', type(e).__name__, e, '::', traceback.format_exc()[-900:])
