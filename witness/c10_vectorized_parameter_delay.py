"""C10 (and C04) open finding: vectorize=True, two structurally identical nodes whose delay is a named operator constant with
different values per node (past(x, tau), tau = 0.3 / 0.1): the generated function reads hist(t - tau[0]) for both nodes.
Model per node: x' = -k*past(x, tau) ... evaluated with hist(t)_i = sin(a_i t + b_i)."""
import numpy as np, warnings, os, tempfile, sys, math
warnings.simplefilter('ignore'); os.chdir(tempfile.mkdtemp())
from pyrates import OperatorTemplate, NodeTemplate, CircuitTemplate
op = OperatorTemplate(name='op', equations=["x' = -x + k*past(x, tau)"], variables={'x': 'output(0.5)', 'k': 2.0, 'tau': 0.3})
nodes = {'p0': NodeTemplate(name='p0', operators={op: {'tau': 0.3, 'x': 0.5}}), 'p1': NodeTemplate(name='p1', operators={op: {'tau': 0.1, 'x': 0.7}})}
coef = [(40.0, 0.3), (70.0, 1.1)]
hist = lambda t: np.array([math.sin(a * t + b) for a, b in coef])
bad = False
for vec in (False, True):
    c = CircuitTemplate(name='c', nodes=nodes)
    f, args, names, smap = c.get_run_func('vf', step_size=1e-3, solver='scipy', vectorize=vec, verbose=False, clear=True,
                                          float_precision='float64', hist=hist)
    t = 0.5
    y = np.array([0.2, -0.4])
    a = list(args)
    dy = np.array(f(t, y, *a[2:]), dtype=float)
    exp = [-0.2 + 2.0 * hist(t - 0.3)[0], 0.4 + 2.0 * hist(t - 0.1)[1]]
    ok = np.allclose(dy, exp, atol=1e-12)
    print(f"vectorize={vec}: dy = {dy}, expected {exp} ->", 'ok' if ok else 'WRONG')
    bad |= not ok
print('DEFECT SHOWN' if bad else 'no defect')
sys.exit(1 if bad else 0)
