"""C04 open finding: two edges through one EdgeTemplate whose second input is mapped to DIFFERENT variables of their target nodes
(b/op/x for the first edge, c/op/z for the second): the vectorized build reads wrong elements; the non-vectorized build is correct."""
import numpy as np, warnings, os, tempfile, sys
warnings.simplefilter('ignore'); os.chdir(tempfile.mkdtemp())
from pyrates import OperatorTemplate, NodeTemplate, CircuitTemplate, EdgeTemplate
op = OperatorTemplate(name='op', equations=["x' = -x + u", "z' = -2.0*z"], variables={'x': 'output(0.0)', 'z': 'variable(0.0)', 'u': 'input(0.0)'})
eop = OperatorTemplate(name='eop', equations=["m = g*(xs - xt)"], variables={'m': 'output(0.0)', 'xs': 'input(0.0)', 'xt': 'input(0.0)', 'g': 0.5})
ET = EdgeTemplate(name='et', operators=[eop])
x0 = {'a': 0.3, 'b': 0.6, 'c': 1.0}; z0 = {'a': 0.11, 'b': 0.22, 'c': 0.33}
nodes = {n: NodeTemplate(name=n, operators={op: {'x': x0[n], 'z': z0[n]}}) for n in x0}
edges = [('a/op/x', 'b/op/u', ET, {'weight': 2.0, 'et/eop/xs': 'source', 'et/eop/xt': 'b/op/x', 'eop/g': 0.5}),
         ('b/op/x', 'c/op/u', ET, {'weight': 3.0, 'et/eop/xs': 'source', 'et/eop/xt': 'c/op/z', 'eop/g': 0.7})]
exp = {'a': -0.3, 'b': -0.6 + 2.0*0.5*(0.3-0.6), 'c': -1.0 + 3.0*0.7*(0.6-0.33)}
bad = False
for vec in (False, True):
    try:
        c = CircuitTemplate(name='c', nodes=nodes, edges=edges)
        f, args, names, smap = c.get_run_func('vf', step_size=1e-3, vectorize=vec, verbose=False, clear=True, float_precision='float64')
        y = np.array(args[1], dtype=float); dy = np.asarray(f(0, y, *args[2:])).ravel()
        got = {n: float(dy[np.nonzero(y == x0[n])[0][0]]) for n in x0}
        ok = all(abs(got[n] - exp[n]) < 1e-12 for n in x0)
        print('vectorize', vec, 'ok' if ok else f'WRONG got {got} expected {exp}')
    except Exception as e:
        ok = False; print('vectorize', vec, 'ERR', type(e).__name__, str(e)[:100])
    bad |= not ok
print('DEFECT SHOWN' if bad else 'no defect'); sys.exit(1 if bad else 0)
