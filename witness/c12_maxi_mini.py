"""C12 (fixed b0ed777): Jacobian of maxi / mini."""
import numpy as np, warnings, os, tempfile
warnings.simplefilter('ignore'); os.chdir(tempfile.mkdtemp())
from pyrates import OperatorTemplate, NodeTemplate, CircuitTemplate
for fn in ('maxi(x, 0.2)', 'mini(x, 2.0)'):
    c = CircuitTemplate('c', nodes={'p': NodeTemplate('n', operators=[OperatorTemplate('op', [f"x' = -x + {fn}*x"], {'x': 'output(0.7)'})])})
    J, args, names, _ = c.get_jacobian_func('j', vectorize=False, step_size=1e-3, verbose=False, clear=True, float_precision='float64')
    j = float(np.asarray(J(*args)).ravel()[0]); print(fn, j); assert abs(j - 0.4) < 1e-12
