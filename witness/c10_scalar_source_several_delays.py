import numpy as np, warnings, os, tempfile, sys, traceback
warnings.simplefilter('ignore'); os.chdir(tempfile.mkdtemp()); os.environ['PATH'] = '/venv/bin:' + os.environ['PATH']
from pyrates import OperatorTemplate, NodeTemplate, CircuitTemplate
def t(name, f):
    try: print(name, '->', f())
    except Exception as e: print(name, 'EXC', type(e).__name__, str(e)[:200])
KW = dict(step_size=1e-3, verbose=False, clear=True, float_precision='float64')
def h_(delays):
    nt = NodeTemplate('nt', operators=[OperatorTemplate('op', ["z' = -z + u"], {'z': 'output(0.0)', 'u': 'input(0.0)'})])
    nodes = {'s': NodeTemplate('ns', operators=[OperatorTemplate('sop', ["x' = -x"], {'x': 'output(1.0)'})])}
    edges = []
    for i, d in enumerate(delays):
        nodes[f'a{i}'] = nt
        edges.append(('s/sop/x', f'a{i}/op/u', None, {'weight': 1.0, 'delay': d}))
    c = CircuitTemplate('c', nodes=nodes, edges=edges)
    out = {}
    for vec in (False, True):
        f, args, names, smap = c.get_run_func('f', solver='scipy', vectorize=vec, **KW)
        calls = []; a = list(args); hi = names.index('hist')
        n = len(np.asarray(a[1]))
        a[hi] = lambda tq: (calls.append(round(float(tq), 6)), np.arange(n) + 10*tq)[1]
        a[0] = 1.0; a[1] = np.zeros(n); r = f(*a); dy = np.asarray(r if r is not None else a[2]).round(3).tolist()
        out[vec] = ('hist queried at', sorted(set(calls)), 'dy', dy, smap)
    return out
t('h scalar source delays 0.1/0.3 adaptive', lambda: h_([0.1, 0.3, 0.1, 0.2]))
# C18c 1: integer-valued parameter in auto export; 3: parameter named T
def y1():
    op = OperatorTemplate('op', ["x' = (a - x)/tau + b*z", "z' = c*x - z*d"], {'x': 'output(0.1)', 'z': 'variable(0.2)', 'a': 1, 'tau': 2.0, 'b': 0.5, 'c': 3, 'd': 1.5})
    c = CircuitTemplate('c', nodes={'p': NodeTemplate('n', operators=[op])})
    c.get_run_func('vfi', step_size=1e-3, file_name='auto_int', backend='fortran', float_precision='float64', auto=True, vectorize=False, verbose=False)
    return 'ok'
t('y1 integer parameter auto export', y1)
def y3():
    op = OperatorTemplate('op', ["x' = (T - x)/tau"], {'x': 'output(0.1)', 'T': 1.5, 'tau': 2.0})
    c = CircuitTemplate('c', nodes={'p': NodeTemplate('n', operators=[op])})
    f, args, names, smap = c.get_run_func('vft', step_size=1e-3, file_name='auto_T', backend='fortran', float_precision='float64', vectorize=False, verbose=False)
    a = list(args); r = f(*a); return np.asarray(r if r is not None else a[2]), 'expected', (1.5-0.1)/2
t('y3 parameter named T fortran', y3)
