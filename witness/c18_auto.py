"""C18 witnesses.  usage: PATH=/venv/bin:$PATH python c18_auto.py <sigmoid|stpnt_precision>"""
import sys, numpy as np, warnings, os, tempfile, importlib
warnings.simplefilter('ignore'); os.chdir(tempfile.mkdtemp()); sys.path.insert(0, os.getcwd())
from pyrates import OperatorTemplate, NodeTemplate, CircuitTemplate
rhs = "-x + k*sigmoid(2.0*x)" if sys.argv[1] == 'sigmoid' else "-k*x"
op = OperatorTemplate(name='op', equations=[f"x' = {rhs}"], variables={'x': 'output(0.3)', 'k': 0.7})
c = CircuitTemplate(name='c', nodes={'a': NodeTemplate(name='n', operators=[op])})
c.get_run_func('vf', step_size=1e-3, backend='fortran', auto=True, vectorize=False, solver='scipy', float_precision='float64', file_name='wm', verbose=False)
mod = importlib.import_module('wm')
y, par = np.zeros(1), np.zeros(20)
mod.stpnt(y, par, 0.0)
print(repr(y[0]), repr(par[0])); assert y[0] == 0.3 and par[0] == 0.7
