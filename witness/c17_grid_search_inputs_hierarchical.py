"""C17 witness: grid_search with an extrinsic input on a circuit that has one hierarchy level."""
import numpy as np, warnings, os, tempfile
warnings.simplefilter('ignore'); os.chdir(tempfile.mkdtemp())
from pyrates import OperatorTemplate, NodeTemplate, CircuitTemplate, grid_search
op = OperatorTemplate(name='op', equations=["x' = -k*x + u"], variables={'x': 'output(0.0)', 'k': 1.0, 'u': 'input(0.0)'})
top = CircuitTemplate(name='top', circuits={'c': CircuitTemplate(name='leaf', nodes={'a': NodeTemplate(name='n', operators=[op])})})
u = np.array([1.0, -2.0, 0.5, 3.0])
res, table = grid_search(top, {'k': [1.0, 5.0]}, {'k': {'vars': ['op/k'], 'nodes': ['c/a']}}, step_size=1e-3, simulation_time=4e-3,
                         outputs={'x': 'c/a/op/x'}, inputs={'c/a/op/u': u}, solver='euler', verbose=False, float_precision='float64')
print(res); print(table)
assert res.shape == (4, 2)
