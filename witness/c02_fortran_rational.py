"""C02 (fixed a54ac81): x**(1/3) is x**0 in Fortran."""
import numpy as np, warnings, os, tempfile
warnings.simplefilter('ignore'); os.chdir(tempfile.mkdtemp()); os.environ['PATH'] = '/venv/bin:' + os.environ['PATH']
from pyrates import OperatorTemplate, NodeTemplate, CircuitTemplate
out = {}
for b in ('default', 'fortran'):
    op = OperatorTemplate('op', ["x' = -x + (2.0+x*x)**(1/3) + 2/3"], {'x': 'output(0.5)'})
    c = CircuitTemplate('c', nodes={'p': NodeTemplate('n', operators=[op])})
    f, args, names, _ = c.get_run_func('f', backend=b, vectorize=False, file_name='rat_' + b, step_size=1e-3, verbose=False, clear=True, float_precision='float64')
    a = list(args); r = f(*a); out[b] = float(np.asarray(r if r is not None else a[2]).ravel()[0])
print(out); assert abs(out['default'] - out['fortran']) < 1e-12
