"""C10: vectorize=True, three identical nodes with delayed edges p0->p1 (0.3), p0->p2 (0.2), p1->p0 (0.1) under an adaptive solver:
the delayed value of each connection was written to the buffer slot of its SOURCE index instead of the slot of the connection, so
slots were overwritten / never written.  Compiled function vs hand-computed values with hist(t)_i = sin(a_i t + b_i)."""
import numpy as np, warnings, os, tempfile, sys, math
warnings.simplefilter('ignore'); os.chdir(tempfile.mkdtemp())
from pyrates import OperatorTemplate, NodeTemplate, CircuitTemplate
op = OperatorTemplate(name='op', equations=["x' = -x + u"], variables={'x': 'output(0.5)', 'u': 'input(0.0)'})
nodes = {f'p{i}': NodeTemplate(name=f'p{i}', operators={op: {'x': 0.3 + 0.2 * i}}) for i in range(3)}
edges = [('p0/op/x', 'p1/op/u', None, {'weight': 1.0, 'delay': 0.3}), ('p0/op/x', 'p2/op/u', None, {'weight': 2.0, 'delay': 0.2}),
         ('p1/op/x', 'p0/op/u', None, {'weight': 3.0, 'delay': 0.1})]
coef = [(40.0, 0.3), (70.0, 1.1), (25.0, 2.0)]
hist = lambda t: np.array([math.sin(a * t + b) for a, b in coef])
bad = False
for vec in (False, True):
    c = CircuitTemplate(name='c', nodes=nodes, edges=edges)
    f, args, names, smap = c.get_run_func('vf', step_size=1e-3, solver='scipy', vectorize=vec, verbose=False, clear=True,
                                          float_precision='float64', hist=hist)
    t, y = 0.5, np.array([0.2, -0.4, 0.1])
    dy = np.array(f(t, y, *list(args)[2:]), dtype=float)
    exp = [-0.2 + 3.0 * hist(t - 0.1)[1], 0.4 + 1.0 * hist(t - 0.3)[0], -0.1 + 2.0 * hist(t - 0.2)[0]]
    ok = np.allclose(dy, exp, atol=1e-12)
    print(f"vectorize={vec}: dy = {dy}, expected {np.array(exp)} ->", 'ok' if ok else 'WRONG')
    bad |= not ok
print('DEFECT SHOWN' if bad else 'no defect')
sys.exit(1 if bad else 0)
