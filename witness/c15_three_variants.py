import numpy as np, warnings, os, tempfile
warnings.simplefilter('ignore'); os.chdir(tempfile.mkdtemp())
from pyrates import OperatorTemplate, NodeTemplate, CircuitTemplate, clear_frontend_caches
lin = OperatorTemplate(name='lin', equations=["x' = (-x + k*m_in)/tau"], variables={'x': 'output(0.5)', 'k': 1.0, 'tau': 2.0, 'm_in': 'input(0.0)'})
mk = lambda vals: NodeTemplate(name='pop', operators={lin: vals})
c = CircuitTemplate('net', nodes={'a': mk({}), 'b': mk({'tau': 3.0}), 'c': mk({'tau': 5.0}), 'd': mk({'tau': 3.0})})
c.to_yaml(os.getcwd() + '/dump3.yaml'); clear_frontend_caches()
c2 = CircuitTemplate.from_yaml(os.getcwd() + '/dump3/net')
f, args, names, smap = c2.get_run_func('f', step_size=1e-3, vectorize=False, verbose=False, clear=True, float_precision='float64')
print({n: np.asarray(a).tolist() for n, a in zip(names, args) if 'tau' in n})
