"""C14 witness: get_run_func(in_place=False) followed by run(in_place=False) on the same template."""
import numpy as np, warnings, os, tempfile
warnings.simplefilter('ignore'); os.chdir(tempfile.mkdtemp())
from pyrates import OperatorTemplate, NodeTemplate, CircuitTemplate
op = OperatorTemplate(name='op', equations=["x' = -k*x", "z' = -z + x"], variables={'x': 'output(0.2)', 'z': 'variable(0.7)', 'k': 1.0})
nt = NodeTemplate(name='n', operators=[op])
for vec in (False, True):
    c = CircuitTemplate(name='c', nodes={'a': nt, 'b': NodeTemplate(name='n2', operators={op: {'z': 0.4}})})
    kw = dict(step_size=1e-3, vectorize=vec, verbose=False, float_precision='float64', clear=True, in_place=False)
    r0 = c.run(simulation_time=4e-3, outputs={'z': 'b/op/z'}, **kw)
    c.get_run_func('vf', **kw)
    r1 = c.run(simulation_time=4e-3, outputs={'z': 'b/op/z'}, **kw)
    print(vec, r0.values[:, 0], r1.values[:, 0])
    assert np.array_equal(r0.values, r1.values)
