"""C05 open findings.  usage: python c05_findings.py <nesting|literal>"""
import sys, numpy as np, warnings, os, tempfile
warnings.simplefilter('ignore'); os.chdir(tempfile.mkdtemp())
from pyrates import OperatorTemplate, NodeTemplate, CircuitTemplate
rhs = {'nesting': "-x + sin(sin(x))", 'literal': "-x + sigmoid(7) * x"}[sys.argv[1]]
op = OperatorTemplate(name='op', equations=[f"x' = {rhs}"], variables={'x': 'output(0.3)'})
c = CircuitTemplate(name='c', nodes={'a': NodeTemplate(name='n', operators=[op])})
f, args, names, smap = c.get_run_func('vf', step_size=1e-3, vectorize=False, verbose=False, float_precision='float64')
exp = {'nesting': -0.3 + np.sin(np.sin(0.3)), 'literal': -0.3 + 0.3 / (1 + np.exp(-7))}[sys.argv[1]]
got = f(0, np.array(args[1]), *args[2:])[0]
print(got, exp); assert abs(got - exp) < 1e-12
