"""C05 open findings.  usage: python c05_findings.py <nesting|literal|negated_index>"""
import sys, numpy as np, warnings, os, tempfile
warnings.simplefilter('ignore'); os.chdir(tempfile.mkdtemp())
from pyrates import OperatorTemplate, NodeTemplate, CircuitTemplate
which = sys.argv[1]
rhs = {'nesting': "-x + sin(sin(x))", 'literal': "-x + sigmoid(7) * x", 'negated_index': "a - index(v, 1)"}[which]
variables = {'x': 'output(0.3)'}
if which == 'negated_index':
    variables.update({'a': 0.5, 'v': {'vtype': 'constant', 'value': np.array([0.3, 0.7, 1.1]), 'shape': (3,), 'dtype': 'float'}})
op = OperatorTemplate(name='op', equations=[f"x' = {rhs}"], variables=variables)
c = CircuitTemplate(name='c', nodes={'a': NodeTemplate(name='n', operators=[op])})
f, args, names, smap = c.get_run_func('vf', step_size=1e-3, vectorize=False, verbose=False, float_precision='float64')
exp = {'nesting': -0.3 + np.sin(np.sin(0.3)), 'literal': -0.3 + 0.3 / (1 + np.exp(-7)), 'negated_index': 0.5 - 0.7}[which]
got = f(0, np.array(args[1]), *args[2:])[0]
print(got, exp); assert abs(got - exp) < 1e-12
