"""C14 witness: to_yaml of a circuit whose node overrides operator defaults must not change the OperatorTemplate."""
import numpy as np, warnings, os, tempfile
warnings.simplefilter('ignore'); os.chdir(tempfile.mkdtemp())
from pyrates import OperatorTemplate, NodeTemplate, CircuitTemplate
op = OperatorTemplate(name='op', equations=["x' = -k*x"], variables={'x': 'output(0.2)', 'k': 1.0})
c = CircuitTemplate(name='c', nodes={'a': NodeTemplate(name='na', operators=[op]), 'b': NodeTemplate(name='nb', operators={op: {'k': 3.0}})})
before = dict(op.variables)
c.to_yaml('dump.yaml')
print(before, op.variables)
assert op.variables == before
f, args, names, _ = c.get_run_func('vf', step_size=1e-3, vectorize=False, verbose=False, float_precision='float64')
print(dict(zip(names[3:], [float(a) for a in args[3:]])))
assert dict(zip(names[3:], [float(a) for a in args[3:]])) == {'a/op/k': 1.0, 'b/op/k': 3.0}
