"""C09 open findings, one minimal model each.  usage: python c09_delay_findings.py <name>
All models: integrators x' = u fed by sources s' = -s (s0 = 1) under Euler, dt = 1e-3; expectation from the
reference recurrence  x_{k+1} = x_k + dt * sum_e w_e * s[k - d_e]  (s before the start = 0)."""
import sys, numpy as np, warnings, os, tempfile
warnings.simplefilter('ignore'); os.chdir(tempfile.mkdtemp())
from pyrates import OperatorTemplate, NodeTemplate, CircuitTemplate
dt, steps = 1e-3, 12
src = OperatorTemplate(name='src', equations=["s' = -s"], variables={'s': 'output(1.0)'})
src2 = OperatorTemplate(name='src2', equations=["s' = -s", "q' = -2*q"], variables={'s': 'output(1.0)', 'q': 'variable(0.5)'})
tgt = OperatorTemplate(name='tgt', equations=["x' = u"], variables={'x': 'output(0.0)', 'u': 'input(0.0)'})
cons = OperatorTemplate(name='cons', equations=["c' = s"], variables={'c': 'output(0.0)', 's': 'input(0.0)'})


def traj_s(n, rate=1.0, s0=1.0):
    s = [s0]
    for _ in range(n):
        s.append(s[-1] + dt * (-rate * s[-1]))
    return s


def expected(edges, n=steps, src_traj=None):
    s = src_traj or traj_s(n)
    x = [0.0]
    for k in range(n - 1):
        u = sum(w * (s[k - d] if k - d >= 0 else 0.0) for w, d in edges)
        x.append(x[-1] + dt * u)
    return np.array(x)


def run(c, outs, solver='euler', vec=False):
    return c.run(simulation_time=steps * dt, step_size=dt, solver=solver, outputs=outs, vectorize=vec, verbose=False,
                 float_precision='float64').values


name = sys.argv[1]
if name == 'undelayed_shares_source_with_delayed':
    c = CircuitTemplate(name='c', nodes={'a': NodeTemplate(name='a', operators=[src]), 'b': NodeTemplate(name='b', operators=[tgt]),
                                         'b2': NodeTemplate(name='b2', operators=[tgt])},
                        edges=[('a/src/s', 'b/tgt/u', None, {'weight': 1.0, 'delay': 4 * dt}), ('a/src/s', 'b2/tgt/u', None, {'weight': 1.0})])
    got = run(c, {'x': 'b2/tgt/x'})[:, 0]
    exp = expected([(1.0, 0)])
elif name == 'two_delayed_same_pair':
    c = CircuitTemplate(name='c', nodes={'a': NodeTemplate(name='a', operators=[src]), 'b': NodeTemplate(name='b', operators=[tgt])},
                        edges=[('a/src/s', 'b/tgt/u', None, {'weight': 1.0, 'delay': 3 * dt}), ('a/src/s', 'b/tgt/u', None, {'weight': 2.0, 'delay': 5 * dt})])
    got = run(c, {'x': 'b/tgt/x'})[:, 0]
    exp = expected([(1.0, 3), (2.0, 5)])
elif name == 'delay_heun':
    c = CircuitTemplate(name='c', nodes={'a': NodeTemplate(name='a', operators=[src]), 'b': NodeTemplate(name='b', operators=[tgt])},
                        edges=[('a/src/s', 'b/tgt/u', None, {'weight': 1.0, 'delay': 4 * dt})])
    got = run(c, {'x': 'b/tgt/x'}, solver='heun')[:, 0]
    # under Heun the delivered value at step k must still be s[k-4]: nothing arrives before step 4
    print('x at steps 0..7:', got[:8])
    assert np.all(got[:5] == 0.0), 'input arrived earlier than 4 steps'
    sys.exit(0)
elif name == 'delayed_source_op_has_intra_consumer':
    c = CircuitTemplate(name='c', nodes={'a': NodeTemplate(name='a', operators=[src, cons]), 'b': NodeTemplate(name='b', operators=[tgt])},
                        edges=[('a/src/s', 'b/tgt/u', None, {'weight': 1.0, 'delay': 4 * dt})])
    got = run(c, {'c': 'a/cons/c'})[:, 0]
    exp = expected([(1.0, 0)])       # the same-node consumer must see the undelayed s
elif name == 'two_delayed_source_vars_same_op':
    c = CircuitTemplate(name='c', nodes={'a': NodeTemplate(name='a', operators=[src2]), 'b': NodeTemplate(name='b', operators=[tgt]),
                                         'b2': NodeTemplate(name='b2', operators=[tgt])},
                        edges=[('a/src2/s', 'b/tgt/u', None, {'weight': 1.0, 'delay': 3 * dt}), ('a/src2/q', 'b2/tgt/u', None, {'weight': 1.0, 'delay': 5 * dt})])
    got = run(c, {'x': 'b/tgt/x'})[:, 0]
    exp = expected([(1.0, 3)])
else:
    raise SystemExit('unknown finding')
print('got     ', got[:8]); print('expected', exp[:8])
assert np.allclose(got, exp, rtol=0, atol=1e-12)
