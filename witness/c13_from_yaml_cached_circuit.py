"""C13 open finding: CircuitTemplate.from_yaml returns the cached object; update_var on it shows up in later loads of the same path."""
import numpy as np, warnings, os, tempfile
warnings.simplefilter('ignore'); os.chdir(tempfile.mkdtemp())
from pyrates import CircuitTemplate
p = "model_templates.neural_mass_models.qif.qif"
c1 = CircuitTemplate.from_yaml(p); c1.update_var(node_vars={'p/qif_op/eta': 3.0})
c2 = CircuitTemplate.from_yaml(p)
f, args, names, _ = c2.get_run_func('f', step_size=1e-3, verbose=False, clear=True)
eta = {k: float(np.asarray(v).ravel()[0]) for k, v in zip(names, args) if 'eta' in k}
print('second load is the first object:', c2 is c1, eta)
assert list(eta.values()) == [-5.0], 'the second load inherited the update made to the first'
