"""C01 witness: two different variables of one node project to the same target variable.
Expected input = 2*s + 5*q."""
import numpy as np, warnings, os, tempfile, sys
warnings.simplefilter('ignore'); os.chdir(tempfile.mkdtemp())
from pyrates import OperatorTemplate, NodeTemplate, CircuitTemplate
for vec in (False, True):
    src = OperatorTemplate(name='src', equations=["s' = -s", "q' = -q"], variables={'s': 'output(0.3)', 'q': 'variable(0.7)'})
    tgt = OperatorTemplate(name='tgt', equations=["x' = -x + u"], variables={'x': 'output(0.1)', 'u': 'input(0.0)'})
    c = CircuitTemplate(name='c', nodes={'a': NodeTemplate(name='a', operators=[src]), 'b': NodeTemplate(name='b', operators=[tgt])},
                        edges=[('a/src/s', 'b/tgt/u', None, {'weight': 2.0}), ('a/src/q', 'b/tgt/u', None, {'weight': 5.0})])
    f, args, names, smap = c.get_run_func('vf', step_size=1e-3, vectorize=vec, float_precision='float64', verbose=False, clear=True)
    dy = f(0, np.array(args[1]), *args[2:])
    got = dy[smap['b/tgt/x']]
    exp = -0.1 + 2 * 0.3 + 5 * 0.7
    print('vectorize', vec, 'got', got, 'expected', exp)
    assert abs(got - exp) < 1e-12
