"""C07 open finding: an initial-value override given after the template has been compiled once is ignored."""
import numpy as np, warnings, os, tempfile
warnings.simplefilter('ignore'); os.chdir(tempfile.mkdtemp())
from pyrates import OperatorTemplate, NodeTemplate, CircuitTemplate
op = OperatorTemplate(name='leak', path=None, equations=["d/dt * v = (k*(e_rev - v)) / c"],
                      variables={'v': 'output(0.5)', 'k': 2.0, 'e_rev': -1.0, 'c': 4.0})
node = NodeTemplate(name='cell', path=None, operators=[op])
kw = dict(step_size=1e-3, backend='default', verbose=False, float_precision='float64', vectorize=False)
net = CircuitTemplate('net', nodes={f'n{i}': node for i in range(3)})
net.get_run_func('f', in_place=False, clear=True, **kw)          # read-only compile
net.update_var(node_vars={'n1/leak/v': 0.9, 'n2/leak/k': 7.0})
_, args, names, _ = net.get_run_func('f', in_place=False, clear=True, **kw)
a = dict(zip(names, args)); print('initial state', np.asarray(a['y']).tolist(), 'k of n2', a.get('n2/leak/k'))
assert np.asarray(a['y']).tolist() == [0.5, 0.9, 0.5], 'override of n1/leak/v ignored'
