import numpy as np, warnings, os, tempfile
warnings.simplefilter('ignore'); os.chdir(tempfile.mkdtemp())
from pyrates import OperatorTemplate, NodeTemplate, CircuitTemplate
from pyrates.frontend.template import PopulationTemplate
from pyrates.frontend.template.population import Connectivity
op = OperatorTemplate(name='op', path=None, equations=["d/dt * x = -k*x + r_in + u"], variables={'x': 'output(0.5)', 'k': 2.0, 'r_in': 'input(0.0)', 'u': 'input(0.0)'})
nd = NodeTemplate(name='n', path=None, operators=[op])
c = CircuitTemplate('c', populations={'p': PopulationTemplate('p', nd, 3, params={'op/x': [0.1, 0.2, 0.3]})}, connections=[Connectivity('p/op/x', 'p/op/r_in', np.eye(3))])
for inp in (None, np.ones(5)):
    try:
        df = c.run(simulation_time=5e-3, step_size=1e-3, outputs={'x': 'p/op/x'}, inputs=None if inp is None else {'p/op/u': inp}, verbose=False, in_place=False, float_precision='float64')
        print('input' if inp is not None else 'no input', df.values[1], 'expected', [0.1 + 1e-3*(-0.2+0.1 + (1 if inp is not None else 0)), '...'])
    except Exception as e:
        print('EXC', type(e).__name__, str(e)[:200])
import traceback
try:
    df = c.run(simulation_time=5e-3, step_size=1e-3, outputs={'x': 'p/op/x'}, inputs={'p/op/u': np.ones(5)}, verbose=False, in_place=False, float_precision='float64')
except Exception:
    print(traceback.format_exc()[-1500:])
arr = np.outer(np.ones(5), [1.0, 2.0, 3.0])
try:
    df = c.run(simulation_time=5e-3, step_size=1e-3, outputs={'x': 'p/op/x'}, inputs={'p/op/u': arr}, verbose=False, in_place=False, float_precision='float64')
    print('2d input', df.values[1], 'expected', [0.1 + 1e-3*(-0.1+1), 0.2+1e-3*(-0.2+2), 0.3+1e-3*(-0.3+3)])
except Exception as e:
    print('2d input EXC', type(e).__name__, str(e)[:200])
for solver in ('scipy',):
    df = c.run(simulation_time=5e-3, step_size=1e-3, outputs={'x': 'p/op/x'}, inputs={'p/op/u': np.ones(5)}, solver=solver, verbose=False, in_place=False, float_precision='float64')
    print(solver, df.values[1])
