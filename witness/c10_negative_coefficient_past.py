"""C10 open finding: negative numeric coefficient on a past() term."""
import numpy as np, warnings, os, tempfile
warnings.simplefilter('ignore'); os.chdir(tempfile.mkdtemp())
from pyrates import OperatorTemplate, NodeTemplate, CircuitTemplate
op = OperatorTemplate(name='op', equations=["x' = -k*x - 2.4*past(x, 0.05)"], variables={'x': 'output(0.2)', 'k': 1.5})
c = CircuitTemplate(name='c', nodes={'a': NodeTemplate(name='n', operators=[op])})
h = lambda t: np.array([np.sin(3 * t + 0.1)])
f, args, names, smap = c.get_run_func('vf', step_size=1e-3, vectorize=False, float_precision='float64', verbose=False, solver='scipy', hist=h)
got = f(0.01, np.array([0.3]), *args[2:])[0]
exp = -1.5 * 0.3 - 2.4 * np.sin(3 * (0.01 - 0.05) + 0.1)
print(got, exp); assert abs(got - exp) < 1e-12
