"""C13 witnesses (fixed).  usage: python c13_history.py <same_opname|vectorized_same_template>"""
import sys, numpy as np, warnings, os, tempfile
warnings.simplefilter('ignore'); os.chdir(tempfile.mkdtemp())
from pyrates import OperatorTemplate, NodeTemplate, CircuitTemplate
name = sys.argv[1]
kw = dict(step_size=1e-3, verbose=False, float_precision='float64', clear=False)
if name == 'same_opname':
    op1 = OperatorTemplate(name='op', equations=["x' = -x"], variables={'x': 'output(0.2)'})
    CircuitTemplate(name='c1', nodes={'a': NodeTemplate(name='n', operators=[op1])}).get_run_func('f1', vectorize=False, **kw)
    op2 = OperatorTemplate(name='op', equations=["x' = -5*x + k"], variables={'x': 'output(0.7)', 'k': 2.0})
    f, args, names, smap = CircuitTemplate(name='c2', nodes={'a': NodeTemplate(name='n', operators=[op2])}).get_run_func('f2', vectorize=False, file_name='second', **kw)
    dy = f(0, np.array(args[1]), *args[2:])
    print('initial state', args[1], 'dy', dy, '(expected [0.7], [-1.5])')
    assert abs(args[1][0] - 0.7) < 1e-12 and abs(dy[0] + 1.5) < 1e-12
else:
    op = OperatorTemplate(name='op', equations=["x' = -x"], variables={'x': 'output(0.2)'})
    nt = NodeTemplate(name='n', operators=[op])
    CircuitTemplate(name='c1', nodes={'a': nt, 'b': nt}).get_run_func('f1', vectorize=True, **kw)
    f, args, names, smap = CircuitTemplate(name='c2', nodes={'p': nt}).get_run_func('f2', vectorize=True, file_name='second', **kw)
    print('state vector of the second circuit', args[1], '(expected one entry)')
    assert np.asarray(args[1]).shape == (1,)
