import numpy as np, warnings, os, tempfile, sys
warnings.simplefilter('ignore'); os.chdir(tempfile.mkdtemp())
from pyrates import OperatorTemplate, NodeTemplate, CircuitTemplate
def circ(delay, spread=None):
    a = {'weight': 1.0, 'delay': delay}
    if spread: a['spread'] = spread
    src = NodeTemplate('ns', operators=[OperatorTemplate('sop', ["x' = 1.0"], {'x': 'output(0.0)'})])
    tgt = NodeTemplate('nt', operators=[OperatorTemplate('top', ["z' = u"], {'z': 'output(0.0)', 'u': 'input(0.0)'})])
    return CircuitTemplate('c', nodes={'s': src, 'a': tgt}, edges=[('s/sop/x', 'a/top/u', None, a)])
dt = 1e-3
for d in (0.0004, 0.0006, 0.001, 0.0014, 0.0016, 0.002, 0.003):
    for vec in (False, True):
        df = circ(d).run(simulation_time=8*dt, step_size=dt, outputs={'z': 'a/top/z'}, solver='euler', vectorize=vec, verbose=False, in_place=False, float_precision='float64')
        z = df.values.ravel()
        # source x_k = k*dt ; u_k = x_{k-n}; z_{k+1}-z_k = dt*u_k -> recover shift n from increments
        inc = np.diff(z)/dt/dt
        print(f'delay {d} vec={vec}: delivered source index at steps 0..6 =', np.round(inc).astype(int).tolist(), ' expected shift', int(round(d/dt)))
        if int(round(d/dt)) == 1:
            assert np.round(inc).astype(int).tolist()[:3] == [0, 0, 1], 'one-step delay dropped'
