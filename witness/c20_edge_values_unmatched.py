import numpy as np, warnings, os, tempfile
os.chdir(tempfile.mkdtemp())
from pyrates import OperatorTemplate, NodeTemplate, CircuitTemplate
op = OperatorTemplate(name='op', path=None, equations=["d/dt * x = -k*x + r_in"], variables={'x': 'output(0.5)', 'k': 2.0, 'r_in': 'input(0.0)'})
nd = NodeTemplate(name='n', path=None, operators=[op])
for vec in (False, True):
    net = CircuitTemplate(name='a', path=None, nodes={'p1': nd, 'p2': nd}, edges=[('p1/op/x', 'p2/op/r_in', None, {'weight': 1.0})])
    with warnings.catch_warnings(record=True) as w:
        warnings.simplefilter('always')
        f, a, names, _ = net.get_run_func('vf', backend='default', vectorize=vec, edge_values={('p1/op/x', 'p2/op/r_in'): {'weight': 100.0}}, step_size=1e-3, verbose=False, clear=True, float_precision='float64')
    print(vec, np.asarray(f(*a)), [str(x.message)[:90] for x in w if 'edge_values' in str(x.message)])
