"""C20: (1) an output whose path matches no variable was silently dropped when another requested output was valid;
(2) node_values addressed to a node that does not exist were silently dropped.  usage: c20_silent_drops.py"""
import numpy as np, warnings, os, tempfile, sys
os.chdir(tempfile.mkdtemp())
from pyrates import OperatorTemplate, NodeTemplate, CircuitTemplate
op = OperatorTemplate(name='op', equations=["x' = -k*x"], variables={'x': 'output(0.5)', 'k': 2.0})
def mk(): return CircuitTemplate(name='c', nodes={'a': NodeTemplate(name='na', operators=[op]), 'b': NodeTemplate(name='nb', operators=[op])})
bad = False
with warnings.catch_warnings(record=True) as w:
    warnings.simplefilter('always')
    try:
        df = mk().run(simulation_time=0.005, step_size=1e-3, outputs={'x': 'a/op/x', 'y': 'a/op/xx'}, verbose=False, clear=True)
        print('outputs {x: a/op/x, y: a/op/xx}: returned columns', list(df.columns), '-> invalid output silently dropped')
        bad = True
    except Exception as e:
        print('outputs {x: a/op/x, y: a/op/xx}: raised', type(e).__name__, '-> ok')
with warnings.catch_warnings(record=True) as w:
    warnings.simplefilter('always')
    try:
        mk().get_run_func('vf', step_size=1e-3, verbose=False, clear=True, node_values={'zz/op/k': 3.0})
        msgs = [str(x.message) for x in w if 'zz' in str(x.message)]
        print("node_values {'zz/op/k': 3.0}: accepted;", 'warning: ' + msgs[0] if msgs else 'NO warning -> silently dropped')
        bad |= not msgs
    except Exception as e:
        print("node_values {'zz/op/k': 3.0}: raised", type(e).__name__, '-> ok')
print('DEFECT SHOWN' if bad else 'no defect')
sys.exit(1 if bad else 0)
