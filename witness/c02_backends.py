"""C02 witnesses.  usage: PATH=/venv/bin:$PATH python c02_backends.py <interp_torch|interp_fortran|fortran_literals|inplace_false>"""
import sys, numpy as np, warnings, os, tempfile
warnings.simplefilter('ignore'); os.chdir(tempfile.mkdtemp())
from pyrates import OperatorTemplate, NodeTemplate, CircuitTemplate
name = sys.argv[1]
if name.startswith('interp'):
    b = name.split('_')[1]
    op = OperatorTemplate(name='op', equations=["x' = -x + u"], variables={'x': 'output(0.0)', 'u': 'input(0.0)'})
    c = CircuitTemplate(name='c', nodes={'a': NodeTemplate(name='n', operators=[op])})
    u = np.array([1.0, -2.0, 0.5, 3.0, -1.0, 0.25])
    f, args, names, smap = c.get_run_func('vf', step_size=1e-3, backend=b, vectorize=False, verbose=False, float_precision='float64',
                                          inputs={'a/op/u': u}, solver='scipy')
    grid = np.linspace(0, 6e-3, 6)
    for t in (0.0, 0.3 * grid[1], 0.5 * (grid[2] + grid[3]), grid[4]):
        y = args[1]
        if b == 'torch':
            import torch
            out = f(torch.as_tensor(t, dtype=torch.float64), y, *args[2:]).numpy()[0]
        else:
            out = f(t, y, *args[2:])
            out = (args[2] if out is None else out)[0]
        exp = np.interp(t, grid, u)
        print(t, float(out), exp); assert abs(float(out) - exp) < 1e-9
elif name == 'fortran_literals':
    op = OperatorTemplate(name='op', equations=["x' = -2.463*x + 0.1*pi"], variables={'x': 'output(0.3)'})
    c = CircuitTemplate(name='c', nodes={'a': NodeTemplate(name='n', operators=[op])})
    f, args, names, smap = c.get_run_func('vf', step_size=1e-3, backend='fortran', vectorize=False, verbose=False, float_precision='float64')
    f(0, args[1], *args[2:]); got = args[2][0]
    exp = -2.463 * 0.3 + 0.1 * np.pi
    print(got, exp); assert abs(got - exp) < 1e-14
else:
    op = OperatorTemplate(name='op', equations=["x' = -x + z", "z' = -z"], variables={'x': 'output(0.3)', 'z': 'variable(0.2)'})
    c = CircuitTemplate(name='c', nodes={'a': NodeTemplate(name='n', operators=[op])})
    f, args, names, smap = c.get_run_func('vf', step_size=1e-3, vectorize=False, verbose=False, float_precision='float64', inplace_vectorfield=False)
    print(f(0, args[1], *args[2:]))
