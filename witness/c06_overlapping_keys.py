"""C06 witness: the same variable requested under two wildcard keys."""
import numpy as np, warnings, os, tempfile, sys
warnings.simplefilter('ignore'); os.chdir(tempfile.mkdtemp())
from pyrates import OperatorTemplate, NodeTemplate, CircuitTemplate
op = OperatorTemplate(name='op', equations=["x' = -k*x"], variables={'x': 'output(0.2)', 'k': 1.0})
c = CircuitTemplate(name='c', nodes={'a': NodeTemplate(name='na', operators=[op]), 'b': NodeTemplate(name='nb', operators={op: {'x': 0.9}})})
res = c.run(simulation_time=0.003, step_size=1e-3, solver='euler', outputs={'k1': 'all/op/x', 'k2': 'all/op/x'}, vectorize=False, verbose=False, float_precision='float64')
print(res)
assert res.shape[1] == 4
