"""C10: vectorize=True, two identical nodes, ONE delayed edge p0 -> p1 under an adaptive solver: the generated function assigned a
length-1 buffer vector to a single target element (ValueError 'setting an array element with a sequence')."""
import numpy as np, warnings, os, tempfile, sys, math
warnings.simplefilter('ignore'); os.chdir(tempfile.mkdtemp())
from pyrates import OperatorTemplate, NodeTemplate, CircuitTemplate
op = OperatorTemplate(name='op', equations=["x' = -x + u"], variables={'x': 'output(0.5)', 'u': 'input(0.0)'})
nodes = {f'p{i}': NodeTemplate(name=f'p{i}', operators={op: {'x': 0.3 + 0.2 * i}}) for i in range(2)}
edges = [('p0/op/x', 'p1/op/u', None, {'weight': 2.0, 'delay': 0.3})]
hist = lambda t: np.array([math.sin(40 * t + 0.3), math.sin(70 * t + 1.1)])
c = CircuitTemplate(name='c', nodes=nodes, edges=edges)
f, args, names, smap = c.get_run_func('vf', step_size=1e-3, solver='scipy', vectorize=True, verbose=False, clear=True, float_precision='float64', hist=hist)
try:
    dy = np.array(f(0.5, np.array([0.2, -0.4]), *list(args)[2:]), dtype=float)
    exp = [-0.2, 0.4 + 2.0 * hist(0.2)[0]]
    ok = np.allclose(dy, exp, atol=1e-12)
    print('dy =', dy, 'expected', exp, '->', 'ok' if ok else 'WRONG')
except Exception as e:
    ok = False
    print(type(e).__name__, e)
print('no defect' if ok else 'DEFECT SHOWN')
sys.exit(0 if ok else 1)
