"""C12: x' = -2*x + sign(x): the Jacobian entry was left 0 (only a '# WARNING: could not differentiate' comment in the generated
source) instead of -2.  Repaired by the fix recorded in known_findings.json.
Run: cd $(mktemp -d) && PYTHONPATH=/repo /venv/bin/python /verif/witness/c12_sign_blanks_entry.py"""
import warnings
import numpy as np
from pyrates import CircuitTemplate, OperatorTemplate, NodeTemplate
warnings.simplefilter('ignore')
op = OperatorTemplate(name='op', equations=["x' = -2.0*x + 0.5*sign(x - 0.3)*x + absv(x)"], variables={'x': 'output(0.4)'})
c = CircuitTemplate(name='c', nodes={'p': NodeTemplate(name='n', operators=[op])})
jf, ja, nm, sm = c.get_jacobian_func('jf', step_size=1e-3, solver='scipy', vectorize=False, float_precision='float64', verbose=False)
a, b = float(jf(*ja)[0, 0]), float(jf(0.0, np.array([-0.7]), *ja[2:])[0, 0])
print('J(0.4) =', a, 'expected -0.5;  J(-0.7) =', b, 'expected -3.5')
ok = abs(a + 0.5) < 1e-12 and abs(b + 3.5) < 1e-12
print('PASS' if ok else 'FAIL')
raise SystemExit(0 if ok else 1)
