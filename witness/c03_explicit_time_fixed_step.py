"""C03 open finding: under euler / heun an explicit t in an equation is the integer step counter, not the time."""
import numpy as np, warnings, os, tempfile
warnings.simplefilter('ignore'); os.chdir(tempfile.mkdtemp())
from pyrates import OperatorTemplate, NodeTemplate, CircuitTemplate
out = {}
for s in ('euler', 'scipy'):
    op = OperatorTemplate(name='op', equations=["x' = -x + sin(20.0*t)"], variables={'x': 'output(0.0)', 't': 'variable(0.0)'})
    c = CircuitTemplate(name='c', nodes={'p1': NodeTemplate(name='n', operators=[op])})
    out[s] = float(c.run(simulation_time=0.5, step_size=1e-3, outputs={'x': 'p1/op/x'}, solver=s, verbose=False, float_precision='float64', in_place=False).values[-1, 0])
print(out); assert abs(out['euler'] - out['scipy']) < 1e-3, 'fixed-step and adaptive solvers do not converge to the same trajectory'
