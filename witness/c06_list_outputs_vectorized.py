"""C06 witness: list form of outputs for one node that vectorization merged into another.
The column labelled b/op/x must carry b's trajectory (b starts at 0.9, a at 0.2)."""
import numpy as np, warnings, os, tempfile, sys
warnings.simplefilter('ignore'); os.chdir(tempfile.mkdtemp())
from pyrates import OperatorTemplate, NodeTemplate, CircuitTemplate
op = OperatorTemplate(name='op', equations=["x' = -k*x"], variables={'x': 'output(0.2)', 'k': 1.0})
na = NodeTemplate(name='na', operators=[op])
nb = NodeTemplate(name='nb', operators={op: {'x': 0.9, 'k': 3.0}})
c = CircuitTemplate(name='c', nodes={'a': na, 'b': nb})
res = c.run(simulation_time=0.005, step_size=1e-3, solver='euler', outputs=['b/op/x'], vectorize=True, verbose=False, float_precision='float64')
print(res)
assert list(res.columns) == ['b/op/x'] and abs(res.values[0, 0] - 0.9) < 1e-12
