"""C12 (open finding F-C12-fixed-step-delay-jacobian): delayed edge + fixed-step solver (the delay is a buffer there), delayed term
multiplied with a state variable: the Jacobian entry reads the buffer (u_buffer_out0[5]), which is neither an argument nor a local
of the generated function -> NameError when the function is called.  With solver='scipy' the same model works.
Run: cd $(mktemp -d) && PYTHONPATH=/repo /venv/bin/python /verif/witness/c12_fixed_step_delay_jacobian.py"""
import warnings
import numpy as np
from pyrates import CircuitTemplate, OperatorTemplate, NodeTemplate
warnings.simplefilter('ignore')


def circ():
    op = OperatorTemplate(name='op', equations=["u' = -u + u*inp"], variables={'u': 'output(0.3)', 'inp': 'input(0.0)'})
    return CircuitTemplate(name='c', nodes={'p': NodeTemplate(name='n', operators=[op])},
                           edges=[('p/op/u', 'p/op/inp', None, {'weight': 2.0, 'delay': 0.5})])


kw = dict(step_size=0.1, in_place=False, vectorize=False, float_precision='float64', verbose=False, backend='default')
ok = True
for solver in ('scipy', 'euler', 'heun'):
    try:
        jf, ja, names, _ = circ().get_jacobian_func('jf', solver=solver, **kw)
        print(solver, names, jf(*ja))
    except Exception as e:
        print(solver, 'raised', type(e).__name__, e)
        ok = False
print('PASS' if ok else 'FAIL (finding reproduced)')
raise SystemExit(0 if ok else 1)
