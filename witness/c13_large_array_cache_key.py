"""C13 (fixed 3262d71): operators whose long constant vectors differ in interior elements shared one cache entry."""
import numpy as np, warnings, os, tempfile
warnings.simplefilter('ignore'); os.chdir(tempfile.mkdtemp())
from pyrates import OperatorTemplate, NodeTemplate, CircuitTemplate
out = []
for mid in (1.0, 5.0):
    arr = np.ones(2000); arr[1000] = mid
    op = OperatorTemplate('big', ["x' = -x + index(w, 1000)"], {'x': 'output(0.0)', 'w': {'vtype': 'constant', 'value': arr, 'shape': (2000,), 'dtype': 'float'}})
    c = CircuitTemplate('c', nodes={'a': NodeTemplate('n', operators=[op])})
    f, args, names, _ = c.get_run_func('f', vectorize=False, step_size=1e-3, verbose=False, clear=False, float_precision='float64')
    out.append(float(np.asarray(f(*args)).ravel()[0]))
print(out); assert out == [1.0, 5.0]
