"""C07 witness: node_values for node a only; node b shares the NodeTemplate object and must keep k = 1.0."""
import numpy as np, warnings, os, tempfile, sys
warnings.simplefilter('ignore'); os.chdir(tempfile.mkdtemp())
from pyrates import OperatorTemplate, NodeTemplate, CircuitTemplate
op = OperatorTemplate(name='op', equations=["x' = -k*x"], variables={'x': 'output(0.2)', 'k': 1.0})
nt = NodeTemplate(name='n', operators=[op])
c = CircuitTemplate(name='c', nodes={'a': nt, 'b': nt})
f, args, names, smap = c.get_run_func('vf', step_size=1e-3, vectorize=False, float_precision='float64', verbose=False, clear=True,
                                      in_place=False, node_values={'a/op/k': 5.0})
vals = dict(zip(names[3:], [float(a) for a in args[3:]]))
print(vals)
assert vals == {'a/op/k': 5.0, 'b/op/k': 1.0}
