"""C13: two different models compiled for the Fortran backend under the same (default) file name in one process: the second
get_run_func returned the compiled module of the FIRST model (a compiled extension cannot be re-imported under the same name),
also after clear()."""
import numpy as np, warnings, os, tempfile, sys
warnings.simplefilter('ignore'); os.chdir(tempfile.mkdtemp())
os.environ['PATH'] = '/venv/bin:' + os.environ.get('PATH', '')
from pyrates import OperatorTemplate, NodeTemplate, CircuitTemplate
def model(eq):
    op = OperatorTemplate(name='op', equations=[eq], variables={'x': 'output(0.5)', 'k': 2.0})
    return CircuitTemplate(name='c', nodes={'n': NodeTemplate(name='n', operators=[op])})
bad = False
for clear in (False, True):
    for eq, exp in (("x' = -k*x + 1.0", 0.0), ("x' = -k*x*x + 3.0", 2.5)):
        f, args, names, smap = model(eq).get_run_func('vf', step_size=1e-3, backend='fortran', vectorize=False, verbose=False, clear=clear,
                                                      float_precision='float64')
        dy = np.zeros(1)
        f(0, np.array([0.5]), dy, *args[3:])
        ok = abs(dy[0] - exp) < 1e-12
        print(f"clear={clear}: {eq}: dy = {dy[0]}, expected {exp} ->", 'ok' if ok else 'WRONG (earlier module)')
        bad |= not ok
print('DEFECT SHOWN' if bad else 'no defect')
sys.exit(1 if bad else 0)
