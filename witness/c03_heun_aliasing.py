"""C03 witness: Heun on x' = -x, dt = 0.1.  One step: x1 = x0 * (1 - dt + dt^2/2)."""
import numpy as np, warnings, os, tempfile, sys
warnings.simplefilter('ignore'); os.chdir(tempfile.mkdtemp())
from pyrates import OperatorTemplate, NodeTemplate, CircuitTemplate
op = OperatorTemplate(name='o', equations=["x' = -x"], variables={'x': 'output(1.0)'})
c = CircuitTemplate(name='c', nodes={'a': NodeTemplate(name='a', operators=[op])})
res = c.run(simulation_time=0.5, step_size=0.1, solver='heun', outputs={'x': 'a/o/x'}, vectorize=False, verbose=False, float_precision='float64')
print(res.values[:3, 0], 'expected second row', 1 - 0.1 + 0.005)
assert abs(res.values[1, 0] - 0.905) < 1e-12
