"""C05: two factors that denote the same quantity but differ in the type of a coefficient after sympy's canonicalisation -
(2.0*r)**2 + 2.0 -> 4.0*r**2 + 2.0 and (r + r)**2 + 2.0 -> 4*r**2 + 2.0 - : one factor was dropped from parsing, direct evaluation
returned a symbolic expression and code generation raised AttributeError ('Add' object has no attribute 'shape').
Repaired by 2d9e5a1.
Run: cd $(mktemp -d) && PYTHONPATH=/repo /venv/bin/python /verif/witness/c05_matching_factors.py"""
import numpy as np
from pyrates.backend.computegraph import ComputeGraph
from pyrates.backend.parser import ExpressionParser
from pyrates import OperatorTemplate, NodeTemplate, CircuitTemplate
r = 0.7574
want = (2.0 + (2.0 * r) ** 2) * (2.0 + (r + r) ** 2)
ex = "(2.0 + (2.0 * r_in)**2) * (2.0 + (r_in + r_in)**2)"
ok = True
try:
    cg = ComputeGraph(backend='default')
    ExpressionParser(ex, args={'r_in': {'vtype': 'constant', 'value': r, 'dtype': 'float', 'shape': ()}}, cg=cg).parse_expr()
    got = cg.eval_node(cg.var_updates['non-DEs']['x'])
    print('direct evaluation:', got, ' expected', want)
    ok &= abs(float(got) - want) < 1e-12
except Exception as e:
    print('direct evaluation raised', type(e).__name__, e)
    ok = False
try:
    op = OperatorTemplate(name='op', equations=[f"z' = {ex}"], variables={'z': 'output(0.0)', 'r_in': r})
    c = CircuitTemplate(name='c', nodes={'p': NodeTemplate(name='n', operators=[op])})
    f, a, k, s = c.get_run_func('vf', step_size=1e-3, vectorize=False, verbose=False, float_precision='float64')
    got = float(np.asarray(f(*a)).ravel()[0])
    print('generated code:', got, ' expected', want)
    ok &= abs(got - want) < 1e-12
except Exception as e:
    print('code generation raised', type(e).__name__, e)
    ok = False
print('PASS' if ok else 'FAIL')
raise SystemExit(0 if ok else 1)
