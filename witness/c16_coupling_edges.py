import numpy as np, warnings, os, tempfile, sys
warnings.simplefilter('ignore'); os.chdir(tempfile.mkdtemp())
from pyrates import OperatorTemplate, NodeTemplate, CircuitTemplate, EdgeTemplate
from pyrates.frontend.template import PopulationTemplate
from pyrates.frontend.template.population import Connectivity
node = NodeTemplate('n', operators=[OperatorTemplate('rate_op', ["r' = -r + eta + s_in"], {'r':'output(0.0)','eta':1.0,'s_in':'input(0.0)'})])
dt = 1e-3
def applied(conns, pops):
    c = CircuitTemplate('c', populations=pops, connections=conns)
    out = {}
    for p in pops:
        df = c.run(simulation_time=4*dt, step_size=dt, solver='euler', outputs={'r': f'{p}/rate_op/r'}, float_precision='float64', verbose=False, in_place=False, clear=True)
        r = df.values
        out[p] = ((r[2]-r[1])/dt + r[1]).round(4).tolist(), r[1].round(4).tolist()
    return out
def t(name, f):
    try: print(name, '->', f())
    except Exception as e: print(name, 'EXC', type(e).__name__, str(e)[:200])
P = lambda name, r0: PopulationTemplate(name, node, len(r0), params={'rate_op/r': list(r0), 'rate_op/eta': 0.0})
e_sq = EdgeTemplate('e', operators=[OperatorTemplate('sq', ["s = x*x"], {'s': 'output(0.0)', 'x': 'input(0.0)'})])
t('1 scalar weight + edge (expect ~2*sum(r^2)=28 at r0; after 1 step slightly less)', lambda: applied([Connectivity('p/rate_op/r','p/rate_op/s_in', 2.0, edge=e_sq, edge_var_map={'x':'source'})], {'p': P('p',[1.,2.,3.])}))
e_two = EdgeTemplate('e2', operators=[OperatorTemplate('two', ["d = x + z", "s = 2*d"], {'s': 'output(0.0)', 'd': 'variable(0.0)', 'x': 'input(0.0)', 'z': 'input(0.0)'})])
W = np.roll(np.eye(3), 1, axis=1)
t('2 multi-eq', lambda: applied([Connectivity('p/rate_op/r','p/rate_op/s_in', W, edge=e_two, edge_var_map={'x':'source','z':'p/rate_op/r'})], {'p': P('p',[1.,2.,3.])}))
t('4 two conns same src/tgt', lambda: applied([Connectivity('p/rate_op/r','p/rate_op/s_in', W), Connectivity('p/rate_op/r','p/rate_op/s_in', 0.5*np.eye(3))], {'p': P('p',[1.,2.,3.])}))
e_k = EdgeTemplate('ek', operators=[OperatorTemplate('kk', ["s = k*x"], {'s': 'output(0.0)', 'x': 'input(0.0)', 'k': 3.0})])
t('6 const in algebraic edge', lambda: applied([Connectivity('p/rate_op/r','p/rate_op/s_in', W, edge=e_k, edge_var_map={'x':'source'})], {'p': P('p',[1.,2.,3.])}))
