"""C01/C05 witness: a user variable called x_v1 next to two variables called x.  Every state variable must keep
its own equation and position."""
import numpy as np, warnings, os, tempfile, sys
warnings.simplefilter('ignore'); os.chdir(tempfile.mkdtemp())
from pyrates import OperatorTemplate, NodeTemplate, CircuitTemplate
for order in (0, 1):
    o1 = OperatorTemplate(name='o1', equations=["x' = -2*x"], variables={'x': 'output(0.2)'})
    o2 = OperatorTemplate(name='o2', equations=["x_v1' = -3*x_v1"], variables={'x_v1': 'output(0.5)'})
    nodes = {'a': NodeTemplate(name='a', operators=[o1]), 'b': NodeTemplate(name='b', operators=[o1]),
             'c': NodeTemplate(name='c', operators=[o2])}
    if order:
        nodes = dict(reversed(list(nodes.items())))
    c = CircuitTemplate(name='c', nodes=nodes)
    f, args, names, smap = c.get_run_func('vf', step_size=1e-3, vectorize=False, float_precision='float64', verbose=False, clear=True)
    y = np.array(args[1]); dy = f(0, y, *args[2:])
    print(smap, y, dy)
    assert len(y) == 3 and len(set(smap.values())) == 3
    assert abs(dy[smap['a/o1/x']] + 0.4) < 1e-12 and abs(dy[smap['b/o1/x']] + 0.4) < 1e-12 and abs(dy[smap['c/o2/x_v1']] + 1.5) < 1e-12
