"""C20 witness: an extrinsic input addressed to a variable that does not exist must at least warn."""
import numpy as np, warnings, os, tempfile
os.chdir(tempfile.mkdtemp())
from pyrates import OperatorTemplate, NodeTemplate, CircuitTemplate
op = OperatorTemplate(name='op', equations=["x' = -x + u"], variables={'x': 'output(0.0)', 'u': 'input(0.0)'})
c = CircuitTemplate(name='c', nodes={'a': NodeTemplate(name='n', operators=[op])})
with warnings.catch_warnings(record=True) as w:
    warnings.simplefilter('always')
    try:
        c.run(simulation_time=3e-3, step_size=1e-3, inputs={'a/op/nope': np.ones(3)}, outputs={'x': 'a/op/x'}, verbose=False)
        raised = False
    except Exception:
        raised = True
msgs = [str(x.message) for x in w if 'nope' in str(x.message)]
print('raised', raised, 'warnings', msgs[:1]); assert raised or msgs
