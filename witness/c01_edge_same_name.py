"""C01 witness: an edge whose source and target variables have the same name (k -> k), single edge and fan-in."""
import numpy as np, warnings, os, tempfile, sys
warnings.simplefilter('ignore'); os.chdir(tempfile.mkdtemp())
from pyrates import OperatorTemplate, NodeTemplate, CircuitTemplate
for nsrc in (1, 2):
    src = OperatorTemplate(name='src', equations=["k' = -k"], variables={'k': 'output(0.3)'})
    src2 = OperatorTemplate(name='src2', equations=["k' = -2*k"], variables={'k': 'output(0.9)'})
    tgt = OperatorTemplate(name='tgt', equations=["x' = -x + k"], variables={'x': 'output(0.1)', 'k': 'input(0.0)'})
    nodes = {'a': NodeTemplate(name='a', operators=[src]), 'b': NodeTemplate(name='b', operators=[tgt]), 'c': NodeTemplate(name='c', operators=[src2])}
    edges = [('a/src/k', 'b/tgt/k', None, {'weight': 2.0})]
    if nsrc == 2:
        edges.append(('c/src2/k', 'b/tgt/k', None, {'weight': 5.0}))
    c = CircuitTemplate(name='c', nodes=nodes, edges=edges)
    f, args, names, smap = c.get_run_func('vf', step_size=1e-3, vectorize=False, float_precision='float64', verbose=False, clear=True)
    dy = f(0, np.array(args[1]), *args[2:])
    exp = {'b/tgt/x': -0.1 + 2 * 0.3 + (5 * 0.9 if nsrc == 2 else 0), 'a/src/k': -0.3, 'c/src2/k': -1.8}
    print(nsrc, {k: float(dy[smap[k]]) for k in exp}, exp)
    for k in exp:
        assert abs(dy[smap[k]] - exp[k]) < 1e-12, k
