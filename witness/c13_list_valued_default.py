"""C13: a list-valued constant default was extended in place by the first vectorized compilation; the second compilation of the same
model in the same process failed (ValueError: inhomogeneous shape).  Repaired by bf0a890.
Run: cd $(mktemp -d) && PYTHONPATH=/repo /venv/bin/python /verif/witness/c13_list_valued_default.py"""
import numpy as np
from pyrates import CircuitTemplate, OperatorTemplate, NodeTemplate


def mk():
    op = OperatorTemplate(name='vop', path='none', equations=["x' = -x + k"],
                          variables={'x': 'output(0.5)', 'k': {'vtype': 'constant', 'value': [1.0], 'shape': (1,), 'dtype': 'float'}})
    n = NodeTemplate(name='n', path='none', operators=[op])
    return CircuitTemplate(name='c', path='none', nodes={'a': n, 'b': n})


ok = True
for i in range(3):
    try:
        f, a, _, _ = mk().get_run_func(f'f{i}', step_size=1e-3, backend='default', verbose=False, file_name=f'm{i}', clear=False)
        dy = np.asarray(f(*a), dtype=float)
        print('compilation', i + 1, 'dy =', dy)
        ok &= np.allclose(dy, [0.5, 0.5])
    except Exception as e:
        print('compilation', i + 1, 'raised', type(e).__name__, e)
        ok = False
print('PASS' if ok else 'FAIL')
raise SystemExit(0 if ok else 1)
