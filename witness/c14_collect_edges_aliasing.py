"""C14 witness: get_edges / collect_edges on a hierarchical circuit must not change it."""
import numpy as np, warnings, os, tempfile, sys
warnings.simplefilter('ignore'); os.chdir(tempfile.mkdtemp())
from pyrates import OperatorTemplate, NodeTemplate, CircuitTemplate
src = OperatorTemplate(name='src', equations=["s' = -s"], variables={'s': 'output(0.3)'})
tgt = OperatorTemplate(name='tgt', equations=["x' = -x + u"], variables={'x': 'output(0.1)', 'u': 'input(0.0)'})
sub = CircuitTemplate(name='sub', nodes={'a': NodeTemplate(name='a', operators=[src]), 'b': NodeTemplate(name='b', operators=[tgt])},
                      edges=[('a/src/s', 'b/tgt/u', None, {'weight': 2.0})])
top = CircuitTemplate(name='top', circuits={'s1': sub})
n0 = (len(top.edges), len(sub.edges))
for _ in range(3):
    e = top.get_edges('all', 'all')
print('edges returned', len(e), 'edge lists before', n0, 'after', (len(top.edges), len(sub.edges)))
assert len(e) == 1 and (len(top.edges), len(sub.edges)) == n0
