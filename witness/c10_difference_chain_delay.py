"""C10: x(t-0.5-0.2) was rewritten to past(x, 0.5-0.2): the generated function read hist(t-0.3) instead of hist(t-0.7).
Repaired by 1411f0d.
Run: cd $(mktemp -d) && PYTHONPATH=/repo /venv/bin/python /verif/witness/c10_difference_chain_delay.py"""
import warnings
import numpy as np
from pyrates import CircuitTemplate, NodeTemplate, OperatorTemplate
warnings.filterwarnings('ignore')
op = OperatorTemplate(name='o', equations=["x' = -x(t-0.5-0.2)"], variables={'x': 'output(1.0)'})
c = CircuitTemplate(name='c', nodes={'p0': NodeTemplate(name='n', operators=[op])})
f, a, k, s = c.get_run_func('f', step_size=1e-3, solver='scipy', vectorize=False, in_place=False, verbose=False, float_precision='float64')
asked = []


def hist(t):
    asked.append(float(t))
    return np.array([np.sin(t)])


args = list(a)
args[k.index('hist')] = hist
dy = f(2.0, np.array([0.3]), *args[2:])
print('history queried at', asked, ' dy =', dy, ' expected query at 1.3, dy =', -np.sin(1.3))
ok = len(asked) == 1 and abs(asked[0] - 1.3) < 1e-12 and abs(float(np.asarray(dy).ravel()[0]) + np.sin(1.3)) < 1e-12
print('PASS' if ok else 'FAIL')
raise SystemExit(0 if ok else 1)
