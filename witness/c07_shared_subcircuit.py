"""C07 witness: sub-circuit object used under two keys; update_var on s1/a only."""
import numpy as np, warnings, os, tempfile, sys
warnings.simplefilter('ignore'); os.chdir(tempfile.mkdtemp())
from pyrates import OperatorTemplate, NodeTemplate, CircuitTemplate
op = OperatorTemplate(name='op', equations=["x' = -k*x"], variables={'x': 'output(0.2)', 'k': 1.0})
sub = CircuitTemplate(name='sub', nodes={'a': NodeTemplate(name='n', operators=[op])})
top = CircuitTemplate(name='top', circuits={'s1': sub, 's2': sub})
other = CircuitTemplate(name='other', circuits={'s1': sub})
top.update_var(node_vars={'s1/a/op/k': 5.0})
for c, exp in ((top, {'s1/a/op/k': 5.0, 's2/a/op/k': 1.0}), (other, {'s1/a/op/k': 1.0})):
    f, args, names, smap = c.get_run_func('vf', step_size=1e-3, vectorize=False, float_precision='float64', verbose=False, clear=True, in_place=False)
    vals = dict(zip(names[3:], [float(a) for a in args[3:]]))
    print(vals)
    assert vals == exp
