"""C10 open finding: an edge delay of exactly 1.0 time units under an adaptive solver is silently dropped.
Model: s' = -s (s0 = 1), x' = u - x (x0 = 0), edge s -> u with delay d, solver scipy/RK45.  With constant pre-history s = 1
for t < 0 the solution for 0 <= t <= d is x(t) = 1 - exp(-t) whatever d >= t is; without a delay it is t*exp(-t).
d = 1.0 gives the undelayed solution, d = 1.0000001 the delayed one."""
import numpy as np, warnings, os, tempfile, sys
warnings.simplefilter('ignore'); os.chdir(tempfile.mkdtemp())
from pyrates import OperatorTemplate, NodeTemplate, CircuitTemplate
src = OperatorTemplate(name='src', equations=["s' = -s"], variables={'s': 'output(1.0)'})
tgt = OperatorTemplate(name='tgt', equations=["x' = u - x"], variables={'x': 'output(0.0)', 'u': 'input(0.0)'})
bad = False
for d in (1.0, 1.0000001, 2.0):
    c = CircuitTemplate(name='c', nodes={'a': NodeTemplate(name='a', operators=[src]), 'b': NodeTemplate(name='b', operators=[tgt])},
                        edges=[('a/src/s', 'b/tgt/u', None, {'weight': 1.0, 'delay': d})])
    df = c.run(simulation_time=1.0, step_size=1e-2, solver='scipy', outputs={'x': 'b/tgt/x'}, verbose=False, float_precision='float64',
               clear=True, method='RK45', rtol=1e-9, atol=1e-11)
    t = 0.5
    got = float(df['x'].values[50])
    exp_delayed, exp_undelayed = 1 - np.exp(-t), t * np.exp(-t)
    ok = abs(got - exp_delayed) < 1e-6
    print(f"delay {d!r}: x(0.5) = {got:.8f}; delayed solution {exp_delayed:.8f}, undelayed solution {exp_undelayed:.8f} ->", 'ok' if ok else 'WRONG (delay dropped)')
    bad |= not ok
print('DEFECT SHOWN' if bad else 'no defect')
sys.exit(1 if bad else 0)
