"""C07: a constant declared with an integer default (k: 2) that receives a non-integral value through update_var, node_values or
a node-level override was truncated to the integer type of its default (2.5 -> 2), silently."""
import numpy as np, warnings, os, tempfile, sys
warnings.simplefilter('ignore'); os.chdir(tempfile.mkdtemp())
from pyrates import OperatorTemplate, NodeTemplate, CircuitTemplate
op = OperatorTemplate(name='op', equations=["x' = -k*x + c"], variables={'x': 'output(0.5)', 'k': 2, 'c': 1.0})
bad = False
for route in ('update_var', 'node_values', 'node_template'):
    for vec in (False, True):
        nt = NodeTemplate(name='n', operators={op: {'k': 2.5}}) if route == 'node_template' else NodeTemplate(name='n', operators=[op])
        c = CircuitTemplate(name='c', nodes={'a': NodeTemplate(name='n0', operators=[op]), 'b': nt})
        kw = {}
        if route == 'update_var':
            c.update_var(node_vars={'b/op/k': 2.5})
        if route == 'node_values':
            kw['node_values'] = {'b/op/k': 2.5}
        f, args, names, smap = c.get_run_func('vf', step_size=1e-3, vectorize=vec, verbose=False, clear=True, float_precision='float64', **kw)
        dy = np.asarray(f(0, np.array(args[1], dtype=float), *args[2:])).ravel()
        ok = np.allclose(dy, [0.0, -0.25])
        print(f'{route}, vectorize={vec}: dy = {dy}, expected [0.0, -0.25] ->', 'ok' if ok else 'WRONG')
        bad |= not ok
print('DEFECT SHOWN' if bad else 'no defect')
sys.exit(1 if bad else 0)
