"""C10 open finding: on the torch backend a function applied to a delayed term raises TypeError (the history returns numpy values)."""
import numpy as np, warnings, os, tempfile
warnings.simplefilter('ignore'); os.chdir(tempfile.mkdtemp())
from pyrates import OperatorTemplate, NodeTemplate, CircuitTemplate
op = OperatorTemplate('op', ["x' = -0.5*x + k*tanh(past(x, 0.05))"], {'x': 'output(1.0)', 'k': -1.2})
c = CircuitTemplate('c', nodes={'p': NodeTemplate('n', operators=[op])})
for b in ('default', 'torch'):
    print(b, c.run(simulation_time=0.1, step_size=1e-3, outputs={'x': 'p/op/x'}, solver='euler', backend=b, verbose=False, in_place=False, float_precision='float64', vectorize=False).values[-1])
