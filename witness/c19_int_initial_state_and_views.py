import numpy as np, warnings
warnings.simplefilter('ignore')
from pyrates.backend.base.base_backend import DDEHistory
h = DDEHistory(np.array([0, 0]), t0=0.0); h.update(1.0, np.array([0.5, 1.5]))
print('int y0:', h(1.0), h(0.5))
h = DDEHistory(np.array([1., 2.])); h.update(1.0, np.array([3., 4.]))
r = h(2.0); r[:] = 0
print('view after:', h(1.0), h(0.5))
h = DDEHistory(np.array([1., 2.])); h.update(1.0, np.array([3., 4.]))
r = h(-1.0); r[:] = 0
print('view before:', h(0.0), h(0.5))
h = DDEHistory(np.array([0, 0]), t0=0.0); h.update(1.0, np.array([0.5, 1.5]))
assert np.array_equal(h(1.0), [0.5, 1.5]) and np.allclose(h(0.5), [0.25, 0.75])
h = DDEHistory(np.array([1., 2.])); h.update(1.0, np.array([3., 4.]))
r = h(2.0); r[:] = 0; r = h(-1.0); r[:] = 0
assert np.array_equal(h(1.0), [3., 4.]) and np.array_equal(h(0.0), [1., 2.])
