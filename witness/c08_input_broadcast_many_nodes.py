"""C08 witness: a 1-D input broadcast to 12 structurally identical nodes with vectorize=True."""
import numpy as np, warnings, os, tempfile
warnings.simplefilter('ignore'); os.chdir(tempfile.mkdtemp())
from pyrates import OperatorTemplate, NodeTemplate, CircuitTemplate
op = OperatorTemplate(name='op', equations=["x' = -x + u"], variables={'x': 'output(0.0)', 'u': 'input(0.0)'})
nt = NodeTemplate(name='n', operators=[op])
c = CircuitTemplate(name='c', nodes={f'a{i}': nt for i in range(12)})
u = np.array([1.0, -2.0, 0.5, 3.0])
res = c.run(simulation_time=4e-3, step_size=1e-3, solver='euler', inputs={'all/op/u': u}, outputs={'x': 'all/op/x'}, vectorize=True,
            verbose=False, float_precision='float64')
print(res.values[:, :3]); assert res.shape == (4, 12) and abs(res.values[1, 5] - 1e-3) < 1e-15
