"""C01/C04 witnesses for templated (EdgeTemplate) edges.  usage: c01_templated_edges.py <name>
  fanout10        : one source node projects to N >= 10 nodes of one type with different weights; vectorize=True
                    gives every target the FIRST weight (repaired: fix commit, see known_findings.json)
  parallel        : two parallel edges through one EdgeTemplate between the same source and target (own g each),
                    vectorize=False -> IndexError in the generated function
  mixed_overrides : edges through one EdgeTemplate, vectorize=True, only some of them override the template constant g:
                    first edge without / later edge with override -> KeyError at compile time;
                    first edge with / later edge without override -> later edges silently shifted values
"""
import numpy as np, warnings, os, tempfile, sys
warnings.simplefilter('ignore'); os.chdir(tempfile.mkdtemp())
from pyrates import OperatorTemplate, NodeTemplate, CircuitTemplate, EdgeTemplate

which = sys.argv[1] if len(sys.argv) > 1 else 'parallel'
src = OperatorTemplate(name='src', equations=["s' = -0.5*s"], variables={'s': 'output(1.3)'})
tgt = OperatorTemplate(name='tgt', equations=["x' = -x + u"], variables={'x': 'output(0.2)', 'u': 'input(0.0)'})
eop = OperatorTemplate(name='eop', equations=["m = g*xe"], variables={'m': 'output(0.0)', 'xe': 'input(0.0)', 'g': 0.5})
S, T = NodeTemplate(name='S', operators=[src]), NodeTemplate(name='T', operators=[tgt])
ET = EdgeTemplate(name='et', operators=[eop])


def vf(c, vec):
    f, args, names, smap = c.get_run_func('vf', step_size=1e-3, vectorize=vec, float_precision='float64', verbose=False,
                                          clear=True)
    y = np.array(args[1], dtype=float)
    dy = np.array(f(0, y, *args[2:]), dtype=float)
    return {k: dy[v] if not isinstance(v, (list, tuple)) else dy[v[0]:v[1]] for k, v in smap.items()}, y


bad = False
if which == 'fanout10':
    N = 11
    nodes = {'s': S}; nodes.update({f't{i}': T for i in range(N)})
    w = [0.1 * (i + 1) + 0.01 for i in range(N)]
    edges = [('s/src/s', f't{i}/tgt/u', None, {'weight': w[i]}) for i in range(N)]
    for vec in (False, True):
        d, y = vf(CircuitTemplate('c', nodes=nodes, edges=edges), vec)
        got = np.sort(np.concatenate([np.atleast_1d(v) for k, v in d.items() if k.endswith('/x')]))
        exp = np.sort(np.array([-0.2 + wi * 1.3 for wi in w]))
        ok = got.shape == exp.shape and np.allclose(got, exp)
        print(f'vectorize={vec}: dx = {np.round(got, 4)}  expected {np.round(exp, 4)}  ->', 'ok' if ok else 'WRONG')
        bad |= not ok
elif which == 'parallel':
    nodes = {'s': S, 't': T}
    edges = [('s/src/s', 't/tgt/u', ET, {'weight': 2.0, 'eop/g': 0.3}), ('s/src/s', 't/tgt/u', ET, {'weight': 3.0, 'eop/g': 0.7})]
    exp = -0.2 + 2.0 * 0.3 * 1.3 + 3.0 * 0.7 * 1.3
    for vec in (False, True):
        try:
            d, y = vf(CircuitTemplate('c', nodes=nodes, edges=edges), vec)
            got = float(np.atleast_1d(d['t/tgt/x'])[0])
            ok = abs(got - exp) < 1e-12
            print(f'vectorize={vec}: dx = {got} expected {exp} ->', 'ok' if ok else 'WRONG')
        except Exception as e:
            ok = False
            print(f'vectorize={vec}: {type(e).__name__}: {e}')
        bad |= not ok
elif which == 'mixed_overrides':
    nodes = {'s0': S, 's1': S, 't0': T, 't1': T}
    for order in ('with_first', 'without_first'):
        a = {'weight': 2.0, 'eop/g': 0.3}
        b = {'weight': 3.0}
        e0, e1 = (a, b) if order == 'with_first' else (b, a)
        edges = [('s0/src/s', 't0/tgt/u', ET, dict(e0)), ('s1/src/s', 't1/tgt/u', ET, dict(e1))]
        g0, g1 = e0.get('eop/g', 0.5), e1.get('eop/g', 0.5)
        exp = [-0.2 + e0['weight'] * g0 * 1.3, -0.2 + e1['weight'] * g1 * 1.3]
        for vec in (False, True):
            try:
                d, y = vf(CircuitTemplate('c', nodes=nodes, edges=edges), vec)
                got = np.concatenate([np.atleast_1d(v) for k, v in sorted(d.items()) if k.endswith('/x')])
                ok = np.allclose(got, exp)
                print(f'{order} vectorize={vec}: dx = {got} expected {exp} ->', 'ok' if ok else 'WRONG')
            except Exception as e:
                ok = False
                print(f'{order} vectorize={vec}: {type(e).__name__}: {e}')
            bad |= not ok
print('DEFECT SHOWN' if bad else 'no defect')
sys.exit(1 if bad else 0)
