"""C04 open finding: two nodes of one type both project to ONE node of a two-node target type."""
import numpy as np, warnings, os, tempfile, sys
warnings.simplefilter('ignore'); os.chdir(tempfile.mkdtemp())
from pyrates import OperatorTemplate, NodeTemplate, CircuitTemplate
src = OperatorTemplate(name='src', equations=["s' = -s"], variables={'s': 'output(0.3)'})
tgt = OperatorTemplate(name='tgt', equations=["x' = -x + u"], variables={'x': 'output(0.1)', 'u': 'input(0.0)'})
na, nb = NodeTemplate(name='a', operators=[src]), NodeTemplate(name='b', operators=[tgt])
c = CircuitTemplate(name='c', nodes={'a0': na, 'a1': na, 'b0': nb, 'b1': nb},
                    edges=[('a0/src/s', 'b1/tgt/u', None, {'weight': 2.0}), ('a1/src/s', 'b1/tgt/u', None, {'weight': 3.0})])
f, args, names, smap = c.get_run_func('vf', step_size=1e-3, vectorize=True, float_precision='float64', verbose=False, clear=True)
dy = np.array(f(0, np.array(args[1]), *args[2:]))
print(dy)
