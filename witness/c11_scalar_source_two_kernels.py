"""C11: vectorize=True, a scalar source variable (its node is the only one of its type) with two delayed edges that carry the same
(delay, spread): the generated function indexed the scalar ('invalid index to scalar variable')."""
import numpy as np, warnings, os, tempfile, sys, math
warnings.simplefilter('ignore'); os.chdir(tempfile.mkdtemp())
from pyrates import OperatorTemplate, NodeTemplate, CircuitTemplate
dt, steps = 1e-3, 20
d = 5 * dt
s = d / math.sqrt(2.1)
src = OperatorTemplate(name='src', equations=["s' = -s"], variables={'s': 'output(1.0)'})
tgt = OperatorTemplate(name='tgt', equations=["x' = u - x"], variables={'x': 'output(0.0)', 'u': 'input(0.0)'})
nodes = {'a': NodeTemplate(name='a', operators=[src]), 'b': NodeTemplate(name='b', operators=[tgt]), 'c': NodeTemplate(name='c', operators=[tgt])}
edges = [('a/src/s', 'b/tgt/u', None, {'weight': 1.0, 'delay': d, 'spread': s}), ('a/src/s', 'c/tgt/u', None, {'weight': 2.0, 'delay': d, 'spread': s})]
out = {}
bad = False
for vec in (False, True):
    try:
        df = CircuitTemplate(name='c', nodes=nodes, edges=edges).run(simulation_time=steps * dt, step_size=dt, solver='euler',
                                                                       outputs={'xb': 'b/tgt/x', 'xc': 'c/tgt/x'}, vectorize=vec, verbose=False,
                                                                       float_precision='float64', clear=True)
        out[vec] = df.values
        print(f'vectorize={vec}: final x = {df.values[-1]}')
    except Exception as e:
        print(f'vectorize={vec}: {type(e).__name__}: {e}')
        bad = True
if len(out) == 2:
    err = np.abs(out[True] - out[False]).max()
    print('max |vectorized - non-vectorized| =', err)
    bad |= err > 1e-12
print('DEFECT SHOWN' if bad else 'no defect')
sys.exit(1 if bad else 0)
