import numpy as np, warnings, os, tempfile
os.environ['PATH'] = '/venv/bin:' + os.environ['PATH']
warnings.simplefilter('ignore'); os.chdir(tempfile.mkdtemp())
from pyrates import OperatorTemplate, NodeTemplate, CircuitTemplate
def circ(eqs, variables, edges=(), nodes=('p1',)):
    node = NodeTemplate(name='n', operators=[OperatorTemplate(name='op', equations=eqs, variables=variables)])
    return CircuitTemplate(name='c', nodes={k: node for k in nodes}, edges=list(edges))
T, dt = 2.0, 0.01; inp = np.sin(np.arange(200)*dt*3.0)
V = {'a': 'output(0.2)', 'b': 'variable(0.1)', 'u': 'input(0.0)', 'tau': 2.0, 'k': 0.7}
E = ["d/dt * a = (u - a + k*sigmoid(b))/tau", "d/dt * b = a - b*0.3"]
r = {}
for b in ('default', 'jax', 'fortran'):
    r[b] = circ(E, V).run(T, dt, inputs={'p1/op/u': inp}, outputs={'a': 'p1/op/a'}, solver='heun', backend=b, vectorize=False, float_precision='float64', verbose=False).values
print('heun+input default-jax', np.abs(r['default'] - r['jax']).max(), 'default-fortran', np.abs(r['default'] - r['fortran']).max())
# sign(0) fortran
os.environ['PATH'] = '/venv/bin:' + os.environ['PATH']
for b in ('default', 'fortran'):
    c = circ(["d/dt * a = sign(a) + b", "d/dt * b = -b"], {'a': 'output(0.0)', 'b': 'variable(0.5)'})
    f, args, names, smap = c.get_run_func('vf', step_size=1e-3, backend=b, vectorize=False, float_precision='float64', verbose=False, file_name='sgn_'+b)
    y = np.array([0.0, 2.5]); dy = np.zeros(2)
    out = f(0.0, y, dy, *args[3:]); print(b, np.asarray(out if out is not None else dy))
assert np.abs(r['default'] - r['jax']).max() < 1e-12 and np.allclose(np.asarray(out if out is not None else dy), [2.5, -2.5])
