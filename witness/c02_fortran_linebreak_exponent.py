"""C02: Fortran backend, a numeric literal with an exponent (7.6e-06) that falls on the position where the emitter breaks a long
line: the literal was split between mantissa and exponent ('7.6d&' / '& -6...') and the module did not compile."""
import numpy as np, warnings, os, tempfile, sys
warnings.simplefilter('ignore'); os.chdir(tempfile.mkdtemp())
os.environ['PATH'] = '/venv/bin:' + os.environ.get('PATH', '')
from pyrates import OperatorTemplate, NodeTemplate, CircuitTemplate
eq = "d/dt * h = (-(k * h)) + 7.6e-06 * zbig * absv((-0.523) * h * absv((-1.163) * h)) + 1.51 * p * k + 1.43 * q * s"
op = OperatorTemplate(name='op', equations=["p = h*weight", "q = -1.213*p + s*sigmoid(2.18*p*sigmoid(0.86*h))", eq],
                      variables={'h': 'output(0.4)', 'p': 'variable(0.0)', 'q': 'variable(0.0)', 'weight': 0.8, 'k': 0.6, 's': 0.3, 'zbig': 1e5})
c = CircuitTemplate(name='c', nodes={'n': NodeTemplate(name='n', operators=[op])})
try:
    f, args, names, smap = c.get_run_func('vf', step_size=1e-3, backend='fortran', vectorize=False, verbose=False, clear=True,
                                          float_precision='float64')
    print('compiled')
    bad = False
except Exception as e:
    print('FAILED:', type(e).__name__, str(e)[:200])
    bad = True
print('DEFECT SHOWN' if bad else 'no defect')
sys.exit(1 if bad else 0)
