"""C11 open finding: vectorize=True, a merged source variable whose delayed edges use two different (delay, spread) kernels (ring of
six identical nodes, kernels A and B alternating in blocks): the generated function reads the delay buffer BEFORE the chains write
their outputs into it (partial, indexed writes are ordered after their consumer), so every delayed input lags one extra RHS call."""
import numpy as np, warnings, os, tempfile, sys, math
warnings.simplefilter('ignore'); os.chdir(tempfile.mkdtemp())
from pyrates import OperatorTemplate, NodeTemplate, CircuitTemplate
dt, steps = 1e-3, 30
kA = (8 * dt, 8 * dt / math.sqrt(3.1)); kB = (4 * dt, 4 * dt / math.sqrt(2.1))
op = OperatorTemplate(name='op', equations=["x' = -k*x + u"], variables={'x': 'output(0.0)', 'k': 1.0, 'u': 'input(0.0)'})
N = 6
nodes = {f'n{i}': NodeTemplate(name=f'n{i}', operators={op: {'x': 0.2 + 0.1 * i, 'k': 1.0 + 0.3 * i}}) for i in range(N)}
kern = [kA, kB, kB, kA, kA, kB]
edges = [(f'n{(i + 1) % N}/op/x', f'n{i}/op/u', None, {'weight': 1.0 + 0.2 * i, 'delay': kern[i][0], 'spread': kern[i][1]}) for i in range(N)]
out = {}
for vec in (False, True):
    df = CircuitTemplate(name='c', nodes=nodes, edges=edges).run(simulation_time=steps * dt, step_size=dt, solver='euler',
        outputs={f'x{i}': f'n{i}/op/x' for i in range(N)}, vectorize=vec, verbose=False, float_precision='float64', clear=True)
    out[vec] = df.values
err = np.abs(out[True] - out[False]).max()
print('max |vectorized - non-vectorized| over 30 Euler steps:', err)
bad = err > 1e-10
print('DEFECT SHOWN' if bad else 'no defect')
sys.exit(1 if bad else 0)
