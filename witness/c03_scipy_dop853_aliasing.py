"""C03 witness: scipy DOP853 at rtol 1e-10 on x' = -x + sin(3*z), z' = -0.5*z + cos(x); sampled output must match a
direct solve_ivp of the same equations to ~1e-8."""
import numpy as np, warnings, os, tempfile, sys
warnings.simplefilter('ignore'); os.chdir(tempfile.mkdtemp())
from scipy.integrate import solve_ivp
from pyrates import OperatorTemplate, NodeTemplate, CircuitTemplate
op = OperatorTemplate(name='o', equations=["x' = -x + sin(3*z)", "z' = -0.5*z + cos(x)"], variables={'x': 'output(1.0)', 'z': 'variable(0.3)'})
c = CircuitTemplate(name='c', nodes={'a': NodeTemplate(name='a', operators=[op])})
res = c.run(simulation_time=2.0, step_size=1e-2, sampling_step_size=0.1, solver='scipy', method='DOP853', rtol=1e-10, atol=1e-12,
            outputs={'x': 'a/o/x', 'z': 'a/o/z'}, vectorize=False, verbose=False, float_precision='float64')
sol = solve_ivp(lambda t, y: [-y[0] + np.sin(3*y[1]), -0.5*y[1] + np.cos(y[0])], (0, 2.0), [1.0, 0.3], method='DOP853', rtol=1e-12, atol=1e-14, t_eval=res.index.values)
err = np.max(np.abs(res.values - sol.y.T))
print('max error', err)
assert err < 1e-7
