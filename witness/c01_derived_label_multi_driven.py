"""C01 open finding: multiply driven input x (same-node operator + edge) in an operator that also has a constant
called x_v1.  Expected dq/dt = -x_v1*q + (x_o1 + 2*s)."""
import numpy as np, warnings, os, tempfile, sys
warnings.simplefilter('ignore'); os.chdir(tempfile.mkdtemp())
from pyrates import OperatorTemplate, NodeTemplate, CircuitTemplate
o1 = OperatorTemplate(name='o1', equations=["x' = -x"], variables={'x': 'output(0.4)'})
o2 = OperatorTemplate(name='o2', equations=["q' = -x_v1*q + x"], variables={'q': 'output(0.5)', 'x_v1': 0.7, 'x': 'input(0.0)'})
src = OperatorTemplate(name='src', equations=["s' = -s"], variables={'s': 'output(0.3)'})
c = CircuitTemplate(name='c', nodes={'a': NodeTemplate(name='a', operators=[o1, o2]), 'b': NodeTemplate(name='b', operators=[src])},
                    edges=[('b/src/s', 'a/o2/x', None, {'weight': 2.0})])
f, args, names, smap = c.get_run_func('vf', step_size=1e-3, vectorize=False, float_precision='float64', verbose=False, clear=True)
dy = f(0, np.array(args[1]), *args[2:])
exp = -0.7 * 0.5 + (0.4 + 2 * 0.3)
print(dy[smap['a/o2/q']], 'expected', exp)
assert abs(dy[smap['a/o2/q']] - exp) < 1e-12
