"""C02: a long product of long identifiers on the Fortran backend: the line wrapper cut through an identifier ('zbig0_&' / '& v1'),
the generated file did not compile (RuntimeError: f2py compilation failed).  Repaired by the fix recorded in known_findings.json.
Run: cd $(mktemp -d) && PATH=/venv/bin:$PATH PYTHONPATH=/repo /venv/bin/python /verif/witness/c02_fortran_line_wrap.py"""
import math
import numpy as np
from pyrates import OperatorTemplate, NodeTemplate, CircuitTemplate
eq = "x' = -x*coupling_strength_0 + 84300.0*1e-05*coupling_strength_0*sin(150300.0*1e-05*x*synaptic_efficacy_exc_1*cos(2.173e-06*x*tau_membrane_long_suffix_2))"
vals = {'coupling_strength_0': 0.7, 'synaptic_efficacy_exc_1': 1.3, 'tau_membrane_long_suffix_2': 0.9}
op = OperatorTemplate(name='long_op', equations=[eq], variables=dict({'x': 'output(0.4)'}, **vals))
node = NodeTemplate(name='long_node', operators=[op])
c = CircuitTemplate(name='lng', nodes={'n': node, 'm': node})
ok = True
try:
    f, args, names, smap = c.get_run_func('vf', step_size=1e-3, backend='fortran', vectorize=False, verbose=False, float_precision='float64')
    y = np.array([0.4, -0.8])
    out = f(0.0, y, *args[2:])
    got = np.asarray(args[list(names).index('dy')] if out is None else out, dtype=float)
    exp = [-x * 0.7 + 84300.0 * 1e-05 * 0.7 * math.sin(150300.0 * 1e-05 * x * 1.3 * math.cos(2.173e-06 * x * 0.9)) for x in y]
    print('fortran', got, 'expected', exp)
    ok = np.allclose(got, exp, rtol=1e-12)
except Exception as e:
    print('raised', type(e).__name__, str(e)[:200])
    ok = False
print('PASS' if ok else 'FAIL')
raise SystemExit(0 if ok else 1)
