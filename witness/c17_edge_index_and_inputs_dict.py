import numpy as np, warnings, os, tempfile
warnings.simplefilter('ignore'); os.chdir(tempfile.mkdtemp())
from pyrates import OperatorTemplate, NodeTemplate, CircuitTemplate, grid_search
from pyrates.utility import adapt_circuit
op = OperatorTemplate(name='lin', path=None, equations=["x' = -a*x + b + inp + u"],
                      variables={'x': 'output(0.1)', 'a': 1.0, 'b': 0.5, 'inp': 'input(0.0)', 'u': 'input(0.0)'})
n = NodeTemplate(name='pop', path=None, operators=[op])
def make(multi=False):
    edges = [('p1/lin/x', 'p2/lin/inp', None, {'weight': 0.3}), ('p2/lin/x', 'p1/lin/inp', None, {'weight': -0.2})]
    if multi:
        edges.append(('p1/lin/x', 'p2/lin/inp', None, {'weight': 0.7}))
    return CircuitTemplate(name='net', path=None, nodes={'p1': n, 'p2': n}, edges=edges)
c = adapt_circuit(make(multi=True), {'w': 5.0}, {'w': {'vars': ['weight'], 'edges': [('p1/lin/x', 'p2/lin/inp', 1)]}})
print([e[3] for e in c.edges])
inp = {'p1/lin/u': np.ones(101)}
for i in range(2):
    res, m = grid_search(make(), param_grid={'a': [0.5, 1.0]}, param_map={'a': {'vars': ['lin/a'], 'nodes': ['p1']}},
                         step_size=1e-2, simulation_time=1.0, outputs={'x1': 'p1/lin/x'}, inputs=inp, verbose=False)
    print(list(inp.keys()), float(res['x1']['net_1'].values.squeeze()[-1]))
assert [e[3]['weight'] for e in c.edges] == [0.3, -0.2, 5.0] and list(inp) == ['p1/lin/u']
