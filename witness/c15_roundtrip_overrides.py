"""C15 open finding: to_yaml -> from_yaml of a circuit with per-node overrides (or after update_var).
The node b overrides k; after the round trip the operator of b is called op_num1: paths change, edges into b dangle."""
import numpy as np, warnings, os, tempfile
warnings.simplefilter('ignore'); os.chdir(tempfile.mkdtemp())
from pyrates import OperatorTemplate, NodeTemplate, CircuitTemplate, clear_frontend_caches
op = OperatorTemplate(name='op', equations=["x' = -k*x + u"], variables={'x': 'output(0.2)', 'k': 1.0, 'u': 'input(0.0)'})
c = CircuitTemplate(name='c', nodes={'a': NodeTemplate(name='na', operators=[op]), 'b': NodeTemplate(name='nb', operators={op: {'k': 3.0}})},
                    edges=[('a/op/x', 'b/op/u', None, {'weight': 2.0})])
c.to_yaml('rt.yaml'); clear_frontend_caches()
c2 = CircuitTemplate.from_yaml(os.getcwd() + '/rt/c')
f, args, names, smap = c2.get_run_func('vf', step_size=1e-3, vectorize=False, verbose=False, float_precision='float64')
print(smap); assert set(smap) == {'a/op/x', 'b/op/x'}
