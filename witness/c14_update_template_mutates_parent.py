"""C14: OperatorTemplate.update_template (no `variables` argument) with an equation edit that makes a variable unused removed
that variable from the PARENT's variable dict, so the parent no longer compiles / loses its parameter."""
import numpy as np, warnings, os, tempfile, sys
warnings.simplefilter('ignore'); os.chdir(tempfile.mkdtemp())
from pyrates import OperatorTemplate, NodeTemplate, CircuitTemplate
base = OperatorTemplate(name='base', equations=["x' = -x + k*x*x + c"], variables={'x': 'output(0.3)', 'k': 0.7, 'c': 0.25})
before = dict(base.variables)
derived = base.update_template(name='derived', equations={'remove': ['+ c']})
after = dict(base.variables)
print('derived equations:', derived.equations, 'variables:', sorted(derived.variables))
print('parent variables before:', sorted(before), 'after:', sorted(after))
bad = before != after
try:
    c = CircuitTemplate(name='c', nodes={'n': NodeTemplate(name='n', operators=[base])})
    f, args, names, smap = c.get_run_func('vf', step_size=1e-3, vectorize=False, verbose=False, clear=True, float_precision='float64')
    dy = float(np.asarray(f(0, np.array(args[1], dtype=float), *args[2:])).ravel()[0])
    exp = -0.3 + 0.7 * 0.09 + 0.25
    print('parent vector field after deriving:', dy, 'expected', exp)
    bad |= abs(dy - exp) > 1e-12
except Exception as e:
    print('parent no longer compiles:', type(e).__name__, str(e)[:150])
    bad = True
print('DEFECT SHOWN' if bad else 'no defect')
sys.exit(1 if bad else 0)
