"""C12 witnesses (all fixed).  usage: python c12_jacobian.py <absv|sin|past_in_j0|hist_column>"""
import sys, numpy as np, warnings, os, tempfile
warnings.simplefilter('ignore'); os.chdir(tempfile.mkdtemp())
from pyrates import OperatorTemplate, NodeTemplate, CircuitTemplate
name = sys.argv[1]
h = lambda t: np.array([np.sin(30 * t + 0.1), np.cos(20 * t)])
if name == 'absv':
    eqs, dde = ["x' = -x + 2.0*absv(0.5*z - 0.3)", "z' = -z + x"], False
elif name == 'sin':
    eqs, dde = ["x' = -x + sin(2.0*z)", "z' = -z + x"], False
elif name == 'past_in_j0':
    eqs, dde = ["x' = -x + 0.8*x*past(z, 0.05)", "z' = -z + x"], True
elif name == 'hist_column':
    eqs, dde = ["x' = -x + 0.8*past(z, 0.05)", "z' = -z + x"], True
op = OperatorTemplate(name='op', equations=eqs, variables={'x': 'output(0.2)', 'z': 'variable(0.7)'})
mk = lambda: CircuitTemplate(name='c', nodes={'a': NodeTemplate(name='n', operators=[op])})
kw = dict(step_size=1e-3, vectorize=False, verbose=False, float_precision='float64', clear=True, solver='scipy')
f, fa, fn, _ = mk().get_run_func('vf', hist=h, **kw) if dde else mk().get_run_func('vf', **kw)
J, ja, jn, _ = mk().get_jacobian_func('jac', **kw)
ja = list(ja)
if 'hist' in jn:
    ja[list(jn).index('hist')] = h
y, t, e = np.array([0.3, 1.4]), 0.2, 1e-6
out = J(t, y.copy(), *ja[2:])
J0, Jh = (out if isinstance(out, tuple) else (out, []))
fd = np.array([(np.array(f(t, y + e * np.eye(2)[j], *fa[2:])) - np.array(f(t, y - e * np.eye(2)[j], *fa[2:]))) / (2 * e) for j in range(2)]).T
print('J0', np.asarray(J0).tolist(), 'finite differences', fd.round(6).tolist())
assert np.allclose(J0, fd, atol=1e-5)
if name == 'hist_column':
    print('J_tau', np.asarray(Jh[0]).tolist(), '(expected 0.8 at row 0 (x), column 1 (z))')
    assert abs(Jh[0][0, 1] - 0.8) < 1e-12 and abs(Jh[0][0, 0]) < 1e-12
