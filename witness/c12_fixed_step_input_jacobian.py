"""C12: get_jacobian_func for a model with an extrinsic input that multiplies a state variable, fixed-step solver: the generated
function contained the un-translated call index_1d(I_ext_input, t) (NameError), and the returned argument tuple started with the
float 0.0, which cannot index the input array.  Also index(w, i) on a vector constant.  Repaired by 139ddcb.
Run: cd $(mktemp -d) && PYTHONPATH=/repo /venv/bin/python /verif/witness/c12_fixed_step_input_jacobian.py"""
import numpy as np
from pyrates import CircuitTemplate, OperatorTemplate, NodeTemplate


def circ(eqs, variables):
    op = OperatorTemplate(name='op', equations=eqs, variables=variables)
    return CircuitTemplate(name='c', nodes={'p': NodeTemplate(name='n', operators=[op])})


kw = dict(step_size=0.1, in_place=False, vectorize=False, float_precision='float64', verbose=False)
inp = np.linspace(1, 2, 100)
ok = True
for solver in ('euler', 'heun'):
    try:
        jf, ja, *_ = circ(["u' = 1.0 + u*I_ext - u"], {'u': 'output(0.3)', 'I_ext': 'input(0.0)'}).get_jacobian_func(
            'jf', solver=solver, backend='default', inputs={'p/op/I_ext': inp}, **kw)
        j0, j50 = float(jf(*ja)[0, 0]), float(jf(50, *ja[1:])[0, 0])
        print(solver, 'J(0) =', j0, 'expected', inp[0] - 1, ' J(50) =', j50, 'expected', inp[50] - 1)
        ok &= abs(j0 - (inp[0] - 1)) < 1e-12 and abs(j50 - (inp[50] - 1)) < 1e-12
    except Exception as e:
        print(solver, 'raised', type(e).__name__, e)
        ok = False
w = {'vtype': 'constant', 'value': np.array([1.0, 2.0, 3.0]), 'shape': (3,), 'dtype': 'float'}
try:
    jf, ja, *_ = circ(["u' = -u*index(w, 1) + u*u"], {'u': 'output(0.3)', 'w': w}).get_jacobian_func('jf', solver='scipy', backend='default', **kw)
    j = float(jf(*ja)[0, 0])
    print('index(w, 1): J =', j, 'expected', -2.0 + 0.6)
    ok &= abs(j - (-1.4)) < 1e-12
except Exception as e:
    print('index(w, 1) raised', type(e).__name__, e)
    ok = False
print('PASS' if ok else 'FAIL')
raise SystemExit(0 if ok else 1)
