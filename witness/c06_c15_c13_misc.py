import numpy as np, warnings, os, tempfile, sys, traceback
os.chdir(tempfile.mkdtemp()); os.environ['PATH'] = '/venv/bin:' + os.environ['PATH']
from pyrates import OperatorTemplate, NodeTemplate, CircuitTemplate
def t(name, f):
    try: print(name, '->', f())
    except Exception as e: print(name, 'EXC', type(e).__name__, str(e)[:200])
KW = dict(step_size=1e-3, verbose=False, clear=True, float_precision='float64')
op = OperatorTemplate(name='op', path=None, equations=["d/dt * x = -k*x + r_in"], variables={'x': 'output(0.5)', 'k': 2.0, 'r_in': 'input(0.0)'})
nd = NodeTemplate(name='n', path=None, operators=[op])
def aa():
    net = CircuitTemplate(name='a', path=None, nodes={'p1': nd, 'p2': nd}, edges=[('p1/op/x', 'p2/op/r_in', None, {'weight': 1.0})])
    with warnings.catch_warnings(record=True) as w:
        warnings.simplefilter('always')
        f, a, _, _ = net.get_run_func('vf', backend='default', vectorize=False, edge_values={('p1/op/x', 'p2/op/r_inn'): {'weight': 100.0}}, **KW)
    return np.asarray(f(*a)), [str(x.message)[:80] for x in w if 'edge' in str(x.message).lower()]
t('C20c#1 edge_values nonexistent edge', aa)
def bb():
    net = CircuitTemplate(name='a', path=None, nodes={'p1': nd, 'p2': nd, 'p3': nd}, edges=[('p1/op/x', 'p2/op/r_in', None, {'weight': 1.0})])
    warnings.simplefilter('ignore')
    df = net.run(simulation_time=3e-3, step_size=1e-3, outputs={'many': 'all/op/x', 'single': 'p1/op/x'}, verbose=False, in_place=False, float_precision='float64')
    return list(df.columns)
t('C06b#1 dict outputs wildcard+single', bb)
def cc():
    d = {'replace': {'k': 'kk'}, 'add': ["z' = -z"]}
    o2 = op.update_template(name='o2', equations=d, variables={'kk': 2.0, 'z': 'variable(0.1)'})
    return d
t('C15b#3 update_template pops add', cc)
def dd():
    warnings.simplefilter('ignore')
    opv = OperatorTemplate(name='opv', path=None, equations=["d/dt * v = -k*v"], variables={'v': 'output(float,3)', 'k': 2.0})
    ndv = NodeTemplate(name='nv', path=None, operators=[opv])
    out = {}
    for vec in (False, True):
        net = CircuitTemplate(name='a', path=None, nodes={'p1': ndv, 'p2': ndv})
        f, a, names, smap = net.get_run_func('vf', vectorize=vec, **KW); out[vec] = (len(np.asarray(a[1])), dict(smap))
    return out
t('C13c#5 vector-valued operator variables', dd)
def ee():
    from pyrates.frontend.template import PopulationTemplate
    c = CircuitTemplate('c', populations={'p': PopulationTemplate('p', nd, 3)})
    c2 = c.update_template(name='c2')
    return list(c2.populations), list(c2.nodes)
t('C14c#4 update_template drops populations', ee)
def ff():
    out = []
    for prec in ('float32', 'float64'):
        c = CircuitTemplate('c', nodes={'p': NodeTemplate('n', operators=[OperatorTemplate('o', ["d/dt * a = sigmoid(a)"], {'a': 'output(0.3)'})])})
        f, a, names, smap = c.get_run_func('vf', backend='fortran', vectorize=False, file_name='sg_' + prec, step_size=1e-3, verbose=False, clear=True, float_precision=prec)
        a = list(a); r = f(*a); out.append(float(np.asarray(r if r is not None else a[2]).ravel()[0]))
    return out
t('C02c#5 fortran float32 then float64', ff)
