"""C17 open finding: a grid with a single row returns an unlabelled result column."""
import numpy as np, warnings, os, tempfile
warnings.simplefilter('ignore'); os.chdir(tempfile.mkdtemp())
from pyrates import OperatorTemplate, NodeTemplate, CircuitTemplate, grid_search
op = OperatorTemplate(name='lin', path=None, equations=["x' = -a*x + b + inp"], variables={'x': 'output(0.1)', 'a': 1.0, 'b': 0.5, 'inp': 'input(0.0)'})
n = NodeTemplate(name='pop', path=None, operators=[op])
c = CircuitTemplate(name='net', path=None, nodes={'p1': n, 'p2': n}, edges=[('p1/lin/x', 'p2/lin/inp', None, {'weight': 0.3})])
res, m = grid_search(c, param_grid={'a': [0.5]}, param_map={'a': {'vars': ['lin/a'], 'nodes': ['p1']}}, step_size=1e-2, simulation_time=0.05,
                     outputs={'x1': 'p1/lin/x'}, verbose=False)
print('columns', list(res.columns), 'table index', list(m.index))
assert any(m.index[0] in (c_ if isinstance(c_, tuple) else (c_,)) for c_ in res.columns), 'result column does not carry the circuit label of the parameter table'
