"""C08 witness: extrinsic input to a circuit with two hierarchy levels. x' = u must integrate the samples."""
import numpy as np, warnings, os, tempfile, sys
warnings.simplefilter('ignore'); os.chdir(tempfile.mkdtemp())
from pyrates import OperatorTemplate, NodeTemplate, CircuitTemplate
op = OperatorTemplate(name='op', equations=["x' = u"], variables={'x': 'output(0.0)', 'u': 'input(0.0)'})
leaf = CircuitTemplate(name='leaf', nodes={'a': NodeTemplate(name='n', operators=[op])})
top = CircuitTemplate(name='top', circuits={'s': CircuitTemplate(name='mid', circuits={'c': leaf})})
u = np.array([1.0, -2.0, 0.5, 3.0, -1.0, 0.25])
u2 = np.array([0.5, 0.5, 1.0, -1.0, 2.0, 0.0])
res = top.run(simulation_time=6e-3, step_size=1e-3, solver='euler', inputs={'s/c/a/op/u': u, 'all/all/all/op/u': u2},
              outputs={'x': 's/c/a/op/x'}, vectorize=False, verbose=False, float_precision='float64')
exp = np.concatenate([[0.0], np.cumsum(1e-3 * (u + u2))[:-1]])
print(res.values[:, 0], exp)
assert np.allclose(res.values[:, 0], exp, atol=1e-15)
