"""C02: torch backend, solver='scipy' (RK45): the wrapper handed scipy a view of the shared dy buffer; after a rejected step the
retry started from an overwritten derivative, so trajectories of models with step rejections (coupled van der Pol units)
deviated by ~1e-3 from the numpy backend / a reference solution."""
import numpy as np, warnings, os, tempfile, sys
warnings.simplefilter('ignore'); os.chdir(tempfile.mkdtemp())
from pyrates import OperatorTemplate, NodeTemplate, CircuitTemplate
from scipy.integrate import solve_ivp
ops = [OperatorTemplate(name=f'vdp{i}', equations=["x' = z", "z' = mu*(1 - x*x)*z - x + 0.5*u"],
                        variables={'x': f'output({1.0 + 0.3 * i})', 'z': 'variable(0.2)', 'mu': 3.0 + i, 'u': 'input(0.0)'}) for i in range(2)]
nodes = {f'n{i}': NodeTemplate(name=f'n{i}', operators=[ops[i]]) for i in range(2)}
edges = [('n0/vdp0/x', 'n1/vdp1/u', None, {'weight': 0.6}), ('n1/vdp1/x', 'n0/vdp0/u', None, {'weight': 0.4})]
def f(t, y):
    x0, z0, x1, z1 = y
    return [z0, 3.0 * (1 - x0 * x0) * z0 - x0 + 0.5 * 0.4 * x1, z1, 4.0 * (1 - x1 * x1) * z1 - x1 + 0.5 * 0.6 * x0]
T = 6.0
bad = False
for b in ('default', 'torch'):
    df = CircuitTemplate(name='c', nodes=nodes, edges=edges).run(simulation_time=T, step_size=1e-3, sampling_step_size=0.05, solver='scipy',
        method='RK45', rtol=1e-9, atol=1e-11, outputs={'x0': 'n0/vdp0/x', 'x1': 'n1/vdp1/x'}, backend=b, vectorize=False, verbose=False,
        float_precision='float64', clear=True)
    t = np.asarray(df.index, dtype=float)
    sol = solve_ivp(f, (0, T), [1.0, 0.2, 1.3, 0.2], method='DOP853', rtol=1e-12, atol=1e-14, t_eval=t)
    err = max(np.abs(df['x0'].values - sol.y[0]).max(), np.abs(df['x1'].values - sol.y[2]).max())
    print(f'backend {b}: max |PyRates - reference| = {err:.3e}')
    bad |= err > 1e-8
print('DEFECT SHOWN' if bad else 'no defect')
sys.exit(1 if bad else 0)
