import numpy as np, warnings, os, tempfile
warnings.simplefilter('ignore'); os.chdir(tempfile.mkdtemp())
from pyrates import OperatorTemplate, NodeTemplate, CircuitTemplate
from scipy.integrate import solve_ivp
src = NodeTemplate('ns', operators=[OperatorTemplate('sop', ["x' = -0.5*x"], {'x': 'output(1.0)'})])
tgt = NodeTemplate('nt', operators=[OperatorTemplate('top', ["z' = -z + u"], {'z': 'output(0.0)', 'u': 'input(0.0)'})])
d, n, T, dt = 0.05, 3, 0.3, 1e-3
def ref(t, y):
    x, c1, c2, c3, z = y; r = n/d
    return [-0.5*x, r*(x-c1), r*(c1-c2), r*(c2-c3), -z + c3]
sol = solve_ivp(ref, (0, T), [1, 0, 0, 0, 0], rtol=1e-10, atol=1e-12, t_eval=[T-dt])
print('reference z(T) =', sol.y[4, -1])
for solver in ('euler', 'scipy'):
    for vec in (False, True):
        c = CircuitTemplate('c', nodes={'s': src, 'a': tgt}, edges=[('s/sop/x', 'a/top/u', None, {'weight': 1.0, 'delay': d})])
        try:
            df = c.run(simulation_time=T, step_size=dt, outputs={'z': 'a/top/z'}, solver=solver, vectorize=vec, dde_approx=n, verbose=False, in_place=False, float_precision='float64')
            print(solver, vec, df.values[-1])
        except Exception as e:
            print(solver, vec, 'EXC', type(e).__name__, str(e)[:100])
