"""C12: arctan / arcsin / arccos in a differential equation: the Jacobian entry was silently left 0 (the functions carry their
numpy names, which sympy cannot differentiate; only a '# WARNING' comment in the generated source)."""
import numpy as np, warnings, os, tempfile, sys
warnings.simplefilter('ignore'); os.chdir(tempfile.mkdtemp())
from pyrates import OperatorTemplate, NodeTemplate, CircuitTemplate
bad = False
x0, k, u = 0.5, 2.0, 0.7
for fn, d in (('arctan', lambda a: 1 / (1 + a * a)), ('arcsin', lambda a: 1 / np.sqrt(1 - a * a)), ('arccos', lambda a: -1 / np.sqrt(1 - a * a))):
    op = OperatorTemplate(name='op', equations=[f"x' = -k*x + {fn}(u*x)"], variables={'x': f'output({x0})', 'k': k, 'u': u})
    c = CircuitTemplate(name='c', nodes={'a': NodeTemplate(name='na', operators=[op])})
    jf, ja, jn, js = c.get_jacobian_func('jac', step_size=1e-3, verbose=False, clear=True, float_precision='float64', vectorize=False)
    J = jf(*ja)
    J = float(np.asarray(J[0] if isinstance(J, (list, tuple)) else J).ravel()[0])
    exp = -k + u * d(u * x0)
    ok = abs(J - exp) < 1e-10
    print(f"{fn}: J = {J!r}, d/dx(-k*x + {fn}(u*x)) = {exp!r} ->", 'ok' if ok else 'WRONG')
    bad |= not ok
print('DEFECT SHOWN' if bad else 'no defect')
sys.exit(1 if bad else 0)
