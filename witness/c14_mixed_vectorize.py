"""C14 open finding: run(vectorize=True, in_place=False) then get_run_func(vectorize=False, in_place=False)."""
import numpy as np, warnings, os, tempfile
warnings.simplefilter('ignore'); os.chdir(tempfile.mkdtemp())
from pyrates import OperatorTemplate, NodeTemplate, CircuitTemplate
op = OperatorTemplate(name='op', equations=["x' = -k*x"], variables={'x': 'output(0.2)', 'k': 1.0})
nt = NodeTemplate(name='n', operators=[op])
c = CircuitTemplate(name='c', nodes={'a': nt, 'b': nt})
c.run(simulation_time=3e-3, step_size=1e-3, outputs={'x': 'a/op/x'}, vectorize=True, verbose=False, in_place=False, float_precision='float64')
f, args, names, smap = c.get_run_func('vf', step_size=1e-3, vectorize=False, verbose=False, in_place=False, float_precision='float64')
print(smap)
