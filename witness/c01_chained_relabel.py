"""C01 witness: one operator uses the names x (constant) and x_v1 (state) while another variable x exists elsewhere,
so that x is relabelled x_v1 and x_v1 is relabelled x_v1_v1 in the same equation."""
import numpy as np, warnings, os, tempfile, sys
warnings.simplefilter('ignore'); os.chdir(tempfile.mkdtemp())
from pyrates import OperatorTemplate, NodeTemplate, CircuitTemplate
o1 = OperatorTemplate(name='o1', equations=["q' = -x*q"], variables={'q': 'output(0.2)', 'x': 0.7})
o2 = OperatorTemplate(name='o2', equations=["p' = -x*p", "x_v1' = -x*x_v1 + 1.5"],
                      variables={'x': 0.3, 'p': 'variable(0.9)', 'x_v1': 'output(0.5)'})
c = CircuitTemplate(name='c', nodes={'a': NodeTemplate(name='a', operators=[o1]), 'b': NodeTemplate(name='b', operators=[o2])})
f, args, names, smap = c.get_run_func('vf', step_size=1e-3, vectorize=False, float_precision='float64', verbose=False, clear=True)
y = np.array(args[1]); dy = f(0, y, *args[2:])
print(smap, y, dy)
assert abs(dy[smap['b/o2/p']] + 0.27) < 1e-12 and abs(dy[smap['a/o1/q']] + 0.14) < 1e-12 and abs(dy[smap['b/o2/x_v1']] - (-0.15 + 1.5)) < 1e-12
