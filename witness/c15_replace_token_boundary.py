"""C15/C01 witness: parser.replace must only replace whole identifiers."""
from pyrates.backend.parser import replace
cases = [("tau_x = rr - r", "r", "(q+1)", "tau_x = rr - (q+1)"),
         ("v = k * cos(xx + 0.81 * xx) + 1.41 * x", "x", "(a+b)", "v = k * cos(xx + 0.81 * xx) + 1.41 * (a+b)"),
         ("y = r*rr + rrr/r", "r", "Z", "y = Z*rr + rrr/Z"),
         ("r = r + r_in", "r", "Z", "Z = Z + r_in"),
         ("a = b + r", "r", "Z", "a = b + Z")]
for eq, term, rep, exp in cases:
    got = replace(eq, term, rep)
    print(repr(eq), '->', repr(got))
    assert got == exp, (got, exp)
# the x' notation (fixed separately)
got = replace("x' = -x + rr", 'x', 'z')
print(repr(got)); assert got == "z' = -z + rr"
