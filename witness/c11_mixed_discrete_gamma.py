"""C11 (and C09) open finding: one source variable with a discrete-delay edge AND a gamma-kernel (delay + spread) edge.
Model: source s' = -s (s0 = 1); integrators x' = u.  Edge 1: a -> b, delay 4 steps (discrete).  Edge 2: a -> c, delay 5 ms,
spread 5/sqrt(2.1) ms (gamma kernel of order 2, rate 2/d).  Euler, dt = 1e-3.
Expected (reference recurrence):  x_b[k+1] = x_b[k] + dt*s[k-4]  (0 before the start),
                                  x_c[k+1] = x_c[k] + dt*z2[k],  z1' = r*(s - z1), z2' = r*(z1 - z2), r = 2/d.
The same model with the two edges leaving two different source nodes (control) is correct."""
import sys, numpy as np, warnings, os, tempfile, math
warnings.simplefilter('ignore'); os.chdir(tempfile.mkdtemp())
from pyrates import OperatorTemplate, NodeTemplate, CircuitTemplate
dt, steps = 1e-3, 16
d2 = 5 * dt
sp2 = d2 / math.sqrt(2.1)
src = OperatorTemplate(name='src', equations=["s' = -s"], variables={'s': 'output(1.0)'})
tgt = OperatorTemplate(name='tgt', equations=["x' = u"], variables={'x': 'output(0.0)', 'u': 'input(0.0)'})


def reference():
    s, xb, xc, z1, z2 = [1.0], [0.0], [0.0], 0.0, 0.0
    r = 2 / d2
    for k in range(steps - 1):
        sd = s[k - 4] if k >= 4 else 0.0
        xb.append(xb[-1] + dt * sd)
        xc.append(xc[-1] + dt * z2)
        z1, z2 = z1 + dt * r * (s[k] - z1), z2 + dt * r * (z1 - z2)
        s.append(s[-1] - dt * s[-1])
    return np.array(xb), np.array(xc)


def build(shared_source):
    nodes = {'a': NodeTemplate(name='a', operators=[src]), 'b': NodeTemplate(name='b', operators=[tgt]),
             'c': NodeTemplate(name='c', operators=[tgt])}
    s2 = 'a'
    if not shared_source:
        nodes['a2'] = NodeTemplate(name='a2', operators=[src])
        s2 = 'a2'
    edges = [('a/src/s', 'b/tgt/u', None, {'weight': 1.0, 'delay': 4 * dt}),
             (f'{s2}/src/s', 'c/tgt/u', None, {'weight': 1.0, 'delay': d2, 'spread': sp2})]
    return CircuitTemplate(name='c', nodes=nodes, edges=edges)


xb, xc = reference()
bad = False
for shared in (False, True):
    for vec in (False, True):
        try:
            df = build(shared).run(simulation_time=steps * dt, step_size=dt, solver='euler', outputs={'xb': 'b/tgt/x', 'xc': 'c/tgt/x'},
                                   vectorize=vec, verbose=False, float_precision='float64', clear=True)
            eb, ec = np.abs(df['xb'].values - xb).max(), np.abs(df['xc'].values - xc).max()
            ok = eb < 1e-12 and ec < 1e-12
            print(f"shared_source={shared} vectorize={vec}: max err discrete edge {eb:.2e}, gamma edge {ec:.2e} ->", 'ok' if ok else 'WRONG')
        except Exception as e:
            ok = False
            print(f"shared_source={shared} vectorize={vec}: {type(e).__name__}: {e}")
        if shared:
            bad |= not ok
        elif not ok and not vec:
            print('  (control failed!)')
print('DEFECT SHOWN' if bad else 'no defect')
sys.exit(1 if bad else 0)
