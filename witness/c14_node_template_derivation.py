"""C14: NodeTemplate.update_template() (no operators argument) shared the variation dicts with the base template:
update_var on the DERIVED template changed the base template."""
import warnings, os, tempfile, sys
warnings.simplefilter('ignore'); os.chdir(tempfile.mkdtemp())
from pyrates import OperatorTemplate, NodeTemplate
op = OperatorTemplate(name='op', equations=["x' = -k*x"], variables={'x': 'output(0.5)', 'k': 2.0})
nt = NodeTemplate(name='nt', operators={op: {'k': 3.0}})
d = nt.update_template(name='nt2')
d.update_var('op', 'k', 5.0)
base = {o.name: dict(v) for o, v in nt.operators.items()}
print('base variations after modifying the derived template:', base)
bad = base != {'op': {'k': 3.0}}
print('DEFECT SHOWN' if bad else 'no defect')
sys.exit(1 if bad else 0)
