import numpy as np, warnings, os, tempfile
warnings.simplefilter('ignore'); os.chdir(tempfile.mkdtemp())
from pyrates.backend.base.base_backend import DDEHistory
from pyrates import OperatorTemplate, NodeTemplate, CircuitTemplate
h = DDEHistory(np.array([1., 2.])); h.update(1.0, np.array([3., 4.]))
try:
    h.update(2.0, np.array([1., 2., 3.]))
except Exception as e:
    print('refused', type(e).__name__)
print('after failed update: h(1.5) =', h(1.5), ' h(3.0) =', h(3.0), ' len(_t) =', len(h._t), ' _n =', h._n)
h.update(3.0, np.array([5., 6.])); print('h(2.5)=', h(2.5), 'expected interpolation between t=1 [3,4] and t=3 [5,6]: [4.5,5.5]')
# C03b#1
c = CircuitTemplate('c', nodes={'p': NodeTemplate('n', operators=[OperatorTemplate('op', ["x' = -x"], {'x': 'output(1.0)'})])})
for T, dt, dts in ((0.9, 0.1, 0.2), (1.05, 0.05, 0.1), (1.0, 0.1, 0.3)):
    for solver in ('euler', 'scipy'):
        try:
            df = c.run(simulation_time=T, step_size=dt, sampling_step_size=dts, outputs={'x': 'p/op/x'}, solver=solver, verbose=False, in_place=False, float_precision='float64')
            print(T, dt, dts, solver, 'rows', df.shape[0], 'expected', round(T/dts), 'index', np.round(df.index[:4], 4).tolist())
        except Exception as e:
            print(T, dt, dts, solver, 'EXC', type(e).__name__, str(e)[:100])
