"""C16 open findings.  usage: python c16_findings.py <pop_n1|coupling_delay|two_delays>"""
import sys, numpy as np, warnings, os, tempfile
warnings.simplefilter('ignore'); os.chdir(tempfile.mkdtemp())
from pyrates import OperatorTemplate, NodeTemplate, CircuitTemplate, EdgeTemplate, PopulationTemplate, Connectivity
name = sys.argv[1]
dt, steps = 1e-3, 10
src = OperatorTemplate(name='so', equations=["s' = -s"], variables={'s': 'output(1.0)'})
tgt = OperatorTemplate(name='to', equations=["x' = -0.5*x + u"], variables={'x': 'output(0.0)', 'u': 'input(0.0)'})
both = OperatorTemplate(name='bo', equations=["s' = -s", "x' = -0.5*x + u"], variables={'s': 'output(1.0)', 'x': 'variable(0.0)', 'u': 'input(0.0)'})
def s_traj(s0, n):
    out = [s0]
    for _ in range(n): out.append(out[-1] * (1 - dt))
    return out
if name == 'pop_n1':
    p = PopulationTemplate('p', NodeTemplate(name='np', operators=[src]), 3, params={'so/s': np.array([1.0, 2.0, 3.0])})
    q = PopulationTemplate('q', NodeTemplate(name='nq', operators=[tgt]), 1)
    c = CircuitTemplate(name='c', populations={'p': p, 'q': q}, connections=[Connectivity('p/so/s', 'q/to/u', np.array([[0.5, 1.0, 2.0]]))])
    r = c.run(simulation_time=steps * dt, step_size=dt, outputs={'x': 'q/to/x'}, verbose=False, float_precision='float64')
    print(r.values[:3])      # expected slope 0.5*1 + 1*2 + 2*3 = 8.5 per unit time
    assert abs(r.values[1, 0] - 8.5 * dt) < 1e-12   # x0 = 0, so the first step is dt * input
elif name == 'two_delays':
    p = PopulationTemplate('p', NodeTemplate(name='np', operators=[src]), 2, params={'so/s': np.array([1.0, 2.0])})
    q = PopulationTemplate('q', NodeTemplate(name='nq', operators=[tgt]), 2)
    q2 = PopulationTemplate('w', NodeTemplate(name='nw', operators=[tgt]), 2)
    c = CircuitTemplate(name='c', populations={'p': p, 'q': q, 'w': q2},
                        connections=[Connectivity('p/so/s', 'q/to/u', np.eye(2), delays=2 * dt), Connectivity('p/so/s', 'w/to/u', np.eye(2), delays=5 * dt)])
    r = c.run(simulation_time=steps * dt, step_size=dt, outputs={'xq': 'q/to/x', 'xw': 'w/to/x'}, verbose=False, float_precision='float64')
    xq, xw = r['xq'].values[:, 0], r['xw'].values[:, 0]
    print('first non-zero step of q (delay 2):', int(np.argmax(xq != 0)), ' of w (delay 5):', int(np.argmax(xw != 0)), '(expected 3 and 6)')
    assert int(np.argmax(xq != 0)) == 3 and int(np.argmax(xw != 0)) == 6
else:
    eop = OperatorTemplate(name='eo', equations=["c_out = sin(s_pre - s_post)"], variables={'c_out': 'output(0.0)', 's_pre': 'input(0.0)', 's_post': 'input(0.0)'})
    p = PopulationTemplate('p', NodeTemplate(name='np', operators=[both]), 2, params={'bo/s': np.array([1.0, 2.0])})
    conn = Connectivity('p/bo/s', 'p/bo/u', np.array([[0.0, 1.0], [1.0, 0.0]]), edge=EdgeTemplate(name='et', operators=[eop]),
                        edge_var_map={'s_pre': 'source', 's_post': 'p/bo/s'}, delays=3 * dt)
    c = CircuitTemplate(name='c', populations={'p': p}, connections=[conn])
    r = c.run(simulation_time=steps * dt, step_size=dt, outputs={'x': 'p/bo/x'}, verbose=False, float_precision='float64')
    x0 = r['x'].values[:, 0]
    # explicit semantics (delay on the coupled value): nothing arrives before step 3
    print('x of unit 0:', x0[:6]); assert np.all(x0[:4] == 0.0)
