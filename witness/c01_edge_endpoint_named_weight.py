"""C01 open finding: edge target variable named 'weight'. Expected dx/dt = -x + 2*s."""
import numpy as np, warnings, os, tempfile, sys
warnings.simplefilter('ignore'); os.chdir(tempfile.mkdtemp())
from pyrates import OperatorTemplate, NodeTemplate, CircuitTemplate
src = OperatorTemplate(name='src', equations=["s' = -s"], variables={'s': 'output(0.3)'})
tgt = OperatorTemplate(name='tgt', equations=["x' = -x + weight"], variables={'x': 'output(0.1)', 'weight': 'input(0.0)'})
c = CircuitTemplate(name='c', nodes={'a': NodeTemplate(name='a', operators=[src]), 'b': NodeTemplate(name='b', operators=[tgt])},
                    edges=[('a/src/s', 'b/tgt/weight', None, {'weight': 2.0})])
f, args, names, smap = c.get_run_func('vf', step_size=1e-3, vectorize=False, float_precision='float64', verbose=False, clear=True)
dy = f(0, np.array(args[1]), *args[2:])
print(dy[smap['b/tgt/x']], 'expected', -0.1 + 0.6)
assert abs(dy[smap['b/tgt/x']] - 0.5) < 1e-12
