"""C06/C16 witness: a node (or population) whose label equals the name of a variable."""
import numpy as np, warnings, os, tempfile
warnings.simplefilter('ignore'); os.chdir(tempfile.mkdtemp())
from pyrates import OperatorTemplate, NodeTemplate, CircuitTemplate
op = OperatorTemplate(name='op', equations=["x' = -x"], variables={'x': 'output(0.2)'})
c = CircuitTemplate(name='c', nodes={'x': NodeTemplate(name='n', operators=[op])})
res = c.run(simulation_time=3e-3, step_size=1e-3, solver='euler', outputs={'o': 'x/op/x'}, vectorize=False, verbose=False, float_precision='float64')
print(res.values[:, 0]); assert abs(res.values[0, 0] - 0.2) < 1e-12
