import numpy as np, warnings, os, tempfile
warnings.simplefilter('ignore'); os.chdir(tempfile.mkdtemp())
from pyrates import OperatorTemplate, NodeTemplate, CircuitTemplate, clear_frontend_caches
from pyrates.frontend.template import PopulationTemplate
def t(name, f):
    try: print(name, '->', f())
    except Exception as e: print(name, 'EXC', type(e).__name__, str(e)[:160])
op = OperatorTemplate(name='relax_op', equations=["d/dt * x = (k - x)/tau"], variables={'x': 'output(0.0)', 'k': 1.0, 'tau': 1.0})
nd = NodeTemplate(name='relax_node', operators=[op])
KW = dict(simulation_time=0.3, step_size=0.1, solver='euler', verbose=False, in_place=False, float_precision='float64')
t('A unknown backend', lambda: CircuitTemplate('n', nodes={'p': nd}).run(outputs={'x': 'p/relax_op/x'}, backend='Fortran', vectorize=True, **KW).values.ravel())
t('A2 bogus backend', lambda: CircuitTemplate('n', nodes={'p': nd}).run(outputs={'x': 'p/relax_op/x'}, backend='nonsense', **KW).values.ravel())
pop = PopulationTemplate(name='pop', node=nd, n=3)
t('B node_values on population', lambda: CircuitTemplate('n2', populations={'pop': pop}).run(outputs={'x': 'pop/relax_op/x'}, node_values={'pop/relax_op/k': 5.0}, **KW).values[-1])
opi = OperatorTemplate(name='relax_op', equations=["d/dt * x = (k - x)/tau"], variables={'x': 'output(0.0)', 'k': 2, 'tau': 1.0})
t('C pop params int default', lambda: CircuitTemplate('n3', populations={'pop': PopulationTemplate('pop', NodeTemplate('ni', operators=[opi]), 3, params={'relax_op/k': [0.5, 1.5, 2.5]})}).run(outputs={'x': 'pop/relax_op/x'}, **KW).values[1])
def D():
    pops = {'p': PopulationTemplate('p', nd, 3)}
    A = CircuitTemplate('A', populations=pops); B = CircuitTemplate('B', populations=pops)
    B.update_var(node_vars={'p/relax_op/k': [10., 20., 30.]})
    return A.run(outputs={'x': 'p/relax_op/x'}, **KW).values[1], 'expected 0.1 each'
t('D shared populations dict', D)
def E():
    o2 = OperatorTemplate(name='op', equations=["x' = -x/tau + k + inp"], variables={'x': 'output(0.5)', 'tau': 2.0, 'k': 1.0, 'inp': 'input(0.0)'})
    n = NodeTemplate(name='n', operators=[o2]); edges = [('a/op/x', 'b/op/inp', None, {'weight': 1.0})]
    c1 = CircuitTemplate(name='c1', nodes={'a': n, 'b': n}, edges=edges); c2 = CircuitTemplate(name='c2', nodes={'a': n, 'b': n}, edges=edges)
    c1.update_var(edge_vars=[('a/op/x', 'b/op/inp', {'weight': 5.0})]); return c2.edges[0][3], edges[0][3]
t('E shared edge dicts at construction', E)
def F():
    def mk(tau):
        o = OperatorTemplate(name='fop', equations=["x' = -x/tau"], variables={'x': 'output(0.5)', 'tau': tau})
        return CircuitTemplate(name='c3', nodes={'a': NodeTemplate(name='fn', operators=[o])})
    os.makedirs('ydir', exist_ok=True)
    mk(2.0).to_yaml('ydir/mod.yaml'); l1 = CircuitTemplate.from_yaml('ydir/mod/c3')
    mk(9.0).to_yaml('ydir/mod.yaml'); l2 = CircuitTemplate.from_yaml('ydir/mod/c3')
    f, args, names, _ = l2.get_run_func('f', step_size=1e-3, verbose=False, vectorize=False, float_precision='float64')
    return l1 is l2, dict(zip(names, args)).get('a/fop/tau'), open('ydir/mod.yaml').read().count('9.0')
t('F stale yaml cache', F)
ol = OperatorTemplate(name='lin', equations=["d/dt * x = -x/tau + inp"], variables={'x': 'output(1.0)', 'tau': 1.0, 'inp': 'input(0.0)'})
nl = NodeTemplate('nl', operators=[ol])
inp = np.zeros((5, 3)); inp[:, 0], inp[:, 1], inp[:, 2] = 10, 20, 30
for vec in (True, False):
    t(f'J (N,n) input vectorize={vec}', lambda: CircuitTemplate('c', nodes={f'n{i}': nl for i in range(3)}).run(5e-3, 1e-3, inputs={'all/lin/inp': inp}, outputs={'x': 'all/lin/x'}, solver='euler', verbose=False, in_place=False, vectorize=vec, float_precision='float64').values[1])
def K():
    leaf = lambda: CircuitTemplate('s', nodes={'p': nl, 'q': nl})
    mid = lambda: CircuitTemplate('m', circuits={'s1': leaf(), 's2': leaf()})
    top = CircuitTemplate('top', circuits={'m1': mid(), 'm2': mid()})
    df = top.run(3e-3, 1e-3, outputs={'x': 'all/all/all/p/lin/x'}, solver='euler', verbose=False, in_place=False)
    return len(df.columns), list(df.columns)[:3]
t('K over-long wildcard path', K)
