"""C04 open finding: two structurally identical nodes; only b1 receives an edge into input u (default 0.11).
vectorize=False gives du-independent dx/dt(b0) = -x + u_default; vectorize=True must give the same."""
import numpy as np, warnings, os, tempfile, sys
warnings.simplefilter('ignore'); os.chdir(tempfile.mkdtemp())
from pyrates import OperatorTemplate, NodeTemplate, CircuitTemplate
out = {}
for vec in (False, True):
    src = OperatorTemplate(name='src', equations=["s' = -s"], variables={'s': 'output(0.3)'})
    src2 = OperatorTemplate(name='src2', equations=["q' = -q"], variables={'q': 'output(0.8)'})
    tgt = OperatorTemplate(name='tgt', equations=["x' = -x + u"], variables={'x': 'output(0.1)', 'u': 'input(0.11)'})
    nt = NodeTemplate(name='b', operators=[tgt])
    c = CircuitTemplate(name='c', nodes={'a': NodeTemplate(name='a', operators=[src]), 'a2': NodeTemplate(name='a2', operators=[src2]), 'b0': nt, 'b1': nt},
                        edges=[('a/src/s', 'b1/tgt/u', None, {'weight': 2.0}), ('a2/src2/q', 'b1/tgt/u', None, {'weight': 3.0})])
    f, args, names, smap = c.get_run_func('vf', step_size=1e-3, vectorize=vec, float_precision='float64', verbose=False, clear=True)
    dy = np.array(f(0, np.array(args[1]), *args[2:]))
    pos = smap['b0/tgt/x']
    out[vec] = dy[pos[0] if isinstance(pos, tuple) else pos]
    print('vectorize', vec, 'dx/dt of b0 =', out[vec], 'expected', -0.1 + 0.11)
assert abs(out[True] - out[False]) < 1e-12
