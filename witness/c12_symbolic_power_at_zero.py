"""C12: x' = -x^a + z with the exponent a declared as a parameter: the Jacobian entry was printed as -a*x**a/x, which is nan at
the state x = 0 (the declared initial state), where the derivative is 0.  Repaired by the fix recorded in known_findings.json.
Run: cd $(mktemp -d) && PYTHONPATH=/repo /venv/bin/python /verif/witness/c12_symbolic_power_at_zero.py"""
import warnings
import numpy as np
from pyrates import CircuitTemplate, OperatorTemplate, NodeTemplate
warnings.simplefilter('ignore')
op = OperatorTemplate(name='op', equations=["d/dt * x = -x^a + z", "d/dt * z = -z + (x-0.3)^a"],
                      variables={'x': 'output(0.0)', 'z': 'variable(0.2)', 'a': 2.0})
c = CircuitTemplate(name='c', nodes={'p': NodeTemplate(name='n', operators=[op])})
jf, ja, nm, sm = c.get_jacobian_func('jf', step_size=1e-3, solver='scipy', vectorize=False, float_precision='float64', verbose=False)
J_init = np.asarray(jf(*ja), dtype=float)
J_03 = np.asarray(jf(0.0, np.array([0.3, 0.1]), *ja[2:]), dtype=float)
print('J at the initial state x=0:', J_init.tolist(), ' expected [[0, 1], [-0.6, -1]]')
print('J at x=0.3:', J_03.tolist(), ' expected [[-0.6, 1], [0, -1]]')
ok = np.allclose(J_init, [[0, 1], [-0.6, -1]]) and np.allclose(J_03, [[-0.6, 1], [0, -1]])
print('PASS' if ok else 'FAIL')
raise SystemExit(0 if ok else 1)
