"""C11: vectorize=True, three identical nodes in a ring whose delayed edges all carry the same (delay, spread) and are listed so that
the source elements form a non-ascending permutation (1->2, 0->1, 2->0): _add_edge_buffer fed the chain with the source
vector in its own order instead of the listed order, so every target received another node's delayed signal."""
import numpy as np, warnings, os, tempfile, sys, math
warnings.simplefilter('ignore'); os.chdir(tempfile.mkdtemp())
from pyrates import OperatorTemplate, NodeTemplate, CircuitTemplate
dt, steps = 1e-3, 30
d = 5 * dt
s = d / math.sqrt(2.1)
op = OperatorTemplate(name='op', equations=["x' = -k*x + u"], variables={'x': 'output(0.0)', 'k': 1.0, 'u': 'input(0.0)'})
x0 = [0.3, 0.6, 0.9]
ks = [1.0, 2.0, 3.0]
nodes = {f'n{i}': NodeTemplate(name=f'n{i}', operators={op: {'x': x0[i], 'k': ks[i]}}) for i in range(3)}
pairs = [(1, 2), (0, 1), (2, 0)]
edges = [(f'n{a}/op/x', f'n{b}/op/u', None, {'weight': 1.0 + 0.5 * a, 'delay': d, 'spread': s}) for a, b in pairs]
out = {}
for vec in (False, True):
    c = CircuitTemplate(name='c', nodes=nodes, edges=edges)
    df = c.run(simulation_time=steps * dt, step_size=dt, solver='euler', outputs={f'x{i}': f'n{i}/op/x' for i in range(3)},
               vectorize=vec, verbose=False, float_precision='float64', clear=True)
    out[vec] = df.values
err = np.abs(out[True] - out[False]).max()
print('max |vectorized - non-vectorized| over 30 Euler steps:', err)
bad = err > 1e-10
print('DEFECT SHOWN' if bad else 'no defect')
sys.exit(1 if bad else 0)
