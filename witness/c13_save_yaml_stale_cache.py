"""C13/C15: pyrates.save(circuit, file, filetype='yaml') did not invalidate the template cache: after a file had been loaded once,
rewriting it through save and loading it again returned the first model.  Repaired by eb2df3b.
Run: cd $(mktemp -d) && PYTHONPATH=/repo /venv/bin/python /verif/witness/c13_save_yaml_stale_cache.py"""
import contextlib, io
from pyrates import CircuitTemplate, NodeTemplate, OperatorTemplate, save


def build(k):
    op = OperatorTemplate('op', equations=["x' = -k*x + inp"], variables={'x': 'output(1.0)', 'k': k, 'inp': 'input(0.0)'})
    n = NodeTemplate('n', operators=[op])
    return CircuitTemplate('net', nodes={'a': n, 'b': n}, edges=[('a/op/x', 'b/op/inp', None, {'weight': 0.5})])


def vf(c):
    f, args, keys, _ = c.get_run_func('vf', step_size=1e-3, backend='default', vectorize=False, verbose=False, clear=True, in_place=False)
    return [float(v) for v in f(*args)]


with contextlib.redirect_stdout(io.StringIO()):
    save(build(2.0), 'p2/net.yaml', filetype='yaml')
first = vf(CircuitTemplate.from_yaml('p2/net/net'))
with contextlib.redirect_stdout(io.StringIO()):
    save(build(5.0), 'p2/net.yaml', filetype='yaml')
second = vf(CircuitTemplate.from_yaml('p2/net/net'))
print('first load', first, ' second load', second, ' expected [-2, -1.5] and [-5, -4.5]')
ok = first == [-2.0, -1.5] and second == [-5.0, -4.5]
print('PASS' if ok else 'FAIL')
raise SystemExit(0 if ok else 1)
