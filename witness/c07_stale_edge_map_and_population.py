"""C07: (1) update_var(edge_vars) after an in-place edge addition; (2) update_var on a population node."""
import numpy as np, warnings, os, tempfile
warnings.simplefilter('ignore'); os.chdir(tempfile.mkdtemp())
from pyrates import OperatorTemplate, NodeTemplate, CircuitTemplate
from pyrates.frontend.template import PopulationTemplate
op = OperatorTemplate(name='leak', path=None, equations=["d/dt * v = (k*(e_rev - v) + i_ext) / c"],
                      variables={'v': 'output(0.5)', 'k': 2.0, 'e_rev': -1.0, 'i_ext': 'input(0.0)', 'c': 4.0})
node = NodeTemplate(name='cell', path=None, operators=[op])
kw = dict(step_size=1e-3, backend='default', verbose=False, float_precision='float64')
net = CircuitTemplate('net', nodes={f'n{i}': node for i in range(3)}, edges=[('n0/leak/v', 'n1/leak/i_ext', None, {'weight': 1.5})])
net.update_template(edges=[('n1/leak/v', 'n2/leak/i_ext', None, {'weight': 2.5})], in_place=True)
net.update_var(edge_vars=[('n0/leak/v', 'n1/leak/i_ext', {'weight': 9.0}), ('n1/leak/v', 'n2/leak/i_ext', {'weight': 4.0})])
print([e[3] for e in net.edges]); assert [e[3]['weight'] for e in net.edges] == [9.0, 4.0]
net = CircuitTemplate('net', populations={'p': PopulationTemplate('p', node=node, n=3)})
net.update_var(node_vars={'p/leak/k': 7.0, 'p/leak/v': np.array([.1, .2, .3])})
_, args, names, _ = net.get_run_func('f', **kw)
a = dict(zip(names, args)); print(a['p/leak/k'], a['y'])
assert np.array_equal(a['p/leak/k'], [7., 7., 7.]) and np.array_equal(a['y'], [.1, .2, .3])
