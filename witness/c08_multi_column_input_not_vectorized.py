"""C08 open finding: an (N,n) input for n addressed nodes with vectorize=False raises ValueError."""
import numpy as np, warnings, os, tempfile
warnings.simplefilter('ignore'); os.chdir(tempfile.mkdtemp())
from pyrates import OperatorTemplate, NodeTemplate, CircuitTemplate
ol = OperatorTemplate(name='lin', equations=["d/dt * x = -x/tau + inp"], variables={'x': 'output(1.0)', 'tau': 1.0, 'inp': 'input(0.0)'})
nl = NodeTemplate('nl', operators=[ol])
inp = np.zeros((5, 3)); inp[:, 0], inp[:, 1], inp[:, 2] = 10, 20, 30
for vec in (True, False):
    r = CircuitTemplate('c', nodes={f'n{i}': nl for i in range(3)}).run(5e-3, 1e-3, inputs={'all/lin/inp': inp}, outputs={'x': 'all/lin/x'}, solver='euler',
                                                                      verbose=False, in_place=False, vectorize=vec, float_precision='float64').values[1]
    print(vec, r); assert np.allclose(r, [1.009, 1.019, 1.029])
