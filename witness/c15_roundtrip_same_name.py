"""C15 open finding: three different sub-circuit templates with the same template name."""
import numpy as np, warnings, os, tempfile
warnings.simplefilter('ignore'); os.chdir(tempfile.mkdtemp())
from pyrates import OperatorTemplate, NodeTemplate, CircuitTemplate, clear_frontend_caches
op = OperatorTemplate(name='op', equations=["x' = -x"], variables={'x': 'output(0.2)'})
nt = NodeTemplate(name='n', operators=[op])
top = CircuitTemplate(name='top', circuits={'s1': CircuitTemplate(name='sub', nodes={'a': nt}), 's2': CircuitTemplate(name='sub', nodes={'b': nt}),
                                            's3': CircuitTemplate(name='sub', nodes={'c': nt})})
top.to_yaml('rt.yaml'); clear_frontend_caches()
t2 = CircuitTemplate.from_yaml(os.getcwd() + '/rt/top')
f, args, names, smap = t2.get_run_func('vf', step_size=1e-3, vectorize=False, verbose=False, float_precision='float64')
print(smap); assert set(smap) == {'s1/a/op/x', 's2/b/op/x', 's3/c/op/x'}
