import numpy as np, warnings, os, tempfile, sys
warnings.simplefilter('ignore'); os.chdir(tempfile.mkdtemp())
from pyrates import OperatorTemplate, NodeTemplate, CircuitTemplate
from pyrates.frontend.template import PopulationTemplate
for eq in ["r' = -2.2*u", "r' = -r + u", "r' = -v*r + v*(0.43*r + 0.57*r) - 2.2*u"]:
    node = NodeTemplate('n', operators=[OperatorTemplate('op', [eq], {'r': 'output(0.5)', 'u': 'input(0.3)', 'v': 0.9})])
    for kind in ('population', 'nodes'):
        try:
            if kind == 'population':
                c = CircuitTemplate('c', populations={'p': PopulationTemplate('p', node, 3)})
            else:
                c = CircuitTemplate('c', nodes={f'p{i}': node for i in range(3)})
            f, args, names, smap = c.get_run_func('f', step_size=1e-3, verbose=False, clear=True, float_precision='float64')
            print(eq, kind, np.asarray(f(*args)))
        except Exception as e:
            print(eq, kind, 'EXC', type(e).__name__, str(e)[:120])
