import warnings; warnings.simplefilter('ignore')
from pyrates import OperatorTemplate, NodeTemplate, CircuitTemplate
op = OperatorTemplate(name='op', equations=["x' = -x + u"], variables={'x': 'output(0.3)', 'u': 'input(0.0)'})
n = NodeTemplate(name='n', operators=[op])
c = CircuitTemplate(name='c', nodes={'a': n, 'b': n}, edges=[('a/op/x', 'b/op/u', None, {'weight': 2.0})])
c2 = c.update_template(name='c2')
c2.update_var(edge_vars=[('a/op/x', 'b/op/u', {'weight': 5.0})])
print('original:', c.edges, 'derived:', c2.edges)
assert c.edges[0][3]['weight'] == 2.0 and c2.edges[0][3]['weight'] == 5.0
# an edge declared without attributes (fixed df5c611)
c = CircuitTemplate(name='c', nodes={'a': n, 'b': n}, edges=[('a/op/x', 'b/op/u', None, {})])
c2 = c.update_template(name='c2'); c2.update_var(edge_vars=[('a/op/x', 'b/op/u', {'weight': 5.0})])
print(c.edges, c2.edges); assert c.edges[0][3] == {}
