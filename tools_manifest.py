#!/usr/bin/env python3
"""Regenerates MANIFEST.json from the per-property modules (single source of truth: vp/props/cXX.py MANIFEST dicts)."""
import importlib, json, os, sys
ROOT = os.path.dirname(os.path.abspath(__file__))
sys.path.insert(0, ROOT)
props = [json.loads(l) for l in open(os.path.join(ROOT, 'properties.jsonl'))]
checks, na = [], []
for p in props:
    pid = p['id']
    path = os.path.join(ROOT, 'vp', 'props', pid.lower() + '.py')
    info = None
    if os.path.exists(path):
        src = open(path).read()
        ns = {}
        # MANIFEST dict literal is delimited by markers so that we need not import pyrates here
        if '# MANIFEST-BEGIN' in src:
            blk = src.split('# MANIFEST-BEGIN')[1].split('# MANIFEST-END')[0]
            exec(blk, ns)
            info = ns['MANIFEST']
    if info is None:
        na.append({'property_id': pid, 'reason': 'check not built yet in this session (runtime monitoring applies; see DESIGN.md section 3)'})
        continue
    checks.append({
        'property_id': pid,
        'quick_cmd': f'./check {pid} --tier quick',
        'thorough_cmd': f'./check {pid} --tier thorough',
        'evidence_file': f'/verif/evidence/{pid}.json',
        'replay_cmd_template': f'./check {pid} --replay {{path}}',
        'engine': 'vp',
        'level_claimed': {'category': 'exploration', 'text': info['level_text'], 'design_ref': info.get('design_ref', f'DESIGN.md section 3 {pid}')},
        'level_note': info['level_note'],
        'technique': info['technique'],
    })
man = {
    'version': 1,
    'setup_cmd': './setup.sh',
    'hooks': {
        'guard': 'PYRATES_VERIF',
        'enable': 'no source hooks are needed: monitors are installed at run time by wrapping live PyRates callables inside the worker processes (vp/monitors.py); PYRATES_VERIF=1 is set for the workers only',
        'baseline_off_cmd': 'cd /repo && /venv/bin/python -m pytest -ra -q -p no:cacheprovider --timeout=900 --continue-on-collection-errors',
        'source_commits': [],
        'add_only': True,
    },
    'engines': [{'name': 'vp', 'path': '/verif/vp', 'serves_properties': [c['property_id'] for c in checks],
                 'kind_free_text': 'runtime monitoring: seeded workload generators, independent reference semantics as oracle, monitors wrapped around live PyRates callables, fork-per-case isolation, gfortran -fcheck=all / JAX checkify sanitizers on generated code'}],
    'checks': checks,
    'notes': 'Exit codes: 0 held on what was observed, 1 VIOLATION (with replay file), 2 INCONCLUSIVE (deciding monitors not reached). Known genuine defects are listed in known_findings.json and reported as KNOWN-FINDING lines.',
    'not_applicable': na,
}
json.dump(man, open(os.path.join(ROOT, 'MANIFEST.json'), 'w'), indent=1)
print('checks:', [c['property_id'] for c in checks], 'n/a:', len(na))
