#!/bin/bash
# background helper (not a registered command): thorough tier of every check against a snapshot of /repo
cd "$(dirname "$0")"
export VERIF_REPO="${VP_RUN_REPO:-}"
./setup.sh >/dev/null 2>&1
for p in C19 C03 C10 C12 C20 C18 C06 C08 C15 C17 C09 C11 C16 C13 C14 C07 C05 C04 C02 C01; do
  ./check $p --tier thorough --seed ${1:-0} 2>&1 | grep -E "^\[C..\] tier|VIOLATION|INCONCLUSIVE|KNOWN-FINDING" | cut -c1-260
  cp evidence/$p.json evidence_thorough_$p.json 2>/dev/null
done
