#!/usr/bin/env python3
"""Regenerates the data-driven parts of DESIGN.md between <!-- BEGIN:x --> / <!-- END:x --> markers:
  fixed    : table of repaired defects        (known_findings.json, status fixed)
  open     : table of recorded open findings  (known_findings.json, status open)
  seeded   : seeded changes and which checks caught them (seeded/*/meta.json + selftest_seeded_results.json)
  mutants  : reverted fix commits and whether the quick check of the property fired (selftest_fixes_results.json)
  corrections : NOTES_corrections.md
"""
import json
import os
import re

ROOT = os.path.dirname(os.path.abspath(__file__))


def esc(s):
    return str(s).replace('|', '\\|').replace('\n', ' ')


def fixed_table(kf):
    rows = ['| property | commit | what failed | witness |', '|----------|--------|-------------|---------|']
    for e in kf['findings']:
        if e['status'] == 'fixed':
            what = e['id'].split(e['commit'], 1)[-1].strip()
            rows.append(f"| {e['property']} | `{e['commit']}` | {esc(what)} | `{esc(e.get('witness', ''))}` |")
    return '\n'.join(rows)


def open_table(kf):
    rows = ['| property | id | what fails | risk feature(s) | witness |', '|----------|----|------------|-----------------|---------|']
    for e in kf['findings']:
        if e['status'] != 'fixed':
            rows.append(f"| {e['property']} | `{e['id']}` | {esc(e['what'])} | `{', '.join(e.get('risk_features', []))}` | "
                        f"`{esc(e.get('witness', ''))}` |")
    return '\n'.join(rows)


def seeded_table():
    res = {}
    p = os.path.join(ROOT, 'selftest_seeded_results.json')
    if os.path.exists(p):
        for r in json.load(open(p)):
            if isinstance(r[2], dict):
                res.setdefault(r[0], {}).update(r[2])
    rows = ['| seeded change | property | what the change is | what it needs to manifest | quick checks run -> result |',
            '|---------------|----------|--------------------|---------------------------|----------------------------|']
    sd = os.path.join(ROOT, 'seeded')
    for sid in sorted(os.listdir(sd)):
        meta = json.load(open(os.path.join(sd, sid, 'meta.json')))
        out = []
        for pid, (rc, nv, wall) in sorted(res.get(sid, {}).items()):
            out.append(f"{pid}: {'caught (' + str(nv) + ' VIOLATION lines)' if rc == 1 else 'MISSED' if rc == 0 else 'exit ' + str(rc)}")
        hist = meta.get('history', '')
        if meta.get('status') == 'neutralised':
            out = [f"no longer breaks the property (neutralised by `{meta.get('neutralised_by')}`, demo passes with the patch)"]
        rows.append(f"| `seeded/{sid}` | {meta['property']} | {esc(meta['summary'])} | {esc(meta['needs_to_manifest'])} | "
                    f"{'; '.join(out) or 'not run yet'}{(' - ' + esc(hist)) if hist else ''} |")
    return '\n'.join(rows)


def mutants_table():
    p = os.path.join(ROOT, 'selftest_fixes_results.json')
    if not os.path.exists(p):
        return '(selftest.py fixes has not been run)'
    rows = ['| reverted fix | property | quick check of the property |', '|--------------|----------|------------------------------|']
    for r in json.load(open(p)):
        c, pid, v = r
        if isinstance(v, (list, tuple)):
            rc, nv, wall = v
            txt = f"caught ({nv} VIOLATION lines)" if rc == 1 else 'MISSED' if rc == 0 else f'exit {rc}'
        else:
            txt = str(v)
        rows.append(f"| `{c}` | {pid} | {txt} |")
    return '\n'.join(rows)


def corrections():
    lines = open(os.path.join(ROOT, 'NOTES_corrections.md')).read().strip().splitlines()
    return '\n'.join(l for l in lines if not l.startswith('#'))


def main():
    kf = json.load(open(os.path.join(ROOT, 'known_findings.json')))
    parts = {'fixed': fixed_table(kf), 'open': open_table(kf), 'seeded': seeded_table(), 'mutants': mutants_table(),
             'corrections': corrections()}
    p = os.path.join(ROOT, 'DESIGN.md')
    s = open(p).read()
    for k, v in parts.items():
        pat = re.compile(rf'(<!-- BEGIN:{k} -->\n).*?(\n<!-- END:{k} -->)', re.S)
        if not pat.search(s):
            print('marker missing:', k)
            continue
        s = pat.sub(lambda m: m.group(1) + v + m.group(2), s)
    open(p, 'w').write(s)
    n_open = sum(1 for e in kf['findings'] if e['status'] != 'fixed')
    print('DESIGN.md regenerated:', len(kf['findings']) - n_open, 'fixed,', n_open, 'open')


if __name__ == '__main__':
    main()
