#!/bin/bash
# background helper (not a registered command): thorough tier of the given checks against a snapshot of /repo
# usage: run_thorough_some.sh <seed> C07 C09 ...
cd "$(dirname "$0")"
export VERIF_REPO="${VP_RUN_REPO:-}"
./setup.sh >/dev/null 2>&1
seed=$1; shift
for p in "$@"; do
  ./check $p --tier thorough --seed $seed 2>&1 | grep -E "^\[C..\] tier|VIOLATION|INCONCLUSIVE|KNOWN-FINDING" | cut -c1-260
done
