"""debug helper: python dbg.py C01 <replay.json>  -> prints summary, tries compile, shows generated source"""
import sys, json, os, random, traceback, tempfile
sys.path.insert(0, '/verif'); sys.path.insert(0, '/verif/.deps')
pid, path = sys.argv[1], sys.argv[2]
import importlib
mod = importlib.import_module(f'vp.props.{pid.lower()}')
rp = json.load(open(path))
case = rp['case']
ctx = {'tier': 'quick', 'seed': 0, 'mode': 'fork'}
os.makedirs('/verif/.work/dbg', exist_ok=True); os.chdir('/verif/.work/dbg')
mod.warmup(ctx)
print('SYMPTOM:', rp['result'].get('symptom'))
print('RISK:', rp['result'].get('risk'), 'FEATS:', rp['result'].get('features'))
spec = rp['result'].get('spec')
if spec:
    from vp.props.c01 import summary
    print(json.dumps(summary(spec), indent=1))
res = mod.run_case(case, ctx)
print(res.get('detail', ''))
for f in os.listdir('.'):
    if f.endswith('.py'):
        print('-----', f); print(open(f).read())
