"""Seeded generators of model specs (see ref.py for the spec format)."""
import re
from . import expr as E

VAR_POOL = ['r', 'rr', 'r_in', 'r_in0', 'm_in2', 'x', 'x_v1', 'x_v2', 'weight', 'weight_in0', 'k', 'k1', 'k10',
            'a_b', 'ab', 'v', 'u', 'q', 'z', 's', 'g', 'h', 'tau', 'c0', 'w', 'm', 'u_in0', 'v_in1', 'xx', 'e1']
SAFE_POOL = ['r', 'x', 'v', 'u', 'q', 'z', 's', 'g', 'h', 'w', 'm', 'a', 'b', 'c', 'p', 'e1', 'e2', 'k', 'tau']
# pools by hostility class (see known_findings.json: names that look like edge-local names / derived labels)
EDGE_LOCAL_NAMES = ['weight', 'weight_in0', 'r_in0', 'm_in2', 'u_in0', 'v_in1', 'k_source0']
DERIVED_NAMES = ['x_v1', 'x_v2', 'r_v1', 'q_num1']
CONTAINING_NAMES = ['rr', 'r_in', 'k1', 'k10', 'a_b', 'ab', 'xx', 'c0']
MAIN_POOL = SAFE_POOL + CONTAINING_NAMES + DERIVED_NAMES
DERIVED_POOL = ['x', 'r', 'q', 's', 'z', 'u', 'k', 'a'] + DERIVED_NAMES
EDGE_LOCAL_POOL = ['x', 'r', 'q', 's', 'z', 'u', 'k', 'a', 'm', 'v'] + EDGE_LOCAL_NAMES
FUNCS = ('sin', 'tanh', 'sigmoid', 'cos')


class Vals:
    """Unique values: every declared value in a model is distinct (value fingerprinting)."""

    def __init__(self, rnd):
        self.rnd = rnd
        self.used = set()

    def new(self, lo=0.11, hi=0.97):
        while True:
            v = round(self.rnd.uniform(lo, hi), 4)
            if v not in self.used and abs(v - 1.0) > 1e-3 and abs(v) > 1e-3:
                self.used.add(v)
                return v


def gen_op(rnd, vals, name, out_name, in_names, pool, n_state_extra=None, alg_out=False, funcs=FUNCS, n_const=None,
           with_alg=None):
    """One operator.  out_name: output variable.  in_names: input variable names.
    The output is a state variable unless alg_out.  Every input / algebraic variable enters a DE (or the
    algebraic output) linearly with a distinct coefficient so that it is observable."""
    used = {out_name, *in_names}

    def fresh():
        for _ in range(200):
            n = rnd.choice(pool)
            if n not in used:
                used.add(n)
                return n
        n = f"zz{len(used)}"
        used.add(n)
        return n

    n_state_extra = rnd.choice([0, 0, 1, 2]) if n_state_extra is None else n_state_extra
    if alg_out and n_state_extra == 0:
        n_state_extra = 1
    states = [fresh() for _ in range(n_state_extra)]
    n_const = rnd.choice([1, 2, 3]) if n_const is None else n_const
    consts = [fresh() for _ in range(n_const)]
    with_alg = (rnd.random() < 0.4) if with_alg is None else with_alg
    algs = [fresh()] if with_alg else []
    vars_ = {}
    eqs = []
    all_states = ([] if alg_out else [out_name]) + states
    vars_[out_name] = ['out', vals.new()]
    for s in states:
        vars_[s] = ['var', vals.new()]
    for c in consts:
        vars_[c] = ['const', vals.new()]
    for a in algs:
        vars_[a] = ['var', 0.0]
    for i in in_names:
        vars_[i] = ['in', vals.new()]
    # algebraic intermediate: depends on states and consts (and possibly an input)
    base_names = all_states + list(in_names)
    alg_eqs = []
    for a in algs:
        terms = E.mul(E.var(rnd.choice(consts)), E.safe_call(rnd, rnd.choice(funcs), E.bounded(rnd, base_names, 1, funcs)))
        if in_names and rnd.random() < 0.5:
            terms = E.add(terms, E.mul(E.num(E.rnd_coef(rnd)), E.var(rnd.choice(in_names))))
        alg_eqs.append(['alg', a, terms])
    observe = list(in_names) + algs
    targets = list(all_states)
    de_eqs = []
    coefs = set()

    def coef():
        while True:
            c = E.rnd_coef(rnd)
            if c not in coefs:
                coefs.add(c)
                return c

    if alg_out:
        # output is algebraic: out = Σ c_i * observe_i + c*f(states)
        ex = E.mul(E.var(rnd.choice(consts)), E.safe_call(rnd, rnd.choice(funcs), E.bounded(rnd, all_states, 1, funcs)))
        for o in observe:
            ex = E.add(ex, E.mul(E.num(coef()), E.var(o)))
        observe = []
        alg_eqs.append(['alg', out_name, ex])
    for si, s in enumerate(targets):
        kconst = rnd.choice(consts)
        ex = E.neg(E.mul(E.var(kconst), E.var(s)))
        others = [x for x in all_states if x != s] + ([out_name] if alg_out else [])
        if others or rnd.random() < 0.7:
            ex = E.add(ex, E.mul(E.num(coef()), E.safe_call(rnd, rnd.choice(funcs), E.bounded(rnd, others + [s], 1, funcs))))
        if rnd.random() < 0.5:
            ex = E.add(ex, E.mul(E.var(rnd.choice(consts)), E.bounded(rnd, all_states, 1, funcs)))
        mine = [o for j, o in enumerate(observe) if j % len(targets) == si]
        for o in mine:
            if rnd.random() < 0.3:
                ex = E.add(ex, E.mul(E.mul(E.num(coef()), E.var(o)), E.var(rnd.choice(consts))))
            else:
                ex = E.add(ex, E.mul(E.num(coef()), E.var(o)))
        de_eqs.append(['de', s, ex])
    if not targets:
        raise ValueError('operator without state')
    eqs = de_eqs + alg_eqs
    if rnd.random() < 0.5:
        # algebraic equations before the DEs that use them, or after: both are legal orders
        eqs = alg_eqs + de_eqs
    if rnd.random() < 0.3:
        rnd.shuffle(eqs)
        # keep alg equations in dependency order relative to each other
        algs_in_order = [e for e in alg_eqs]
        it = iter(algs_in_order)
        eqs = [next(it) if e[0] == 'alg' else e for e in eqs]
    # declaration order of variables permuted
    items = list(vars_.items())
    rnd.shuffle(items)
    return {'eqs': [[k, l, E.tolist(x)] for k, l, x in eqs], 'vars': dict(items)}


WEIGHTS = ['one', 'uniq', 'uniq', 'uniq', 'neg', 'tiny', 'int', 'nano']


def gen_weight(rnd, vals, kind=None):
    k = kind or rnd.choice(WEIGHTS)
    if k == 'one':
        # unit gain - mostly +1.0 (the weight for which generated code omits the multiplication), sometimes exactly -1.0 (inhibitory
        # unit gain: same magnitude, must keep its sign)
        return 1.0 if rnd.random() < 0.7 else -1.0
    if k == 'neg':
        return -vals.new()
    if k == 'tiny':
        return round(vals.new() * 1e-5, 9)
    if k == 'nano':
        return float(f"{vals.new() * 1e-9:.4e}")      # e.g. conductances in SI units
    if k == 'int':
        return float(rnd.choice([2, 3, 5, 7])) + 0.0 * vals.new()
    return round(vals.new() * rnd.choice([1, 2, 3]), 4)


def gen_net(rnd, n_nodes=None, pool=None, max_types=3, depth=None, edge_density=None, allow=None, forbid=(),
            alg_out_p=0.25, n_edges=None, funcs=FUNCS, same_type_bias=False, unique_types=False, label_pool=None):
    """Random network spec.  `forbid`: risk features that must not occur (resampled away).
    Returns (spec, features, risk)."""
    for attempt in range(3000):
        spec, feats, risk = _gen_net(rnd, n_nodes, pool, max_types, depth, edge_density, alg_out_p, n_edges, funcs,
                                     same_type_bias, unique_types, label_pool)
        if allow is not None and not allow(spec, feats, risk):
            continue
        if set(forbid) & set(risk):
            continue
        return spec, feats, risk
    raise RuntimeError('generator could not satisfy the constraints')


def _gen_net(rnd, n_nodes, pool, max_types, depth, edge_density, alg_out_p, n_edges, funcs, same_type_bias,
             unique_types=False, label_pool=None):
    pool = pool or VAR_POOL
    vals = Vals(rnd)
    n_types = rnd.randint(1, max_types) if not unique_types else (n_nodes or rnd.randint(1, max_types))
    ops = {}
    node_types = {}
    opn = 0
    for ti in range(n_types):
        n_ops = rnd.choice([1, 1, 2, 2, 3])
        names = []
        prev_out = []
        for oi in range(n_ops):
            name = rnd.choice(['op', 'opx', 'op_', 'o', 'rpo', 'in_op']) + str(opn)
            opn += 1
            used_out = {ops[n]['__out'] for n in names}
            out_name = rnd.choice([p for p in pool if p not in used_out] or ['yy%d' % opn])
            ins = []
            # intra-node chain / fan-in: input named after an earlier operator's output
            if prev_out and rnd.random() < 0.7:
                ins.append(rnd.choice(prev_out))
                if len(prev_out) > 1 and rnd.random() < 0.4:
                    o2 = rnd.choice(prev_out)
                    if o2 not in ins:
                        ins.append(o2)
            n_free = rnd.choice([0, 1, 1, 2])
            for _ in range(n_free):
                c = rnd.choice(pool)
                if c != out_name and c not in ins and c not in prev_out:
                    ins.append(c)
            op = gen_op(rnd, vals, name, out_name, ins, pool, alg_out=rnd.random() < alg_out_p, funcs=funcs)
            # an input must not accidentally be named like the output of a LATER op of the same node (cycle);
            # later ops only draw inputs from earlier outputs, but free inputs could collide with later outputs:
            op['__out'] = out_name
            ops[name] = op
            names.append(name)
            prev_out.append(out_name)
        # check accidental cycles/collisions: a free input of op i equal to output of op j>i  -> would create an edge j->i
        ok = True
        for i, n in enumerate(names):
            for v, (vk, _) in ops[n]['vars'].items():
                if vk == 'in':
                    for j, n2 in enumerate(names):
                        if j > i and ops[n2]['__out'] == v:
                            ok = False
        if not ok:
            # rename: drop the colliding later ops
            names = names[:1]
        # two operators of one node must not share an output name if a third consumes it? allowed (fan-in). keep.
        order = list(names)
        rnd.shuffle(order)
        over = {}
        if rnd.random() < 0.4:
            n = rnd.choice(names)
            cands = [v for v, (vk, _) in ops[n]['vars'].items() if vk in ('const', 'out') and
                     (vk != 'out' or any(e[0] == 'de' and e[1] == v for e in ops[n]['eqs']))]
            if cands:
                v = rnd.choice(cands)
                over[n] = {v: vals.new()}
        node_types[f'nt{ti}'] = {'ops': order, 'over': over}
    used_ops = {o for nt in node_types.values() for o in nt['ops']}
    ops = {k: v for k, v in ops.items() if k in used_ops}
    for o in ops.values():
        o.pop('__out', None)
    # nodes
    n_nodes = n_nodes or rnd.choice([1, 2, 2, 3, 3, 4, 5, 6, 8])
    labels = []
    node_of = {}
    tnames = list(node_types)
    if unique_types:
        n_nodes = len(tnames)
    for i in range(n_nodes):
        lab = rnd.choice(['n', 'p', 'node', 'a', 'b']) + str(i)
        if label_pool and rnd.random() < 0.6:
            # node labels that coincide with variable / operator names used in the model
            free = [x for x in label_pool if x not in labels and x != 'all']
            if free:
                lab = rnd.choice(free)
        labels.append(lab)
        node_of[lab] = tnames[i] if unique_types else rnd.choice(tnames) if not same_type_bias else tnames[min(len(tnames) - 1, int(rnd.random() ** 2 * len(tnames)))]
    # hierarchy
    depth = rnd.choice([0, 0, 1, 1, 2, 3]) if depth is None else depth
    rnd.shuffle(labels)

    def nest(labs, d, name):
        if d == 0:
            return {'name': name, 'nodes': {l: node_of[l] for l in labs}, 'subs': {}, 'edges': []}
        k = rnd.randint(1, min(3, len(labs)))
        groups = [labs[i::k] for i in range(k)]
        return {'name': name, 'nodes': {}, 'subs': {f'{"c" if d % 2 else "s"}{d}{i}': nest(g, d - 1, f'circ{d}{i}')
                                                   for i, g in enumerate(groups) if g}, 'edges': []}

    circ = nest(labels, depth, 'top')
    # absolute node paths
    paths = {}

    def collect(c, prefix):
        for l in c['nodes']:
            paths[l] = prefix + l
        for k, s in c['subs'].items():
            collect(s, prefix + k + '/')

    collect(circ, '')
    # candidate sources and targets
    def node_ops(lab):
        return node_types[node_of[lab]]['ops']

    sources, targets = [], []
    for lab in paths:
        names = node_ops(lab)
        outs = {n: [v for v, (vk, _) in ops[n]['vars'].items() if vk == 'out'][0] for n in names}
        for n in names:
            sources.append((lab, n, outs[n]))
            for v, (vk, _) in ops[n]['vars'].items():
                if vk == 'var' and any(e[0] == 'de' and e[1] == v for e in ops[n]['eqs']) and rnd.random() < 0.5:
                    sources.append((lab, n, v))
                if vk == 'in':
                    targets.append((lab, n, v))
    edges_abs = []
    if targets and sources:
        if n_edges is None:
            dens = edge_density if edge_density is not None else rnd.choice([0.0, 0.15, 0.3, 0.6, 1.0])
            n_edges = int(round(dens * len(targets) * rnd.choice([1, 1, 2]))) if dens else 0
            if dens and n_edges == 0:
                n_edges = 1
        for _ in range(n_edges):
            t = rnd.choice(targets)
            s = rnd.choice(sources)
            # algebraic loops across nodes: a cycle must pass through a state variable -> require source to be a state
            sop = ops[s[1]]
            s_is_state = any(e[0] == 'de' and e[1] == s[2] for e in sop['eqs'])
            if not s_is_state:
                # algebraic output as source: allowed only if no path back (keep simple: target node must differ and
                # the target's node must not feed (algebraically) into the source node) -> approximate by requiring
                # that the target operator's own output is a state variable
                top = ops[t[1]]
                tout = [v for v, (vk, _) in top['vars'].items() if vk == 'out'][0]
                t_state = any(e[0] == 'de' and e[1] == tout for e in top['eqs'])
                if not t_state or s[0] == t[0]:
                    continue
                # also all downstream ops in the target node must be state-output
                if not all(any(e[0] == 'de' and e[1] == [v for v, (vk, _) in ops[n]['vars'].items() if vk == 'out'][0]
                               for e in ops[n]['eqs']) for n in node_ops(t[0])):
                    continue
            edges_abs.append((s, t, gen_weight(rnd, vals)))
    # place each edge at the lowest common ancestor (or randomly higher)
    def place(c, prefix, s, t, w):
        sp, tp = paths[s[0]], paths[t[0]]
        for k, sub in c['subs'].items():
            pre = prefix + k + '/'
            if sp.startswith(pre) and tp.startswith(pre) and rnd.random() < 0.7:
                return place(sub, pre, s, t, w)
        # an edge of weight exactly 1.0 is sometimes declared without a weight attribute (the documented default)
        attrs = {} if w == 1.0 and rnd.random() < 0.5 else {'weight': w}
        c['edges'].append([f"{sp[len(prefix):]}/{s[1]}/{s[2]}", f"{tp[len(prefix):]}/{t[1]}/{t[2]}", None, attrs])

    for s, t, w in edges_abs:
        place(circ, '', s, t, w)
    spec = {'ops': ops, 'node_types': node_types, 'edge_types': {}, 'circ': circ}
    feats, risk = features(spec)
    return spec, feats, risk


def features(spec):
    """Syntactic features and risk features of a spec."""
    from .ref import _walk
    feats, risk = set(), set()
    node_list, edge_list = _walk(spec['circ'])
    ops = spec['ops']
    nt_of = dict(node_list)
    depth = max(n.count('/') for n, _ in node_list) if node_list else 0
    feats.add(f'depth{depth}')
    feats.add(f'nodes{min(len(node_list), 8)}')
    if edge_list:
        feats.add('edges')
    pair = {}
    tgt_srcs = {}
    for s, t, et, a in edge_list:
        pair[(s, t)] = pair.get((s, t), 0) + 1
        tgt_srcs.setdefault(t, []).append(s)
        if a.get('weight', 1.0) == 1.0:
            feats.add('weight_one')
        if 'weight' not in a:
            feats.add('weight_attribute_omitted')
        if abs(a.get('weight', 1.0)) < 1e-4:
            feats.add('weight_tiny')
        if et:
            feats.add('edge_template')
        if a.get('delay'):
            feats.add('delay')
        if a.get('spread'):
            feats.add('spread')
    tpair = {}
    for s, t, et, a in edge_list:
        if et:
            tpair[(s, t, et)] = tpair.get((s, t, et), 0) + 1
    if any(v > 1 for v in tpair.values()):
        risk.add('parallel_templated_edges')
    okeys = {}
    for s, t, et, a in edge_list:
        if et:
            okeys.setdefault(et, set()).add(frozenset(k for k in a if k not in ('weight', 'delay', 'spread')))
    if any(len(v) > 1 for v in okeys.values()):
        risk.add('mixed_template_overrides')
    second = {}
    for s, t, et, a in edge_list:
        if et:
            for k, v in a.items():
                if isinstance(v, str) and v != 'source':
                    second.setdefault((et, k), set()).add(tuple(v.rsplit('/', 2)[1:]))
    if any(len(v) > 1 for v in second.values()):
        risk.add('edge_second_input_varies')
    if any(v > 1 for v in pair.values()):
        risk.add('parallel_edges')
        feats.add('parallel_edges')
    for t, ss in tgt_srcs.items():
        by_node = {}
        for s in ss:
            by_node.setdefault(s.rsplit('/', 2)[0], set()).add(s)
        if any(len(v) > 1 for v in by_node.values()):
            risk.add('fanin_two_vars_same_node')
        if len(by_node) > 1:
            feats.add('fanin_several_nodes')
        if len(ss) > 1:
            feats.add('fanin')
    for s, t, et, a in edge_list:
        if s.rsplit('/', 1)[1] == t.rsplit('/', 1)[1]:
            risk.add('edge_same_name_src_tgt')
    # self connection
    for s, t, et, a in edge_list:
        if s.rsplit('/', 2)[0] == t.rsplit('/', 2)[0]:
            feats.add('self_connection')
    # per node: multi-driven inputs
    edge_targets = set(tgt_srcs)
    for path, nt in node_list:
        names = spec['node_types'][nt]['ops']
        outs = {}
        for n in names:
            for v, (vk, _) in ops[n]['vars'].items():
                if vk == 'out':
                    outs.setdefault(v, []).append(n)
        for n in names:
            ins = [v for v, (vk, _) in ops[n]['vars'].items() if vk == 'in']
            multi = []
            for v in ins:
                nsrc = len([o for o in outs.get(v, []) if o != n]) + (1 if f'{path}/{n}/{v}' in edge_targets else 0)
                if nsrc >= 2:
                    multi.append(v)
                if nsrc >= 1 and len([o for o in outs.get(v, []) if o != n]):
                    feats.add('intra_node_link')
            if multi:
                feats.add('multi_driven_input')
                if len(ins) >= 2:
                    risk.add('op_two_inputs_one_multi_driven')
        if len(names) > 1:
            feats.add('multi_op_node')
    # names
    allnames = set()
    count = {}
    for path, nt in node_list:
        for n in spec['node_types'][nt]['ops']:
            for v in ops[n]['vars']:
                allnames.add(v)
                count[v] = count.get(v, 0) + 1
    for v in allnames:
        # names that look like the local names / labels that generated in_edge operators use for weights, sources
        # and targets (weight, weight_in0, m_in2, k_source0): open finding when the model has edges
        if edge_list and (re.match(r'^weight(_in\d+)?$', v) or re.search(r'_in\d+$', v) or re.search(r'_source\d+$', v)):
            risk.add('name_like_edge_local')
        # names that look like derived labels (x_v1, x_num1): open finding when an input is multiply driven
        if re.search(r'_(v|num)\d+$', v):
            feats.add('name_like_derived_label')
    for v in allnames:
        m = re.match(r'^(.*)_v(\d+)$', v)
        if m:
            feats.add('name_like_generated')
            if count.get(m.group(1), 0) >= 1:
                risk.add('user_name_like_generated')
        if re.match(r'^(.*)_in(\d+)$', v) or v.startswith('weight'):
            feats.add('name_like_in_edge')
    for a in allnames:
        for b in allnames:
            if a != b and a in b:
                feats.add('names_contain_one_another')
    if 'name_like_derived_label' in feats and 'multi_driven_input' in feats:
        risk.add('derived_label_name_with_multi_driven_input')
    if any(nt.get('over') for nt in spec['node_types'].values()):
        feats.add('node_type_overrides')
    # same type several nodes
    tc = {}
    struct = {}
    for _, nt in node_list:
        struct[nt] = tuple(spec['node_types'][nt]['ops'])     # nodes with the same operators are merged by vectorization
        tc[struct[nt]] = tc.get(struct[nt], 0) + 1
    if any(v > 1 for v in tc.values()):
        feats.add('several_nodes_per_type')
    if any(any(e[0] == 'alg' for e in o['eqs']) for o in ops.values()):
        feats.add('algebraic_vars')
    # vectorization risk: a merged node type where an input var is edge-driven on some nodes but not on others
    for st, cnt in tc.items():
        if cnt < 2:
            continue
        members = [p for p, t in node_list if struct[t] == st]
        for n in st:
            for v, (vk, _) in ops[n]['vars'].items():
                if vk == 'in':
                    driven = [f'{p}/{n}/{v}' in edge_targets for p in members]
                    if any(driven) and not all(driven):
                        risk.add('vec_partial_input_default')
    return sorted(feats), sorted(risk)


EDGE_SHAPES = ['lin', 'sat', 'tanh', 'two_op', 'offset', 'two_in', 'two_in']


def add_edge_templates(spec, rnd, frac=0.6, n_templates=None, names='plain', mixed_overrides=False, bind_second=True, shapes=None):
    """Turn a random subset of the plain (template-less, undelayed) edges of `spec` into templated edges: algebraic edge
    operators with one free input, one output and constants that are overridden per edge with unique values.
    names='plain': edge-local variable names that occur nowhere else; 'shared': names that node operators use too."""
    import copy
    spec = copy.deepcopy(spec)
    vals = Vals(rnd)
    for o in spec['ops'].values():
        for v, (vk, val) in o['vars'].items():
            vals.used.add(val)
    for nt in spec['node_types'].values():
        for ov in nt.get('over', {}).values():
            vals.used.update(ov.values())
    n_templates = n_templates or rnd.choice([1, 1, 2, 3])
    spec.setdefault('edge_types', {})
    ets = []
    for i in range(n_templates):
        shape = rnd.choice(shapes or EDGE_SHAPES)
        if names == 'plain':
            xin, out, g, y, c = f'xe{i}', f'me{i}', f'ge{i}', f'ye{i}', f'ce{i}'
        else:
            xin, out, g, y, c = rnd.choice(['x', 'r', 'r_in', 's']), rnd.choice(['m', 'v', 'r_out']), rnd.choice(['g', 'k', 'w']), 'yv', 'c'
            if out == xin:
                out = 'm'
        opn = f'eop{i}'
        X, G = E.var(xin), E.var(g)
        # (sometimes declared with an integer default, as a YAML `g: 2` yields; the per-edge values are floats all the same)
        consts = {g: ['const', vals.new() if rnd.random() < 0.55 else rnd.choice([1, 2, 3])]}
        if shape == 'lin':
            eqs = [['alg', out, E.mul(G, X)]]
        elif shape == 'sat':
            eqs = [['alg', out, E.div(E.mul(G, X), E.add(E.num(1.0), E.mul(X, X)))]]
        elif shape == 'tanh':
            eqs = [['alg', out, E.mul(G, ('call', 'tanh', X))]]
        elif shape == 'offset':
            consts[c] = ['const', vals.new()]
            eqs = [['alg', out, E.add(E.mul(G, X), E.var(c))]]
        if shape == 'two_in':
            # second input mapped to a node variable by an explicit path (e.g. diffusive coupling g*(x_source - x_target))
            xp = f'xp{i}' if names == 'plain' else 'x_post'
            spec['ops'][opn] = {'eqs': [['alg', out, E.tolist(E.mul(G, E.sub(X, E.var(xp))))]],
                                'vars': {out: ['out', 0.0], xin: ['in', 0.0], xp: ['in', 0.0], g: ['const', vals.new()]}}
            spec['edge_types'][f'et{i}'] = {'ops': [opn], 'over': {}}
            ets.append((f'et{i}', [(opn, g)], xin, (opn, xp)))
            continue
        if shape == 'two_op':
            opa = f'eopa{i}'
            spec['ops'][opa] = {'eqs': [['alg', y, E.tolist(E.mul(E.var(c), X))]],
                                'vars': {y: ['out', 0.0], xin: ['in', 0.0], c: ['const', vals.new()]}}
            spec['ops'][opn] = {'eqs': [['alg', out, E.tolist(E.mul(G, ('call', 'sin', E.var(y))))]],
                                'vars': {out: ['out', 0.0], y: ['in', 0.0], g: ['const', vals.new()]}}
            spec['edge_types'][f'et{i}'] = {'ops': [opa, opn], 'over': {}}
            ets.append((f'et{i}', [(opa, c), (opn, g)], xin, None))
        else:
            v = {out: ['out', 0.0], xin: ['in', 0.0]}
            v.update(consts)
            spec['ops'][opn] = {'eqs': [[k, l, E.tolist(x)] for k, l, x in eqs], 'vars': v}
            spec['edge_types'][f'et{i}'] = {'ops': [opn], 'over': {}}
            ets.append((f'et{i}', [(opn, k) for k in consts], xin, None))

    overridden = {(et, opn, k): rnd.random() < 0.8 for et, params, _, _ in ets for opn, k in params}
    bound = {}

    def visit(c):
        for e in c.get('edges', []):
            if e[2] is None and not e[3].get('delay') and rnd.random() < frac:
                et, params, xin, second = rnd.choice(ets)
                if e[0].rsplit('/', 1)[1] == xin:
                    continue    # PyRates rejects an edge input variable named like the source variable (documented)
                if second is not None:
                    # map the second input to a state variable of the target node (path relative to this circuit)
                    tnode = e[1].rsplit('/', 2)[0]
                    cur = c
                    parts = tnode.split('/')
                    try:
                        for p_ in parts[:-1]:
                            cur = cur['subs'][p_]
                        nt = spec['node_types'][cur['nodes'][parts[-1]]]
                    except KeyError:
                        continue
                    svars = [(o_, e_[1]) for o_ in nt['ops'] for e_ in spec['ops'][o_]['eqs'] if e_[0] == 'de']
                    if not svars:
                        continue
                    # one template reads the SAME variable of every target node it is used on (one node structure per template)
                    if et not in bound:
                        bound[et] = (tuple(nt['ops']),) + rnd.choice(svars)
                    if bound[et][0] != tuple(nt['ops']):
                        continue
                    o_, v_ = bound[et][1:] if bind_second else rnd.choice(svars)
                    e[3][f'{et}/{second[0]}/{xin}'] = 'source'
                    e[3][f'{et}/{second[0]}/{second[1]}'] = f'{tnode}/{o_}/{v_}'
                e[2] = et
                for opn, k in params:
                    # all edges through one template carry the same set of override keys unless mixed_overrides
                    if (rnd.random() < 0.6) if mixed_overrides else overridden[(et, opn, k)]:
                        e[3][f'{opn}/{k}'] = vals.new()
        for sub in c.get('subs', {}).values():
            visit(sub)

    visit(spec['circ'])
    return spec


def individualize(spec, rnd, params='different', vals=None):
    """Give every node its own node type (same operators, hence same structure for vectorization) whose overrides
    make all initial values unique per node and, if params == 'different', all constants unique per node.
    With params == 'equal' all nodes of a type keep the declared constants (constant-collapse path)."""
    from .ref import _walk
    import copy
    spec = copy.deepcopy(spec)
    vals = vals or Vals(rnd)
    for o in spec['ops'].values():
        for v, (vk, val) in o['vars'].items():
            vals.used.add(val)
    new_types = {}

    def visit(c):
        for lab, nt in list(c['nodes'].items()):
            base = spec['node_types'][nt]
            over = copy.deepcopy(base.get('over', {}))
            for opn in base['ops']:
                op = spec['ops'][opn]
                de = {e[1] for e in op['eqs'] if e[0] == 'de'}
                for v, (vk, val) in op['vars'].items():
                    if v in de:
                        over.setdefault(opn, {})[v] = vals.new()
                    elif vk == 'const' and params == 'different':
                        over.setdefault(opn, {})[v] = vals.new()
            name = f"{nt}__{lab}"
            new_types[name] = {'ops': list(base['ops']), 'over': over}
            c['nodes'][lab] = name
        for sub in c['subs'].values():
            visit(sub)

    visit(spec['circ'])
    spec['node_types'] = new_types
    return spec


def gen_shared_op_net(rnd):
    """Two or three node TYPES that share one operator template (the usual way models are written: several populations use the same
    rate-to-potential operator) and differ in a second, type-specific operator.  4-8 nodes in interleaved declaration order, so that a
    wildcard path over the shared operator addresses nodes of several vectorization groups alternately.  Returns a spec."""
    vals = Vals(rnd)
    n_types = rnd.choice([2, 2, 3])
    cop = {'eqs': [['de', 'x', ['add', ['add', ['neg', ['mul', ['var', 'a'], ['var', 'x']]], ['var', 'inp']],
                                ['mul', ['num', round(rnd.uniform(0.3, 1.5), 3)], ['call', 'tanh', ['var', 'x']]]]]],
           'vars': {'x': ['out', vals.new()], 'a': ['const', vals.new()], 'inp': ['in', 0.0]}}
    ops = {'cop': cop}
    node_types = {}
    for ti in range(n_types):
        names = ['cop']
        if ti > 0 or rnd.random() < 0.3:
            # type-specific operator that reads the shared operator's output (intra-node link by name)
            f = ['tanh', 'sin', 'sigmoid'][ti % 3]
            ops[f'sop{ti}'] = {'eqs': [['de', 'v', ['add', ['neg', ['mul', ['var', 'b'], ['var', 'v']]],
                                                  ['mul', ['num', round(rnd.uniform(0.5, 1.5), 3)], ['call', f, ['var', 'x']]]]]],
                               'vars': {'v': ['out', vals.new()], 'b': ['const', vals.new()], 'x': ['in', 0.0]}}
            names.append(f'sop{ti}')
        node_types[f'st{ti}'] = {'ops': names, 'over': {}}
    n_nodes = rnd.randint(max(4, n_types + 1), 8)
    labels = rnd.sample(['p1', 'p2', 'p3', 'p4', 'q5', 'q6', 'r7', 'r8', 'a9'], n_nodes)
    types = [f'st{i % n_types}' for i in range(n_nodes)]
    if rnd.random() < 0.5:
        rnd.shuffle(types)
        for ti in range(n_types):                    # every type occurs
            types[ti] = f'st{ti}'
    nodes = dict(zip(labels, types))
    edges = []
    for _ in range(rnd.randint(0, 3)):
        s_, t_ = rnd.choice(labels), rnd.choice(labels)
        if any(e[0].startswith(s_ + '/') and e[1].startswith(t_ + '/') for e in edges):
            continue
        edges.append([f'{s_}/cop/x', f'{t_}/cop/inp', None, {'weight': vals.new()}])
    spec = {'ops': ops, 'node_types': node_types, 'edge_types': {}, 'circ': {'name': 'top', 'nodes': nodes, 'subs': {}, 'edges': edges}}
    return individualize(spec, rnd, params=rnd.choice(['different', 'different', 'equal']), vals=vals)


def gen_fanout_net(rnd, n_target_types=None):
    """One source node type (1-3 nodes, state x) whose variable x projects to the nodes of three or four DIFFERENT target node types
    (1-3 nodes each): in a vectorized build the edges leaving the (merged) source variable form one edge group per target type.
    Edges carry no attributes other than a weight; callers add delays.  Returns a spec."""
    vals = Vals(rnd)
    ops = {'sop': {'eqs': [['de', 'x', ['add', ['neg', ['mul', ['var', 'a'], ['var', 'x']]],
                                       ['mul', ['num', round(rnd.uniform(0.5, 1.5), 3)], ['call', 'sin', ['mul', ['num', round(rnd.uniform(1.0, 3.0), 3)], ['var', 'x']]]]]]],
                   'vars': {'x': ['out', vals.new()], 'a': ['const', vals.new()]}}}
    node_types = {'src': {'ops': ['sop'], 'over': {}}}
    nt = n_target_types or rnd.choice([3, 3, 4])
    for ti in range(nt):
        f = ['tanh', 'sin', 'sigmoid', 'cos'][ti % 4]
        ops[f'top{ti}'] = {'eqs': [['de', 'r', ['add', ['add', ['neg', ['mul', ['var', 'b'], ['var', 'r']]], ['var', 'inp']],
                                              ['mul', ['num', round(rnd.uniform(0.2, 0.9), 3)], ['call', f, ['var', 'r']]]]]],
                           'vars': {'r': ['out', vals.new()], 'b': ['const', vals.new()], 'inp': ['in', 0.0]}}
        node_types[f'tg{ti}'] = {'ops': [f'top{ti}'], 'over': {}}
    labels = ['a0', 'a1', 'a2', 'b0', 'b1', 'b2', 'c0', 'c1', 'c2', 'd0', 'd1', 'd2', 'e0', 'e1', 'e2']
    nodes = {}
    srcs = [f'a{i}' for i in range(rnd.choice([1, 2, 2, 3]))]
    for lab in srcs:
        nodes[lab] = 'src'
    tgs = []
    for ti in range(nt):
        grp = [f'{"bcde"[ti]}{i}' for i in range(rnd.choice([1, 1, 2, 3]))]
        for lab in grp:
            nodes[lab] = f'tg{ti}'
        tgs.append(grp)
    if rnd.random() < 0.5:
        items = list(nodes.items())
        rnd.shuffle(items)
        nodes = dict(items)
    edges = []
    for ti, grp in enumerate(tgs):
        chosen = False
        for t_ in grp:
            for s_ in srcs:
                if rnd.random() < 0.6 or (not chosen and (t_, s_) == (grp[-1], srcs[-1])):
                    edges.append([f'{s_}/sop/x', f'{t_}/top{ti}/inp', None, {'weight': vals.new()}])
                    chosen = True
    rnd.shuffle(edges)
    spec = {'ops': ops, 'node_types': node_types, 'edge_types': {}, 'circ': {'name': 'top', 'nodes': nodes, 'subs': {}, 'edges': edges}}
    return individualize(spec, rnd, params=rnd.choice(['different', 'equal']), vals=vals)


def gen_ring_net(rnd, n=None):
    """4-7 structurally identical nodes wired ONE-TO-ONE by a permutation without fixed points (a ring in scrambled order, or several
    cycles): every node sends one edge and receives one.  In a vectorized build (and in every parameter sweep) these edges form one
    group whose source / target index lists are permutations of 0..n-1.  Returns a spec."""
    vals = Vals(rnd)
    n = n or rnd.randint(4, 7)
    ops = {'rop': {'eqs': [['de', 'x', ['add', ['add', ['neg', ['mul', ['var', 'a'], ['var', 'x']]], ['var', 'inp']],
                                       ['mul', ['num', round(rnd.uniform(0.3, 1.2), 3)], ['call', 'tanh', ['mul', ['var', 'g'], ['var', 'x']]]]]]],
                   'vars': {'x': ['out', vals.new()], 'a': ['const', vals.new()], 'g': ['const', vals.new()], 'inp': ['in', 0.0]}}}
    labels = rnd.sample(['a', 'b', 'c', 'd', 'e', 'f', 'g', 'h'], n)
    if rnd.random() < 0.5:
        labels = sorted(labels)
    for _ in range(200):
        perm = list(range(n))
        rnd.shuffle(perm)
        if all(perm[i] != i for i in range(n)):
            break
    if rnd.random() < 0.5:
        # ring through the nodes in scrambled order with the first and the last node keeping their places in the index lists
        inner = list(range(1, n - 1))
        rnd.shuffle(inner)
        order = [0] + inner + [n - 1]
        perm = [None] * n
        for i in range(n):
            perm[order[i]] = order[(i + 1) % n]
    edges = [[f'{labels[i]}/rop/x', f'{labels[perm[i]]}/rop/inp', None, {'weight': vals.new()}] for i in range(n)]
    if rnd.random() < 0.6:
        rnd.shuffle(edges)
    spec = {'ops': ops, 'node_types': {'rt': {'ops': ['rop'], 'over': {}}}, 'edge_types': {},
            'circ': {'name': 'top', 'nodes': {lab: 'rt' for lab in labels}, 'subs': {}, 'edges': edges}}
    return individualize(spec, rnd, params='different', vals=vals)


def gen_chained_names_net(rnd):
    """An operator that declares a variable X BEFORE a variable X_v1 (both its own), next to another operator that also has a
    variable X and is parsed earlier: PyRates renames the second X to X_v1 and must rename the user's X_v1 as well (X_v1_v1) without
    confusing the two.  One or two nodes; returns a spec."""
    vals = Vals(rnd)
    X = rnd.choice(['x', 'r', 'q', 'tau'])
    Y = f'{X}_v1'
    kind_x = rnd.choice(['const', 'const', 'state'])
    opa = {'eqs': [['de', X, ['add', ['neg', ['mul', ['var', 'a'], ['var', X]]],
                              ['mul', ['num', round(rnd.uniform(0.3, 1.2), 3)], ['call', 'tanh', ['var', X]]]]]],
           'vars': {X: ['out', vals.new()], 'a': ['const', vals.new()]}}
    eqs_b = [['de', Y, ['add', ['neg', ['mul', ['var', X], ['var', Y]]],
                        ['mul', ['num', round(rnd.uniform(0.3, 1.2), 3)], ['call', 'sin', ['mul', ['var', 'c'], ['var', Y]]]]]]]
    vars_b = {}
    vars_b[X] = ['const', vals.new()] if kind_x == 'const' else ['var', vals.new()]
    vars_b[Y] = ['out', vals.new()]
    vars_b['c'] = ['const', vals.new()]
    if kind_x == 'state':
        eqs_b.append(['de', X, ['add', ['neg', ['mul', ['var', 'c'], ['var', X]]], ['mul', ['num', 0.5], ['var', Y]]]])
    opb = {'eqs': eqs_b, 'vars': vars_b}
    ops = {'opa0': opa, 'opb1': opb}
    if rnd.random() < 0.5:
        node_types = {'nt0': {'ops': ['opa0', 'opb1'], 'over': {}}}
        nodes = {'n0': 'nt0'} if rnd.random() < 0.5 else {'n0': 'nt0', 'n1': 'nt0'}
    else:
        node_types = {'nt0': {'ops': ['opa0'], 'over': {}}, 'nt1': {'ops': ['opb1'], 'over': {}}}
        nodes = {'n0': 'nt0', 'n1': 'nt1'}
    spec = {'ops': ops, 'node_types': node_types, 'edge_types': {}, 'circ': {'name': 'top', 'nodes': nodes, 'subs': {}, 'edges': []}}
    return individualize(spec, rnd, params='different', vals=vals)
