"""spec -> PyRates template objects (Python frontend) or YAML text."""
from . import expr as E


def fmt_val(v):
    return repr(float(v))


def eq_text(kind, lhs, ex, style=None):
    style = style or {}
    ex = E.fromlist(ex) if isinstance(ex, list) else ex
    rhs = E.to_str(ex, pow_sym=style.get('pow', '**'), sp=style.get('sp', ' '), paren=style.get('paren', False))
    if kind == 'de':
        if style.get('de', 'ddt') == 'ddt':
            return f"d/dt * {lhs} = {rhs}"
        return f"{lhs}' = {rhs}"
    return f"{lhs} = {rhs}"


def var_decl(vk, val):
    if vk == 'out':
        return f"output({fmt_val(val)})"
    if vk == 'var':
        return f"variable({fmt_val(val)})"
    if vk == 'in':
        return f"input({fmt_val(val)})"
    if isinstance(val, int) and not isinstance(val, bool):
        return val          # a constant declared with an integer default (k: 2)
    return float(val)


def op_kwargs(name, op, style=None):
    eqs = [eq_text(k, l, ex, (style or {}).get(name, style)) for k, l, ex in op['eqs']]
    variables = {v: var_decl(vk, val) for v, (vk, val) in op['vars'].items()}
    return dict(name=name, equations=eqs, variables=variables)


def build_python(spec, style=None, share=True):
    """Return (CircuitTemplate, objects dict). share: node types / operators are shared objects."""
    from pyrates import OperatorTemplate, NodeTemplate, CircuitTemplate, EdgeTemplate
    objs = {'ops': {}, 'nts': {}, 'ets': {}}

    def get_op(name):
        if share and name in objs['ops']:
            return objs['ops'][name]
        o = OperatorTemplate(**op_kwargs(name, spec['ops'][name], style))
        objs['ops'][name] = o
        return o

    def get_nt(name, cls, table, store):
        if share and name in objs[store]:
            return objs[store][name]
        nt = spec[table][name]
        over = nt.get('over', {})
        if over:
            operators = {get_op(o): dict(over.get(o, {})) for o in nt['ops']}
        else:
            operators = [get_op(o) for o in nt['ops']]
        t = cls(name=name, operators=operators)
        objs[store][name] = t
        return t

    shared = {}

    def circ(c):
        tag = c.get('__share')
        if tag is not None and share and tag in shared:
            return shared[tag]           # the very same CircuitTemplate object is used for several sub-circuits
        t = _circ(c)
        if tag is not None:
            shared[tag] = t
        return t

    def _circ(c):
        edges = []
        for src, tgt, et, attrs in c.get('edges', []):
            tmpl = get_nt(et, EdgeTemplate, 'edge_types', 'ets') if et else None
            edges.append((src, tgt, tmpl, dict(attrs)))
        # (the edge lists handed to the constructors, in construction order: a check may build a second circuit from the very same
        # list and attribute dictionary objects)
        objs.setdefault('edge_lists', []).append(edges)
        if c.get('subs'):
            return CircuitTemplate(name=c['name'], circuits={k: circ(v) for k, v in c['subs'].items()}, edges=edges)
        nodes = {k: get_nt(v, NodeTemplate, 'node_types', 'nts') for k, v in c['nodes'].items()}
        return CircuitTemplate(name=c['name'], nodes=nodes, edges=edges)

    top = circ(spec['circ'])
    for upd in spec.get('updates', []):
        import numpy as np
        val = upd[1]
        if isinstance(val, (list, tuple)):
            val = np.asarray(val, dtype=float)
        top.update_var(node_vars={upd[0]: val})
    if spec.get('edge_updates'):
        top.update_var(edge_vars=[(s_, t_, dict(a_)) for s_, t_, a_ in spec['edge_updates']])
    return top, objs


def node_values_kw(spec):
    import numpy as np
    nv = {}
    for path, val in spec.get('node_values', {}).items():
        nv[path] = np.asarray(val, dtype=float) if isinstance(val, (list, tuple)) else val
    return nv


def build_yaml_text(spec, style=None):
    """Emit a YAML document defining all templates of the spec.  Returns (text, top_template_name)."""
    lines = ["%YAML 1.2", "---", ""]

    def q(s):
        return '"' + s.replace('"', '\\"') + '"'

    for name, op in spec['ops'].items():
        kw = op_kwargs(name, op, style)
        lines.append(f"{name}:")
        lines.append("  base: OperatorTemplate")
        lines.append("  equations:")
        for eq in kw['equations']:
            lines.append(f"    - {q(eq)}")
        lines.append("  variables:")
        for v, d in kw['variables'].items():
            lines.append(f"    {v}: {d}")
        lines.append("")
    for table, base in (('node_types', 'NodeTemplate'), ('edge_types', 'EdgeTemplate')):
        for name, nt in spec.get(table, {}).items():
            lines.append(f"{name}:")
            lines.append(f"  base: {base}")
            lines.append("  operators:")
            over = nt.get('over', {})
            if over:
                for o in nt['ops']:
                    ov = over.get(o, {})
                    if ov:
                        lines.append(f"    {o}:")
                        for v, val in ov.items():
                            lines.append(f"      {v}: {fmt_val(val)}")
                    else:
                        lines.append(f"    {o}: {{}}")
            else:
                for o in nt['ops']:
                    lines.append(f"    - {o}")
            lines.append("")

    counter = [0]
    out_circuits = []

    shared_names = {}

    def circ(c, top=False):
        tag = c.get('__share')
        if tag is not None and tag in shared_names:
            return shared_names[tag]         # one template referenced under several keys (the loader hands out one object)
        name = c['name'] if top else f"{c['name']}_t{counter[0]}"
        counter[0] += 1
        if tag is not None:
            shared_names[tag] = name
        sub_names = {}
        for k, v in c.get('subs', {}).items():
            sub_names[k] = circ(v)
        l = [f"{name}:", "  base: CircuitTemplate"]
        if c.get('subs'):
            l.append("  circuits:")
            for k, n in sub_names.items():
                l.append(f"    {k}: {n}")
        else:
            l.append("  nodes:")
            for k, v in c['nodes'].items():
                l.append(f"    {k}: {v}")
        if c.get('edges'):
            l.append("  edges:")
            for src, tgt, et, attrs in c['edges']:
                a = ", ".join(f"{k if '/' not in k else q(k)}: {fmt_val(v) if not isinstance(v, str) else q(v)}"
                              for k, v in attrs.items())
                l.append(f"    - [{src}, {tgt}, {et if et else 'null'}, {{{a}}}]")
        l.append("")
        out_circuits.append(l)
        return name

    top = circ(spec['circ'], top=True)
    for l in out_circuits:
        lines += l
    return "\n".join(lines) + "\n", top
