"""Monitors installed by wrapping live PyRates callables (no edit of /repo).

State is process-local (every case runs in its own forked child), single-threaded."""
import functools

import numpy as np

_state = {'installed': False, 'counters': {}, 'violations': [], 'events': [], 'trace': None, 'src': []}


def reset():
    _state['counters'] = {}
    _state['violations'] = []
    _state['events'] = []
    _state['src'] = []
    _state['vec_alloc'] = {}


def collect():
    return {'counters': dict(_state['counters']), 'violations': list(_state['violations']),
            'events': list(_state['events']), 'src': list(_state['src'])}


def _cnt(k, n=1):
    _state['counters'][k] = _state['counters'].get(k, 0) + n


def _viol(msg):
    if len(_state['violations']) < 10:
        _state['violations'].append(msg)


def _event(ev):
    # (M-delay events are few hundred bytes each and a consumer compares their complete set: no cap for them)
    if len(_state['events']) < 400 or (ev and ev[0] == 'mdelay' and len(_state['events']) < 20000):
        _state['events'].append(ev)


def _nconn(weight):
    if isinstance(weight, np.ndarray):
        if weight.ndim == 2:
            return int(np.count_nonzero(weight))
        if weight.ndim == 0:
            return 1
        return int(weight.size)
    if isinstance(weight, (list, tuple)):
        return len(weight)
    return 1


def _wsum(weight):
    try:
        return float(np.sum(np.asarray(weight, dtype=float)))
    except Exception:
        return float('nan')


def install():
    if _state['installed']:
        return
    _state['installed'] = True
    from pyrates.ir import circuit as irc
    from pyrates.backend import computegraph as cgm

    NG = irc.NetworkGraph

    # ---- M-edge: exactly-once accounting between add_edge (producer) and _generate_edge_equation (consumer) ----
    orig_add_edge = NG.add_edge

    @functools.wraps(orig_add_edge)
    def add_edge(self, source, target, edge_ir=None, weight=1., delay=None, spread=None, **data):
        n = _nconn(weight)
        _cnt('medge_connections', n)
        st = self.__dict__.setdefault('_vp_edge_acc', {'added': 0, 'wsum_added': 0.0, 'generated': 0, 'wsum_gen': 0.0})
        st['added'] += n
        st['wsum_added'] += _wsum(weight)
        _event(('add_edge', source, target, n))
        return orig_add_edge(self, source, target, edge_ir=edge_ir, weight=weight, delay=delay, spread=spread, **data)

    NG.add_edge = add_edge

    orig_gen = NG._generate_edge_equation

    @functools.wraps(orig_gen)
    def gen_eq(self, tnode, top, tvar, inputs, **kw):
        st = self.__dict__.setdefault('_vp_edge_acc', {'added': 0, 'wsum_added': 0.0, 'generated': 0, 'wsum_gen': 0.0})
        for snode, info in inputs.items():
            n = _nconn(info['weight'])
            st['generated'] += n
            st['wsum_gen'] += _wsum(info['weight'])
            _cnt('medge_generated', n)
        before = set(self[tnode].op_graph.nodes) if hasattr(self[tnode], 'op_graph') else set()
        r = orig_gen(self, tnode, top, tvar, inputs, **kw)
        try:
            new_ops = [o for o in self[tnode].op_graph.nodes if o not in before]
            for o in new_ops:
                eqs = self[tnode].op_graph.nodes[o].get('equations', [])
                for eq in eqs:
                    kind = 'matvec' if 'matvec(' in eq else 'wsum' if 'wsum(' in eq else 'vsum' if 'vsum(' in eq \
                        else 'indexed' if 'index(' in eq else 'sum' if '+' in eq and '*' not in eq else \
                        'weighted' if '*' in eq else 'plain'
                    _cnt('medge_eq_' + kind)
                _event(('edge_eqs', tnode, top, tvar, eqs))
        except Exception:
            pass
        return r

    NG._generate_edge_equation = gen_eq

    orig_pre = NG._preprocess_edge_operations

    @functools.wraps(orig_pre)
    def pre(self, *a, **kw):
        r = orig_pre(self, *a, **kw)
        st = self.__dict__.get('_vp_edge_acc')
        if st:
            _cnt('medge_networks')
            if st['added'] != st['generated']:
                _viol(f"M-edge: {st['added']} scalar connections were added to the network graph but "
                      f"{st['generated']} reached _generate_edge_equation (connections lost or duplicated)")
            elif abs(st['wsum_added'] - st['wsum_gen']) > 1e-9 * max(1.0, abs(st['wsum_added'])):
                _viol(f"M-edge: sum of weights added {st['wsum_added']} != sum of weights used {st['wsum_gen']}")
        return r

    NG._preprocess_edge_operations = pre

    # ---- M-label: a new compute-graph variable never takes the label of an existing node ----------------------
    CG = cgm.ComputeGraph
    for meth in ('add_var', 'add_op'):
        orig = getattr(CG, meth)

        def make(orig, meth):
            @functools.wraps(orig)
            def wrapped(self, *a, **kw):
                before = set(self.nodes) if len(self.nodes) < 5000 else None
                r = orig(self, *a, **kw)
                _cnt('mlabel_checks')
                try:
                    lab = r[0]
                    if before is not None and lab in before and lab != 't':
                        _viol(f"M-label: {meth} returned label {lab!r} which already names another compute-graph node "
                              f"(two variables alias one name)")
                except Exception:
                    pass
                return r
            return wrapped
        setattr(CG, meth, make(orig, meth))

    # ---- M-layout: state variable index ranges are disjoint and cover the state vector --------------------------
    orig_to_func = CG.to_func

    @functools.wraps(orig_to_func)
    def to_func(self, *a, **kw):
        r = orig_to_func(self, *a, **kw)
        try:
            func, args, names, idx = r
            n = int(np.asarray(args[1]).shape[0]) if np.asarray(args[1]).shape else 1
            seen = {}
            for var, ent in idx.items():
                rng = range(ent[0], ent[1]) if isinstance(ent, tuple) else [ent]
                for p in rng:
                    if p in seen:
                        _viol(f"M-layout: state variables {var} and {seen[p]} overlap at position {p}")
                    seen[p] = var
            if len(seen) != n:
                _viol(f"M-layout: state map covers {len(seen)} of {n} positions")
            _cnt('mlayout_checks')
            # signature vs returned names
            try:
                fn = self.backend._fname
                fend = self.backend._fend
                import os
                path = f"{self.backend.fdir}/{fn}{fend}" if self.backend.fdir else f"{fn}{fend}"
                if os.path.exists(path) and fend == '.py':
                    src = open(path).read()
                    _state['src'].append(src[-6000:])
                    import re
                    fname_ = a[0] if a else kw.get('func_name')
                    m = re.search(r"def %s\(([^)]*)\):" % re.escape(str(fname_)), src)
                    if m:
                        sig = [s.strip() for s in m.group(1).split(',') if s.strip()]
                        if list(sig) != list(names):
                            _viol(f"M-layout: generated signature {sig} != returned argument names {list(names)}")
                        _cnt('msignature_checks')
            except Exception:
                pass
        except Exception:
            pass
        return r

    CG.to_func = to_func


def install_vec():
    """M-vec: every frontend node receives exactly one slot range per variable in exactly one IR node; the ranges of
    the nodes merged into one IR node are pairwise disjoint and contiguous from 0."""
    if _state.get('vec_installed'):
        return
    _state['vec_installed'] = True
    import pyrates.ir.node as irn
    import pyrates.frontend.template.node as ftn
    import pyrates.frontend.template.edge as fte
    orig = irn.cache_func
    _state['vec_alloc'] = {}

    @functools.wraps(orig)
    def cache_func(label, operators, values=None, template=None, ir_class=None, **kw):
        node, changed, var_ranges = orig(label, operators, values, template, ir_class, **kw)
        _cnt('mvec_nodes')
        alloc = _state['vec_alloc'].setdefault(id(node), {'label': getattr(node, 'label', None), 'vars': {}})
        for (op, var), (lo, hi) in var_ranges.items():
            slots = alloc['vars'].setdefault((op, var), [])
            for (l2, h2, lab2) in slots:
                if lo < h2 and l2 < hi:
                    _viol(f"M-vec: nodes {lab2} and {label} overlap in the vectorized variable {op}/{var}: "
                          f"[{l2},{h2}) and [{lo},{hi})")
            expected_lo = max([h for _, h, _ in slots], default=0)
            if lo != expected_lo:
                _viol(f"M-vec: node {label} got slots [{lo},{hi}) of {op}/{var}, expected to start at {expected_lo}")
            slots.append((lo, hi, label))
            _cnt('mvec_ranges')
        if len(alloc['vars']) and any(len(v) > 1 for v in alloc['vars'].values()):
            _cnt('mvec_merges')
        return node, changed, var_ranges

    irn.cache_func = cache_func
    ftn.cache_func = cache_func
    fte.cache_func = cache_func


def install_delay():
    """M-delay: per call of _add_edge_buffer record requested (delay, spread) and the emitted chain orders / rates;
    assert mean delay order/rate == requested delay for every gamma-kernel edge."""
    if _state.get('delay_installed'):
        return
    _state['delay_installed'] = True
    from pyrates.ir import circuit as irc
    NG = irc.NetworkGraph
    orig = NG._add_edge_buffer

    @functools.wraps(orig)
    def add_edge_buffer(self, node, op, var, edges, delays, nodes, spreads=None, dde_approx=0, buffer_id=""):
        before = set(self[node][op]['variables'].keys()) if delays else set()
        r = orig(self, node, op, var, edges=edges, delays=delays, nodes=nodes, spreads=spreads, dde_approx=dde_approx,
                 buffer_id=buffer_id)
        if not delays:
            return r
        try:
            vars_ = self[node][op]['variables']
            new = {k: v for k, v in vars_.items() if k not in before}
            branch = 'ode_chain' if (spreads or dde_approx) else ('ring' if not self.step_size_adaptation else 'past')
            _cnt('mdelay_' + branch)
            if spreads:
                rates = {k: v['value'] for k, v in new.items() if k.startswith('k_d')}
                stages = {}
                for k in new:
                    m = __import__('re').match(r'^%s_d(\d+)_(\d+)' % __import__('re').escape(var), k)
                    if m:
                        stages[int(m.group(1))] = max(stages.get(int(m.group(1)), 0), int(m.group(2)))
                emitted = sorted((stages[c], float(rates.get(f'k_d{c}{buffer_id}', float('nan')))) for c in stages)
                wanted = sorted({(int(round((d / s) ** 2)), round(int(round((d / s) ** 2)) / d, 9))
                                 for d, s in zip(delays, spreads) if s and d and int(round((d / s) ** 2)) > 0})
                _event(('mdelay', node, op, var, list(delays), list(spreads), emitted))
                for n_order, rate in emitted:
                    _cnt('mdelay_chains')
                    mean = n_order / rate if rate else float('inf')
                    if not any(abs(mean - d) <= 1e-9 * max(1.0, abs(d)) for d in delays):
                        _viol(f"M-delay: emitted chain of order {n_order} and rate {rate} has mean delay {mean}, "
                              f"requested delays {list(delays)} (spreads {list(spreads)})")
                em = sorted((n, float(r_)) for n, r_ in emitted)
                wt = sorted((n, float(r_)) for n, r_ in wanted)
                same = len(em) == len(wt) and all(a[0] == b[0] and abs(a[1] - b[1]) <= 1e-7 * max(1.0, abs(b[1]))
                                                  for a, b in zip(em, wt))
                if not same:
                    _viol(f"M-delay: emitted (order, rate) chains {emitted} != required {wanted} for delays "
                          f"{list(delays)} spreads {list(spreads)}")
        except Exception as e:  # monitor must never break the run
            _cnt('mdelay_monitor_errors')
        return r

    NG._add_edge_buffer = add_edge_buffer


def reset_vec():
    _state['vec_alloc'] = {}


# ---------------------------------------------------------------------------------------------------------------------
# M-trace: call trace of the RHS inside BaseBackend.run
# ---------------------------------------------------------------------------------------------------------------------

def install_trace():
    """Wrap BaseBackend.run so that the func handed to the solver is recorded: (t, y copy, returned copy, id)."""
    from pyrates.backend.base import base_backend as bb
    if getattr(bb.BaseBackend.run, '_vp_wrapped', False):
        return
    orig_run = bb.BaseBackend.run

    @functools.wraps(orig_run)
    def run(self, func, func_args, T, dt, dts, solver, **kw):
        if type(self).__name__ != 'BaseBackend':
            # the trace records numpy copies of every call: only meaningful (and only possible) on the NumPy backend - a JAX run
            # traces the function symbolically, torch / fortran hand over their own array types
            return orig_run(self, func, func_args, T, dt, dts, solver, **kw)
        trace = []
        _state['trace'] = {'calls': trace, 'T': T, 'dt': dt, 'dts': dts, 'solver': solver,
                           'y0': np.array(func_args[1], copy=True), 't0': func_args[0]}

        def traced(t, y, *args):
            yc = np.array(y, copy=True)
            out = func(t, y, *args)
            if len(trace) < 200000:
                trace.append((float(t) if not isinstance(t, (int, np.integer)) else int(t), yc,
                              np.array(out, copy=True), id(out)))
            return out
        _cnt('mtrace_runs')
        return orig_run(self, traced, func_args, T, dt, dts, solver, **kw)

    run._vp_wrapped = True
    bb.BaseBackend.run = run


def get_trace():
    return _state['trace']
