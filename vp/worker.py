"""Zygote worker: imports pyrates + monitors once, then runs every case in a forked child (mode 'fork') or
in-process with public clear() between cases (mode 'batch', for torch/jax which cannot be forked safely)."""
import importlib
import json
import os
import select
import shutil
import signal
import sys
import tempfile
import time
import traceback
import warnings


def _run_one(mod, case, ctx):
    scratch = tempfile.mkdtemp(prefix='c', dir=os.path.join(os.environ['VERIF_WORK'], 'scratch'))
    cwd = os.getcwd()
    os.chdir(scratch)
    try:
        with warnings.catch_warnings():
            warnings.simplefilter('ignore')
            res = mod.run_case(case, ctx)
    except BaseException as e:  # noqa
        res = {'status': 'crash-harness', 'symptom': f'harness exception {type(e).__name__}: {e}',
               'detail': traceback.format_exc()[-3000:]}
    finally:
        os.chdir(cwd)
        shutil.rmtree(scratch, ignore_errors=True)
    res['idx'] = case['idx']
    res.setdefault('family', case.get('family', 'main'))
    return res


def main():
    inp, outp = sys.argv[1], sys.argv[2]
    with open(inp) as f:
        job = json.load(f)
    pid = job['pid']
    mod = importlib.import_module(f'vp.props.{pid.lower()}')
    ctx = {'tier': job['tier'], 'seed': job['seed'], 'mode': job['mode']}
    if hasattr(mod, 'warmup'):
        mod.warmup(ctx)
    timeout = getattr(mod, 'CASE_TIMEOUT', 120)
    out = open(outp, 'a')
    if job['mode'] != 'fork':
        for case in job['cases']:
            res = _run_one(mod, case, ctx)
            out.write(json.dumps(res, default=str) + '\n')
            out.flush()
        return
    for case in job['cases']:
        r, w = os.pipe()
        child = os.fork()
        if child == 0:
            os.close(r)
            try:
                res = _run_one(mod, case, ctx)
                data = json.dumps(res, default=str).encode()
            except BaseException as e:  # noqa
                data = json.dumps({'idx': case['idx'], 'status': 'crash-harness', 'symptom': repr(e)}).encode()
            try:
                with os.fdopen(w, 'wb') as fw:
                    fw.write(data)
            finally:
                os._exit(0)
        os.close(w)
        buf = b''
        deadline = time.time() + timeout
        timed_out = False
        with os.fdopen(r, 'rb') as fr:
            while True:
                left = deadline - time.time()
                if left <= 0:
                    timed_out = True
                    break
                rl, _, _ = select.select([fr], [], [], min(left, 1.0))
                if rl:
                    chunk = os.read(fr.fileno(), 1 << 16)
                    if not chunk:
                        break
                    buf += chunk
        if timed_out:
            try:
                os.kill(child, signal.SIGKILL)
            except ProcessLookupError:
                pass
        _, status = os.waitpid(child, 0)
        if timed_out:
            res = {'idx': case['idx'], 'status': 'timeout', 'symptom': f'case exceeded {timeout}s watchdog',
                   'family': case.get('family', 'main')}
        else:
            try:
                res = json.loads(buf.decode())
            except Exception:
                # the child died without reporting: attribute to the case in flight (e.g. Fortran runtime error)
                res = {'idx': case['idx'], 'status': 'violation', 'family': case.get('family', 'main'),
                       'risk': case.get('risk', []),
                       'symptom': f'process died while running the case (wait status {status})'}
        out.write(json.dumps(res, default=str) + '\n')
        out.flush()


if __name__ == '__main__':
    main()
