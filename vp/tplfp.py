"""Structural fingerprint of a PyRates template object graph (M-tpl): equations, variable dicts, operator variations,
edge tuples and attribute dicts, sub-circuits, and identity of shared objects."""
import json

import numpy as np


def _val(v):
    if isinstance(v, np.ndarray):
        return ['nd', v.shape, v.tolist()]
    if isinstance(v, (np.floating, np.integer)):
        return v.item()
    if isinstance(v, dict):
        return {str(k): _val(x) for k, x in v.items()}
    if isinstance(v, (list, tuple)):
        return [_val(x) for x in v]
    if isinstance(v, (str, int, float, bool)) or v is None:
        return v
    return repr(type(v))


def fingerprint(obj, ids=None):
    """Return a JSON-able nested structure; `ids` maps id(object) -> small integer so that sharing is part of it."""
    from pyrates.frontend.template.circuit import CircuitTemplate
    from pyrates.frontend.template.operator import OperatorTemplate
    from pyrates.frontend.template.operator_graph import OperatorGraphTemplate
    ids = {} if ids is None else ids

    def oid(o):
        if id(o) not in ids:
            ids[id(o)] = len(ids)
        return ids[id(o)]

    if obj is None:
        return None
    if isinstance(obj, OperatorTemplate):
        return {'kind': 'op', 'id': oid(obj), 'name': obj.name, 'equations': list(obj.equations),
                'variables': {k: _val(v) for k, v in obj.variables.items()}}
    if isinstance(obj, OperatorGraphTemplate):
        return {'kind': type(obj).__name__, 'id': oid(obj), 'name': obj.name,
                'operators': [[fingerprint(op, ids), _val(var)] for op, var in obj.operators.items()]}
    if isinstance(obj, CircuitTemplate):
        return {'kind': 'circuit', 'id': oid(obj), 'name': obj.name,
                'nodes': {k: fingerprint(v, ids) for k, v in obj.nodes.items()},
                'circuits': {k: fingerprint(v, ids) for k, v in obj.circuits.items()},
                'edges': [[e[0], e[1], fingerprint(e[2], ids), _val(e[3])] for e in obj.edges],
                'n_edge_map': len(getattr(obj, '_edge_map', {}))}
    return repr(type(obj))


def dumps(fp):
    return json.dumps(fp, sort_keys=True, default=str)


def diff(a, b, path=''):
    """first difference between two fingerprints (human readable)"""
    if type(a) != type(b):
        return f"{path}: {a!r} -> {b!r}"
    if isinstance(a, dict):
        for k in sorted(set(a) | set(b), key=str):
            if k not in a:
                return f"{path}/{k}: added {str(b[k])[:120]}"
            if k not in b:
                return f"{path}/{k}: removed"
            d = diff(a[k], b[k], f"{path}/{k}")
            if d:
                return d
        return None
    if isinstance(a, list):
        if len(a) != len(b):
            return f"{path}: length {len(a)} -> {len(b)}"
        for i, (x, y) in enumerate(zip(a, b)):
            d = diff(x, y, f"{path}[{i}]")
            if d:
                return d
        return None
    if a != b:
        return f"{path}: {a!r} -> {b!r}"
    return None
