"""C14 - Read-only and copy-making operations leave a template unchanged."""
import copy
import json
import os
import random

import numpy as np

from vp import gen, observe, monitors, build, tplfp
from vp.ref import RefModel
from vp.runner import open_risks, stable_hash

PID = 'C14'
LEVEL = 'exploration'
RULE = ("seeded templates (flat and hierarchical, shared operator / node template objects, per-node overrides, edges defined at "
        "several levels) x random sequences (length 2-7) over the operations the property lists: get_run_func / "
        "get_jacobian_func / run with in_place=False, get_nodes, get_edges, get_edge, collect_edges, get_node_template, "
        "__getitem__, to_yaml, deepcopy, update_template (not in place) of the circuit (with added edges, or unchanged and followed by update_var on an edge and a node variable of the derived circuit), of its operator templates (list / replace / variables forms) and of its node templates (followed by update_var on the derived template); after every operation the structural fingerprint (M-tpl) "
        "of the template, of all operator / node templates it is built from and of a sibling circuit sharing those objects "
        "must be unchanged; at the end the vector field must still equal the reference model and two run(in_place=False) calls "
        "must return identical frames equal to the reference trajectory; non-trivial = sequence contains >= 1 compile and >= 1 "
        "getter/dump; distinct = distinct (spec, sequence) hash")
DECIDING = ['fingerprint_checks', 'final_vf_checks', 'repeat_run_checks', 'op_get_edges', 'op_to_yaml', 'op_get_run_func', 'op_run',
            'op_deepcopy', 'op_update_template', 'op_collect_edges', 'op_get_jacobian_func', 'op_op_update_template', 'op_nt_update_template', 'input_runs_compared', 'derived_circuit_edge_modified']
ASSUMPTIONS = ['the CircuitTemplate.state carry-over (final state of the last simulation) is documented statefulness and not part '
               'of the fingerprint; behaviour is compared at given states, not through the remembered initial state']
CASE_TIMEOUT = 120
FOCUS = ['compile_mixed_vectorize', 'to_yaml_with_variations']
OPS = ['get_run_func', 'get_jacobian_func', 'run', 'get_nodes', 'get_edges', 'get_edge', 'collect_edges', 'get_node_template',
       'getitem', 'to_yaml', 'deepcopy', 'update_template', 'op_update_template', 'nt_update_template', 'run_input', 'run_input', 'derive_circuit', 'derive_circuit']


def plan(tier, seed):
    rnd = random.Random(f'{PID}-{seed}')
    n = 200 if tier == 'quick' else 5000
    cases = [{'family': 'main', 'cseed': rnd.randrange(1 << 30)} for _ in range(n)]
    opened = open_risks(PID)
    k = 10 if tier == 'quick' else 100
    for feat in FOCUS:
        fam = 'probe:' + feat if feat in opened else 'main'
        cases += [{'family': fam, 'cseed': rnd.randrange(1 << 30), 'want': feat} for _ in range(k)]
    # update_var / node_values on one of two circuits that were built from the same PopulationTemplate / Connectivity containers
    # (or derived with update_template): the other circuit and the shared population objects must stay what they were (machinery of C16 / C07)
    cases += [{'family': 'population_sibling', 'cseed': rnd.randrange(1 << 30)} for _ in range(16 if tier == 'quick' else 300)]
    return cases


def warmup(ctx):
    import pyrates  # noqa
    import mpmath
    mpmath.mp.dps = 40
    ctx['mp'] = mpmath
    ctx['open_risks'] = open_risks(PID)
    ctx['excluded'] = open_risks('C01') | open_risks('C04')
    monitors.install()


def make_case(case, ctx):
    rnd = random.Random(case['cseed'])
    want = case.get('want')
    opened = set(ctx['open_risks'])
    for attempt in range(300):
        spec, feats, risk = gen.gen_net(rnd, pool=gen.SAFE_POOL, n_nodes=rnd.choice([2, 3, 4, 5]), max_types=2,
                                        depth=rnd.choice([0, 0, 1, 2]), same_type_bias=True, forbid=ctx['excluded'],
                                        edge_density=rnd.choice([0.2, 0.5, 1.0]))
        # an edge declared without attributes ({}: default weight 1.0) - top-level edges only, so that update_var can address it
        pl_ = [e_ for e_ in spec['circ'].get('edges', []) if e_[2] is None and set(e_[3]) <= {'weight'}]
        if pl_ and rnd.random() < 0.4:
            rnd.choice(pl_)[3].clear()
            feats, risk = gen.features(spec)
            if set(risk) & set(ctx['excluded']):
                continue
        seq = [rnd.choice(OPS) for _ in range(rnd.randint(2, 7))]
        vecs = [rnd.random() < 0.4 for _ in seq]
        # vectorized compiles only on specs without C04 risks
        from vp.props import c04
        if c04.vec_risks(spec) & ctx['excluded'] or ('vec_partial_input_default' in risk):
            vecs = [False for _ in seq]
        r = set()
        # every compile in the sequence and the final (non-vectorized) compile of the check itself
        comp = [(False if o == 'get_jacobian_func' else v) for o, v in zip(seq, vecs) if o in ('get_run_func', 'get_jacobian_func', 'run')] + [False]
        if len(set(comp)) > 1:
            r.add('compile_mixed_vectorize')
        if 'to_yaml' in seq and 'node_type_overrides' in feats:
            r.add('to_yaml_with_variations')
        if want == 'compile_mixed_vectorize' and 'compile_mixed_vectorize' not in r:
            seq = ['get_run_func', 'get_run_func'] + seq[:3]
            vecs = [False, True] + [False] * (len(seq) - 2)
            if c04.vec_risks(spec) & ctx['excluded'] or ('vec_partial_input_default' in risk):
                continue
            r.add('compile_mixed_vectorize')
        if want == 'to_yaml_with_variations':
            if 'node_type_overrides' not in feats:
                continue
            if 'to_yaml' not in seq:
                seq = ['to_yaml'] + seq
                vecs = [False] + vecs
            r.add('to_yaml_with_variations')
        if want and want not in r:
            continue
        if (opened - {want}) & r:
            continue
        return spec, feats, sorted(set(risk) | r), seq, vecs
    raise RuntimeError('generator could not satisfy the constraints')


def fp_all(tmpl, objs, sibling):
    return tplfp.dumps({'t': tplfp.fingerprint(tmpl), 'ops': [tplfp.fingerprint(o) for o in objs['ops'].values()],
                        'nts': [tplfp.fingerprint(o) for o in objs['nts'].values()], 'sib': tplfp.fingerprint(sibling)})


def run_case(case, ctx):
    if case.get('family') == 'population_sibling':
        from vp.props import c16
        if 'c16ctx' not in ctx:
            ctx['c16ctx'] = {}
            c16.warmup(ctx['c16ctx'])
        res = c16.run_case(dict(case, family='update_sibling'), ctx['c16ctx'])
        res.setdefault('mech', {})['population_sibling_cases'] = 1
        return res
    if case.get('spec') is not None:
        spec, seq, vecs = case['spec'], case['seq'], case['vecs']
        feats, risk = gen.features(spec)
        risk = sorted(set(risk) | set(case.get('case_risk', [])))
    else:
        spec, feats, risk, seq, vecs = make_case(case, ctx)
    rnd = random.Random(case['cseed'] + 1)
    mech = {}
    res = {'features': feats + sorted(set(seq)), 'risk': risk, 'sig': stable_hash([spec, seq, vecs]),
           'nontrivial': bool({'get_run_func', 'run', 'get_jacobian_func'} & set(seq)) and bool(set(seq) - {'get_run_func', 'run', 'get_jacobian_func'}),
           'case_extra': {'seq': seq, 'vecs': vecs, 'case_risk': [r for r in risk if r in FOCUS]}}
    from vp.props.c07 import rebuild_from_objects
    try:
        ref = RefModel(spec)
        tmpl, objs = build.build_python(spec)
        sibling = rebuild_from_objects(spec, objs)
        fp0 = fp_all(tmpl, objs, sibling)
        dt = 1e-3
        keys = list(ref.state_keys)[:8]
        outputs = {f'o{i}': '/'.join(k) for i, k in enumerate(keys)}
        nodes = ref.node_order
        for op, vec in zip(seq, vecs):
            try:
                if op == 'get_run_func':
                    tmpl.get_run_func('vf', step_size=dt, vectorize=vec, verbose=False, clear=True, in_place=False,
                                      float_precision='float64')
                elif op == 'get_jacobian_func':
                    tmpl.get_jacobian_func('jac', step_size=dt, vectorize=False, verbose=False, clear=True, in_place=False,
                                           float_precision='float64')
                elif op == 'run':
                    tmpl.run(simulation_time=5 * dt, step_size=dt, outputs=dict(outputs), vectorize=vec, verbose=False,
                             clear=True, in_place=False, float_precision='float64')
                elif op == 'get_nodes':
                    tmpl.get_nodes(['all'] * (nodes[0].count('/') + 1))
                elif op == 'get_edges':
                    tmpl.get_edges('all', 'all')
                elif op == 'collect_edges':
                    tmpl.collect_edges()
                elif op == 'get_edge':
                    if spec['circ'].get('edges'):
                        e = spec['circ']['edges'][0]
                        tmpl.get_edge(e[0], e[1])
                elif op == 'get_node_template':
                    tmpl.get_node_template(rnd.choice(nodes))
                elif op == 'getitem':
                    tmpl[rnd.choice(list(tmpl.nodes) or list(tmpl.circuits) or ['x'])]
                elif op == 'to_yaml':
                    tmpl.to_yaml('dump_%d.yaml' % rnd.randrange(1 << 20))
                elif op == 'deepcopy':
                    c2 = copy.deepcopy(tmpl)
                    c2.update_var(node_vars={'/'.join(ref.param_keys[0]) if False else '/'.join(k): 9.99 for k in ref.param_keys[:1]
                                             if ref.kind[k] == 'const'})
                elif op == 'run_input':
                    # read-only simulation with a long pulse-like extrinsic input (in_place=False, caches kept): the result must be
                    # the reference trajectory for THIS input, whatever inputs earlier read-only calls were given
                    in_keys = [k_ for k_ in ref.param_keys if ref.kind[k_] == 'in' and not ref._intra_sources(k_)]
                    if in_keys and len(ref.state_keys) <= 10 and mech.get('input_runs_compared', 0) < 2:
                        ik = in_keys[0]
                        N_in = 1010
                        arr = np.random.RandomState(rnd.randrange(1 << 30)).standard_normal(N_in)
                        arr[:4] = 0.0
                        arr[-4:] = 0.0
                        k3 = keys[:3]
                        # (on the sibling circuit built from the same template objects: a template that has been simulated WITH an
                        # input keeps that run's final state under backend names that a later compile without the input does not
                        # have - the recorded finding F-C14-mixed-vectorize-state-carryover)
                        dfi = sibling.run(simulation_time=N_in * dt, step_size=dt, sampling_step_size=10 * dt,
                                       outputs={f'o{i}': '/'.join(k_) for i, k_ in enumerate(k3)}, inputs={'/'.join(ik): arr.copy()},
                                       vectorize=False, verbose=False, clear=False, in_place=False, float_precision='float64')
                        expi = observe.ref_trajectory(ref, k3, N_in, dt, input_fn=lambda kk, ik=ik, arr=arr: {ik: float(arr[min(kk, N_in - 1)])})[::10]
                        msgi = observe.compare_traj(dfi.values, expi[:dfi.shape[0]], rtol=1e-7)
                        if msgi and msgi != 'discard':
                            raise observe.Mismatch(f"run(in_place=False, inputs=<{N_in} samples>) as step {len(mech)} of sequence {seq}: {msgi}")
                        mech['input_runs_compared'] = mech.get('input_runs_compared', 0) + 1
                elif op == 'nt_update_template':
                    # derive a NodeTemplate from one of the shared node template objects (not in place) and modify the DERIVED one
                    ntname = rnd.choice(sorted(objs['nts']))
                    nt_o = objs['nts'][ntname]
                    new = nt_o.update_template(name=ntname + '_d')
                    opn_ = rnd.choice(spec['node_types'][ntname]['ops'])
                    consts = [v_ for v_, d_ in spec['ops'][opn_]['vars'].items() if d_[0] == 'const']
                    if consts:
                        new.update_var(opn_, consts[0], 7.77)
                    del new
                elif op == 'op_update_template':
                    # derive a new OperatorTemplate from one of the shared operator objects (not in place): list form that
                    # drops most variables, dict forms (replace / remove) that leave a constant unused, extra variables
                    oname = rnd.choice(sorted(objs['ops']))
                    o = objs['ops'][oname]
                    ospec = spec['ops'][oname]
                    states = [e_[1] for e_ in ospec['eqs'] if e_[0] == 'de']
                    consts = [v_ for v_, d_ in ospec['vars'].items() if d_[0] == 'const']
                    form = rnd.choice(['list', 'replace', 'variables', 'remove_add'])
                    if form == 'list' or not consts:
                        eqs_min = [f"{e_[1]}' = -{e_[1]}" if e_[0] == 'de' else f"{e_[1]} = 0.5*{states[0]}" for e_ in ospec['eqs']]
                        new = o.update_template(name=oname + '_d', equations=eqs_min)
                    elif form == 'replace':
                        new = o.update_template(name=oname + '_d', equations={'replace': {consts[0]: '0.5'}})
                    elif form == 'variables':
                        new = o.update_template(name=oname + '_d', variables={consts[0]: 3.25})
                    else:
                        new = o.update_template(name=oname + '_d', equations={'replace': {consts[-1]: '0.25'}, 'add': []})
                    del new
                elif op == 'update_template':
                    new = tmpl.update_template(edges=[(e[0], e[1], None, dict(e[3])) for e in spec['circ'].get('edges', [])[:1]])
                    del new
                elif op == 'derive_circuit':
                    # derive a circuit without any change (not in place) and modify an edge / a node variable of the DERIVED one
                    new = tmpl.update_template(name='derived_c')
                    es_ = spec['circ'].get('edges', [])
                    if es_:
                        bare = [x for x in es_ if not x[3]]            # declared without attributes ({}): default weight
                        e = rnd.choice(bare) if bare and rnd.random() < 0.7 else rnd.choice(es_)
                        new.update_var(edge_vars=[(e[0], e[1], {'weight': 7.75})])
                        mech['derived_circuit_edge_modified'] = mech.get('derived_circuit_edge_modified', 0) + 1
                    consts_ = [k_ for k_ in ref.param_keys if ref.kind[k_] == 'const']
                    if consts_:
                        new.update_var(node_vars={'/'.join(consts_[0]): 6.66})
                    del new
            except Exception as e:
                import traceback
                raise observe.Mismatch(f"loud: operation {op} (vectorize={vec}) in sequence {seq} raised {type(e).__name__}: {e} :: "
                                       f"{traceback.format_exc()[-400:]}")
            mech['op_' + op] = mech.get('op_' + op, 0) + 1
            fp = fp_all(tmpl, objs, sibling)
            mech['fingerprint_checks'] = mech.get('fingerprint_checks', 0) + 1
            if fp != fp0:
                d = tplfp.diff(json.loads(fp0), json.loads(fp))
                raise observe.Mismatch(f"M-tpl: operation {op} (vectorize={vec}) changed the template graph: {d} (sequence {seq})")
        # behaviour afterwards
        try:
            obs = observe.compile_vf(spec, vectorize=False, template=tmpl)
        except Exception as e:
            raise observe.Mismatch(f"loud: get_run_func after sequence {list(zip(seq, vecs))} raised {type(e).__name__}: {e}")
        # compare the FUNCTION (not the remembered initial state): locate states through the state map
        pos = {k: int(obs['smap']['/'.join(k)]) for k in ref.state_keys}
        n = len(np.asarray(obs['args'][1]))
        for pt in range(3):
            y = np.array([rnd.gauss(0, 1) for _ in range(n)])
            exp, ill = observe.ref_rhs_checked(ref, {k: float(y[i]) for k, i in pos.items()}, ref.p0(), ctx['mp'])
            if ill:
                continue
            got = observe.call_vf(obs, obs['args'], y.copy())
            for k, i in pos.items():
                if not abs(got[i] - exp[k]) <= 1e-8 * max(1.0, abs(exp[k])):
                    raise observe.Mismatch(f"after sequence {list(zip(seq, vecs))} the vector field changed: derivative of {'/'.join(k)} "
                                           f"is {got[i]!r}, reference {exp[k]!r}")
        mech['final_vf_checks'] = 1
        try:
            d1 = tmpl.run(simulation_time=6 * dt, step_size=dt, outputs=dict(outputs), vectorize=False, verbose=False, clear=True,
                          in_place=False, float_precision='float64')
            d2 = tmpl.run(simulation_time=6 * dt, step_size=dt, outputs=dict(outputs), vectorize=False, verbose=False, clear=True,
                          in_place=False, float_precision='float64')
        except Exception as e:
            raise observe.Mismatch(f"loud: run(in_place=False) after sequence {list(zip(seq, vecs))} raised {type(e).__name__}: {e}")
        if not np.array_equal(d1.values, d2.values):
            raise observe.Mismatch(f"two consecutive run(in_place=False) calls differ: {d1.values[:2].tolist()} vs {d2.values[:2].tolist()}")
        exp = observe.ref_trajectory(ref, keys, 6, dt)
        msg = observe.compare_traj(d1.values, exp, rtol=1e-7)
        if msg and msg != 'discard':
            raise observe.Mismatch(f"run(in_place=False) after sequence {list(zip(seq, vecs))}: {msg}")
        mech['repeat_run_checks'] = 1
        fp = fp_all(tmpl, objs, sibling)
        if fp != fp0:
            d = tplfp.diff(json.loads(fp0), json.loads(fp))
            raise observe.Mismatch(f"M-tpl: final compile/run changed the template graph: {d}")
        res.update(status='ok', symptom='', mech=mech)
        res['sample'] = {'sequence': list(zip(seq, vecs)), 'nodes': nodes, 'n_edges': len(ref.edges)}
    except observe.Mismatch as e:
        s = str(e)
        res.update(status='violation', symptom=('silent: ' if 'loud' not in s else '') + s, mech=mech, spec=spec)
    return res


# MANIFEST-BEGIN
MANIFEST = {
    'technique': 'history monitor: structural fingerprint (M-tpl) of the template object graph after every operation of generated sequences + reference-model check of the vector field and of repeated run(in_place=False) afterwards',
    'level_text': 'Random sequences of the operations the property lists are applied to generated templates with shared operator/node objects and hierarchical edges; after every operation a structural fingerprint of the template, of all operator and node templates it is built from and of a sibling circuit built from the same objects must be identical to the initial one (the first difference is reported), afterwards the compiled vector field must still equal the reference at random states and two run(in_place=False) calls must return identical frames equal to the reference trajectory. Read-only simulations with long pulse-like inputs (caches kept) on a sibling circuit must return the trajectory of their own input. derive_circuit: update_template without any change followed by update_var on an edge (with and without declared attributes) and on a node variable of the DERIVED circuit. A population_sibling family applies update_var / node_values to one of two circuits built from the same PopulationTemplate / Connectivity containers (machinery of C16). Held on observed sequences only.',
    'level_note': 'Trusted: vp/tplfp.py (covers equations, variable dicts, operator variations, edge tuples/attribute dicts, sub-circuits, sharing), vp/ref.py. The remembered simulation state (CircuitTemplate.state) is treated as documented statefulness (DESIGN 4a). Loading derived templates is exercised under C15.',
}
# MANIFEST-END
