"""C17 - A parameter sweep equals running each parameter set on its own."""
import copy
import random

import numpy as np

from vp import gen, observe, monitors, build
from vp.ref import RefModel
from vp.runner import open_risks, stable_hash
from vp.props import c04

PID = 'C17'
LEVEL = 'exploration'
RULE = ("seeded circuits (hierarchy 0-1, several nodes per type, edges) x parameter maps over node constants (one or several nodes "
        "and variables per key) and edge weights x grids (equal-length or permuted, 2-5 or 8-12 rows; as dict or as pandas DataFrame with default, shuffled, offset or sorted integer index) x optional white-noise extrinsic input "
        "x vectorize on/off; every column of the DataFrame returned by grid_search is compared with the reference trajectory of "
        "the circuit parametrised with the values that the RETURNED parameter table maps to that column's label; uncoupledness "
        "monitor: a second sweep with one row changed must leave all other columns bit-identical; non-trivial = >= 2 rows and "
        ">= 2 parameters; distinct = distinct (spec, grid) hash")
DECIDING = ['columns_compared', 'rows_in_grids', 'large_grids', 'dataframe_grids_nondefault_index', 'edge_param_keys', 'node_param_keys', 'multi_target_keys', 'permuted_grids',
            'input_sweeps', 'uncoupled_checks', 'vectorized_sweeps', 'repeated_input_sweeps', 'int_declared_sweep_keys', 'edges_added_in_place_before_sweep']    # ('parallel_edge_keys' is counted but not required: it needs a circuit with parallel edges AND an edge key)
ASSUMPTIONS = ['the returned parameter table (index = circuit labels) is the authority for which values belong to which column']
CASE_TIMEOUT = 300


def plan(tier, seed):
    rnd = random.Random(f'{PID}-{seed}')
    n = 60 if tier == 'quick' else 1500
    cases = [{'family': 'main', 'cseed': rnd.randrange(1 << 30)} for _ in range(n)]
    cases += [{'family': 'convergent', 'cseed': rnd.randrange(1 << 30)} for _ in range(16 if tier == 'quick' else 300)]
    # circuits whose edges run through EdgeTemplates (incl. two-input edge operators): every swept circuit has its own edge instances
    cases += [{'family': 'edge_templates', 'cseed': rnd.randrange(1 << 30)} for _ in range(16 if tier == 'quick' else 300)]
    # identical units wired one-to-one by a permutation (rings in scrambled order), 3-8 rows
    cases += [{'family': 'permutation_ring', 'cseed': rnd.randrange(1 << 30)} for _ in range(12 if tier == 'quick' else 250)]
    # a grid with a single row (sweeps are also used to run one parametrization): labelled like any other
    fam = 'probe:single_row_grid' if 'single_row_grid' in open_risks(PID) else 'main'
    cases += [{'family': fam, 'cseed': rnd.randrange(1 << 30), 'want': 'single_row_grid'} for _ in range(6 if tier == 'quick' else 60)]
    return cases


def warmup(ctx):
    import pyrates  # noqa
    ctx['excluded'] = open_risks('C04') | open_risks('C01') | open_risks(PID)
    monitors.install()


def run_case(case, ctx):
    rnd = random.Random(case['cseed'])
    mech = {}
    res = {'features': [], 'risk': [], 'nontrivial': True}
    # convergent circuits: in a sweep every circuit is one element of the merged groups, so "several sources into the single
    # element of a target group" (the C04 finding for a circuit compiled on its own) becomes an ordinary many-to-one bundle
    convergent = case.get('family') == 'convergent'
    ring = case.get('family') == 'permutation_ring'
    for attempt in range(100):
        if ring:
            # identical units wired one-to-one by a permutation: in the sweep the merged edge group is sparse and index-based
            base = gen.gen_ring_net(rnd)
            feats, risk = gen.features(base)
            ref0 = RefModel(base)
            break
        base, feats, risk = c04.make_spec({'cseed': rnd.randrange(1 << 30), 'want': 'vec_single_target_multi_source' if convergent else None,
                                           'family': 'edge_templates' if case.get('family') == 'edge_templates' else 'main',
                                           'edge_shapes': ['two_in', 'two_in', 'lin', 'tanh']},
                                          ctx['excluded'])
        ref0 = RefModel(base)
        if max(n.count('/') for n in ref0.node_order) <= 1 and ref0.state_keys:
            break
    vec = rnd.random() < 0.5 or convergent or case.get('family') == 'edge_templates' or ring
    if vec:
        for o in base['ops'].values():
            for v, d in o['vars'].items():
                if d[0] == 'in':
                    d[1] = 0.0
        ref0 = RefModel(base)
    top_edges = base['circ'].get('edges', [])
    # ---- parameter map ----------------------------------------------------------------------------------------------
    consts = [k for k in ref0.param_keys if ref0.kind[k] == 'const']
    param_map, grid = {}, {}
    # mostly small grids; sometimes 8-12 rows, so that the merged (vectorized) sweep crosses the size thresholds of the
    # index-based / matrix edge forms (edges per circuit x rows >= 10)
    n_rows = rnd.randint(2, 5) if rnd.random() < 0.7 and not convergent else rnd.randint(6, 12)
    if ring:
        n_rows = rnd.randint(3, 8)
    if case.get('want') == 'single_row_grid':
        n_rows = 1
        res['risk'] = ['single_row_grid']
    if n_rows >= 8:
        mech['large_grids'] = 1
    permute = rnd.random() < 0.3 and not convergent and n_rows > 1
    vals = gen.Vals(rnd)
    for o in base['ops'].values():
        for v, d in o['vars'].items():
            vals.used.add(d[1])
    n_keys = rnd.randint(1, 3)
    for ki in range(n_keys):
        r = rnd.random()
        key = f'par{ki}'
        if r < 0.3 and top_edges:
            gi = rnd.randrange(len(top_edges))
            later = [i for i, x in enumerate(top_edges) if any(y[0] == x[0] and y[1] == x[1] for y in top_edges[:i])]
            if later and rnd.random() < 0.7:
                gi = rnd.choice(later)        # a second / third parallel edge between two variables
            e = top_edges[gi]
            par = [i for i, x in enumerate(top_edges) if x[0] == e[0] and x[1] == e[1]]
            if len(par) > 1 or rnd.random() < 0.3:
                # (source, target, index) form: addresses one of several parallel edges between the same two variables
                pairs = [(e[0], e[1], par.index(gi))]
                if len(par) > 1:
                    mech['parallel_edge_keys'] = mech.get('parallel_edge_keys', 0) + 1
            else:
                pairs = [(e[0], e[1])]
            param_map[key] = {'vars': ['weight'], 'edges': pairs, 'edge_index': [gi]}
            mech['edge_param_keys'] = mech.get('edge_param_keys', 0) + 1
        elif consts:
            k0 = rnd.choice(consts)
            nodes = [k0[0]]
            if rnd.random() < 0.4:
                others = [k[0] for k in consts if k[1:] == k0[1:] and k[0] != k0[0]]
                if others:
                    nodes.append(rnd.choice(others))
                    mech['multi_target_keys'] = mech.get('multi_target_keys', 0) + 1
            param_map[key] = {'vars': [f'{k0[1]}/{k0[2]}'], 'nodes': nodes}
            mech['node_param_keys'] = mech.get('node_param_keys', 0) + 1
        else:
            continue
        ln = n_rows if not permute else rnd.randint(2, 3)
        grid[key] = [round(vals.new() * rnd.choice([1, 2]), 4) for _ in range(ln)]
        if 'nodes' in param_map[key] and rnd.random() < 0.35:
            # the swept constant is declared with an integer default (YAML `k: 2`); the first grid value is integral, later ones
            # are not (the data type of a merged parameter must not be decided by the first circuit alone)
            opn_, var_ = param_map[key]['vars'][0].split('/')
            overridden = any(var_ in nt_.get('over', {}).get(opn_, {}) for nt_ in base['node_types'].values())
            if not overridden and base['ops'][opn_]['vars'][var_][0] == 'const':
                base['ops'][opn_]['vars'][var_][1] = rnd.choice([1, 2, 3])
                grid[key][0] = float(rnd.choice([1, 2, 3]))
                mech['int_declared_sweep_keys'] = mech.get('int_declared_sweep_keys', 0) + 1
    if not grid:
        res.update(status='discard', symptom='no sweepable parameter', mech=mech)
        return res
    # distinct targets per key (two keys writing the same variable would make the table ambiguous)
    seen = set()
    for key, pm in list(param_map.items()):
        tg = set()
        if 'nodes' in pm:
            tg = {(n, v) for n in pm['nodes'] for v in pm['vars']}
        else:
            tg = {('edge', gi_) for gi_ in pm['edge_index']}
        if tg & seen:
            param_map.pop(key)
            grid.pop(key)
        seen |= tg
    if not grid:
        res.update(status='discard', symptom='no sweepable parameter', mech=mech)
        return res
    if permute:
        mech['permuted_grids'] = 1
    keys = list(ref0.state_keys)[:4]
    outputs = {f'o{i}': '/'.join(k) for i, k in enumerate(keys)}
    dt, steps = 1e-3, 12
    inputs = None
    inp_arr = None
    # (input variables of NODE operators only: the reference model also lists the inputs of edge operators, which no path addresses)
    in_keys = [k for k in ref0.param_keys if ref0.kind[k] == 'in' and not k[0].startswith('__edge')]
    if in_keys and rnd.random() < 0.4:
        ik = rnd.choice(in_keys)
        nrs = np.random.RandomState(case['cseed'] % (2 ** 31))
        inp_arr = nrs.standard_normal(steps)
        inputs = {'/'.join(ik): inp_arr}
        mech['input_sweeps'] = 1
    res['sig'] = stable_hash([base, param_map, grid, permute, vec])
    res['features'] = feats + ['vec' if vec else 'novec', 'permute' if permute else 'linear']
    res['nontrivial'] = len(grid) >= 1 and (max(len(v) for v in grid.values()) >= 2 or n_rows == 1)

    # the grid may also be given as a pandas DataFrame (documented), whose integer index need not be 0..N-1 in order
    frame = None if permute else rnd.choice([None, None, 'default', 'shuffled', 'offset', 'sorted'])
    if frame:
        mech['dataframe_grids'] = 1
        if frame != 'default':
            mech['dataframe_grids_nondefault_index'] = 1
    res['features'].append(f'grid_{frame or "dict"}')
    frame_seed = rnd.randrange(1 << 30)

    def as_grid(g):
        if not frame:
            return copy.deepcopy(g)
        import pandas as pd
        d = pd.DataFrame({k: [float(x) for x in v] for k, v in g.items()})
        r2 = random.Random(frame_seed)
        if frame == 'shuffled':
            idx = list(d.index)
            r2.shuffle(idx)
            d = d.loc[idx]
        elif frame == 'offset':
            d.index = [i + 3 for i in d.index]
        elif frame == 'sorted':
            d = d.sort_values(by=list(d.columns)[0], ascending=False)
        return d

    inputs_obj = {k: v.copy() for k, v in inputs.items()} if inputs else None

    # some plain edges (not the swept ones, no parallel twins) are added to the finished circuit IN PLACE (add_edges_from_matrix /
    # update_template(in_place=True)) before the sweep: sweeping an attribute of an ORIGINAL edge must still reach that edge
    swept_pairs = {(e_[0], e_[1]) for v_ in param_map.values() for e_ in v_.get('edges', [])}
    all_pairs = [(x[0], x[1]) for x in top_edges]
    late_idx = [i for i, x in enumerate(top_edges) if x[2] is None and set(x[3]) <= {'weight'} and (x[0], x[1]) not in swept_pairs
                and all_pairs.count((x[0], x[1])) == 1]
    late_how = None
    if swept_pairs and late_idx and rnd.random() < 0.5:
        late_idx = sorted(rnd.sample(late_idx, rnd.randint(1, min(2, len(late_idx)))))
        late_how = rnd.choice(['update_template', 'add_edges_from_matrix'])
        mech['edges_added_in_place_before_sweep'] = 1
    else:
        late_idx = []

    def build_template():
        if not late_idx:
            return build.build_python(base)[0]
        early = copy.deepcopy(base)
        early['circ']['edges'] = [e_ for i, e_ in enumerate(base['circ']['edges']) if i not in late_idx]
        t_ = build.build_python(early)[0]
        for i in late_idx:
            s_, t2_, _, a_ = base['circ']['edges'][i]
            if late_how == 'add_edges_from_matrix':
                sn, so, sv = s_.rsplit('/', 2)
                tn, to, tv = t2_.rsplit('/', 2)
                t_.add_edges_from_matrix(source_var=f'{so}/{sv}', target_var=f'{to}/{tv}', source_nodes=[sn], target_nodes=[tn],
                                         weight=np.array([[float(a_.get('weight', 1.0))]]), min_weight=0.0)
            else:
                t_.update_template(edges=[(s_, t2_, None, dict(a_))], in_place=True)
        return t_

    def sweep(g):
        from pyrates import grid_search
        tmpl = build_template()
        pm_ = {k_: {a_: b_ for a_, b_ in v_.items() if a_ != 'edge_index'} for k_, v_ in copy.deepcopy(param_map).items()}
        # (the caller's inputs dictionary is one object that is handed to every sweep of this case)
        return grid_search(circuit_template=tmpl, param_grid=as_grid(g), param_map=pm_, step_size=dt,
                           simulation_time=steps * dt, outputs=dict(outputs),
                           inputs=inputs_obj, permute_grid=permute,
                           solver='euler', vectorize=vec, verbose=False, clear=True, float_precision='float64')
    try:
        try:
            df, table = sweep(grid)
        except Exception as e:
            import traceback
            raise observe.Mismatch(f"loud: grid_search raised {type(e).__name__}: {e} :: {traceback.format_exc()[-500:]}")
        n_expected = (np.prod([len(v) for v in grid.values()]) if permute else len(next(iter(grid.values()))))
        if len(table.index) != n_expected:
            raise observe.Mismatch(f"parameter table has {len(table.index)} rows, grid defines {n_expected}")
        mech['rows_in_grids'] = int(n_expected)
        # every grid row must occur in the table exactly once (as a multiset of value tuples)
        if not permute:
            want_rows = sorted(tuple(float(grid[k][i]) for k in grid) for i in range(int(n_expected)))
            got_rows = sorted(tuple(float(table[k][lab]) for k in grid) for lab in table.index)
            if want_rows != got_rows:
                raise observe.Mismatch(f"parameter table rows {got_rows} != grid rows {want_rows}")
        cols = list(df.columns)
        labels = list(table.index)
        used = set()
        for lab in labels:
            spec_i = copy.deepcopy(base)
            updates = []
            eupd = []
            for k in grid:
                val = float(table[k][lab])
                pm = param_map[k]
                if 'nodes' in pm:
                    for n in pm['nodes']:
                        for v in pm['vars']:
                            updates.append([f'{n}/{v}', val])
                else:
                    for gi_ in pm['edge_index']:
                        spec_i['circ']['edges'][gi_][3]['weight'] = val
            spec_i['updates'] = updates
            ref_i = RefModel(spec_i)
            input_fn = None
            if inputs:
                ik = tuple(list(inputs)[0].rsplit('/', 2))
                input_fn = lambda kk, ik=ik: {ik: float(inp_arr[min(kk, steps - 1)])}
            exp = observe.ref_trajectory(ref_i, keys, steps, dt, input_fn=input_fn)
            for j, (okey, path) in enumerate(outputs.items()):
                *node, op, var = path.split('/')
                want_col = (okey, lab) + tuple(node) + (f'{op}/{var}',)
                match = [c for c in cols if tuple(x for x in (c if isinstance(c, tuple) else (c,)) if not (isinstance(x, float) and x != x)) == want_col]
                if len(match) != 1:
                    raise observe.Mismatch(f"no unique column {want_col} in the sweep result; columns are {cols[:6]}...")
                used.add(match[0])
                got = np.asarray(df[match[0]].values, dtype=float).reshape(steps, 1)
                msg = observe.compare_traj(got, exp[:, j:j + 1], rtol=1e-7)
                if msg == 'discard':
                    continue
                if msg:
                    raise observe.Mismatch(f"column {want_col} (parameters {dict(table.loc[lab])}) differs from a separate run with those "
                                           f"parameters: {msg}; param_map {param_map}")
                mech['columns_compared'] = mech.get('columns_compared', 0) + 1
        if len(used) != len(cols):
            raise observe.Mismatch(f"sweep result has {len(cols)} columns, {len(used)} are accounted for by (output, circuit) pairs")
        if vec:
            mech['vectorized_sweeps'] = 1
        if inputs:
            # the same call once more (same grid, same inputs dictionary object): identical result
            df_r, table_r = sweep(grid)
            if list(df_r.columns) != cols or not np.array_equal(np.asarray(df_r.values), np.asarray(df.values)):
                bad = [str(c) for c in cols if c not in list(df_r.columns) or not np.array_equal(np.asarray(df_r[c].values), np.asarray(df[c].values))]
                raise observe.Mismatch(f"a second identical grid_search call (same grid, same inputs dictionary) returned different results "
                                       f"in columns {bad[:4]}; keys of the inputs dictionary now {list(inputs_obj)}")
            mech['repeated_input_sweeps'] = 1
        # uncoupledness: change one row, all other circuits' columns must be bit-identical
        if not permute and n_expected >= 2 and rnd.random() < 0.6:
            g2 = copy.deepcopy(grid)
            k = rnd.choice(list(g2))
            g2[k][0] = round(g2[k][0] * 1.37 + 0.11, 4)
            df2, table2 = sweep(g2)
            changed = [l for l in table.index if any(float(table[kk][l]) != float(table2[kk][l]) for kk in grid)]
            if len(changed) != 1 or set(table.index) != set(table2.index):
                raise observe.Mismatch(f"second sweep with one grid row changed: parameter tables differ in circuits {changed} "
                                       f"(labels {list(table.index)} / {list(table2.index)})")
            lab0 = changed[0]
            for c in cols:
                ct = c if isinstance(c, tuple) else (c,)
                if lab0 in ct:
                    continue
                if not np.array_equal(np.asarray(df[c].values), np.asarray(df2[c].values)):
                    raise observe.Mismatch(f"changing the parameters of circuit {lab0} changed column {c} of another circuit")
            mech['uncoupled_checks'] = 1
        res.update(status='ok', symptom='', mech=mech)
        res['sample'] = {'param_map': param_map, 'grid': grid, 'permute': permute, 'vectorize': vec,
                         'table': {str(k): {kk: float(vv) for kk, vv in dict(table.loc[k]).items()} for k in table.index},
                         'columns': [str(c) for c in cols[:8]]}
    except observe.Mismatch as e:
        s = str(e)
        res.update(status='violation', symptom=('silent: ' if 'loud' not in s else '') + s, mech=mech, spec=base,
                   param_map=param_map, grid=grid)
    return res


# MANIFEST-BEGIN
MANIFEST = {
    'technique': 'reference-model monitor on every column of the grid_search result, keyed through the returned parameter table; differential uncoupledness monitor (one row changed, other columns bit-identical)',
    'level_text': 'For generated circuits, parameter maps (node constants on one or several nodes, edge weights), equal-length and permuted grids, optional white-noise inputs and vectorize on/off, every column of the DataFrame returned by grid_search is compared (1e-7) with the reference trajectory of the circuit parametrised with the values that the returned table assigns to the column label; the table must contain exactly the grid rows, every column must be accounted for, and a second sweep with one row changed must leave the other circuits bit-identical. Grids are given as dicts or as pandas DataFrames with default, shuffled, offset or sorted integer index. Further families: convergent circuits swept over 6-12 rows, circuits with (two-input) edge templates; grids of 8-12 rows; edge keys in the (source, target, index) form that address second / third parallel edges; one inputs dictionary object handed to repeated sweeps (identical results required); probe family: grids with a single row (recorded finding). Sweeps over parameters declared with an integer default (values must arrive as floats). A permutation_ring family sweeps identical units wired one-to-one by a permutation (3-8 rows). Some plain edges are added to the circuit in place (add_edges_from_matrix / update_template(in_place=True)) before a sweep addresses an original edge. Held on observed sweeps only.',
    'level_note': 'Trusted: vp/ref.py with update_var semantics for the sweep parameters. Circuits of depth <= 1 (grid_search adds one level).',
}
# MANIFEST-END
