"""C06 - A variable path addresses the same variable everywhere (outputs of run)."""
import random

import numpy as np

from vp import gen, observe, monitors
from vp.ref import RefModel, match_nodes
from vp.runner import open_risks, stable_hash
from vp.props import c04

PID = 'C06'
LEVEL = 'exploration'
RULE = ("seeded circuits (hierarchy depth 0-3, 2-8 nodes, several structurally identical nodes per type, every node with "
        "unique initial values and constants so that any swap of nodes or columns changes values by O(1)) x random output "
        "requests (dict and list form, single node, 'all' at any hierarchy level, several keys) x vectorize on/off; every "
        "returned column is compared with the reference trajectory of exactly the variable its label names and the column set "
        "must be a bijection onto the requested variables; non-trivial = request resolves to >= 2 variables; distinct = "
        "distinct (spec hash, request)")
DECIDING = ['columns_checked', 'wildcard_requests', 'list_requests', 'dict_requests', 'vectorized_runs', 'hierarchical_runs']
ASSUMPTIONS = ['column label conventions: plain key / full path for single variables, (key, *node path, "op/var") tuples for wildcard keys']
CASE_TIMEOUT = 180
FOCUS = ['list_form_vectorized_merged']


def plan(tier, seed):
    rnd = random.Random(f'{PID}-{seed}')
    n = 200 if tier == 'quick' else 5000
    cases = [{'family': 'main', 'cseed': rnd.randrange(1 << 30)} for _ in range(n)]
    opened = open_risks(PID)
    k = 10 if tier == 'quick' else 100
    for feat in FOCUS:
        fam = 'probe:' + feat if feat in opened else 'main'
        cases += [{'family': fam, 'cseed': rnd.randrange(1 << 30), 'want': feat} for _ in range(k)]
    # hostile names: variables that look like the labels PyRates derives for name clashes (x_v1 next to several x),
    # node labels equal to variable names
    n_h = 50 if tier == 'quick' else 1500
    cases += [{'family': 'hostile_names', 'cseed': rnd.randrange(1 << 30)} for _ in range(n_h)]
    # wide groups (11-16 nodes of one type): vectorization grouping with index-based edge forms
    cases += [{'family': 'wide', 'cseed': rnd.randrange(1 << 30)} for _ in range(48 if tier == 'quick' else 600)]
    # one mid-level circuit object under two keys, update_var below one of them, outputs below both
    cases += [{'family': 'shared_update', 'cseed': rnd.randrange(1 << 30)} for _ in range(24 if tier == 'quick' else 400)]
    cases += [{'family': 'shared_operator', 'cseed': rnd.randrange(1 << 30)} for _ in range(16 if tier == 'quick' else 300)]
    # the same paths as INPUT addresses: wildcard paths with one column per addressed node (column i drives the i-th node that the
    # path denotes, whatever the declaration order and the vectorization groups are); machinery shared with C08
    cases += [{'family': 'input_paths', 'cseed': rnd.randrange(1 << 30), 'mode': 'euler', 'force': 'wildcard_multi',
               'spec_kind': 'shared_ops' if i % 3 else None} for i in range(24 if tier == 'quick' else 400)]
    # edges through EdgeTemplates (one- and two-input edge operators, the second input addressed by an explicit variable path)
    cases += [{'family': 'edge_templates', 'cseed': rnd.randrange(1 << 30)} for _ in range(40 if tier == 'quick' else 900)]
    return cases


def warmup(ctx):
    import pyrates  # noqa
    ctx['open_risks'] = open_risks(PID)
    ctx['excluded'] = open_risks('C04') | open_risks('C01')
    monitors.install()


def make_shared_update_case(case, ctx):
    """Hierarchy of depth 2 whose first mid-level circuit is ONE CircuitTemplate object registered under two keys; update_var
    addresses a variable below one key; the same variable is requested below both keys (and through a wildcard)."""
    rnd = random.Random(case['cseed'])
    for attempt in range(300):
        spec, feats, risk = gen.gen_net(rnd, pool=gen.SAFE_POOL, n_nodes=rnd.choice([3, 4, 5, 6]), max_types=2, depth=2,
                                        same_type_bias=True, forbid=ctx['excluded'], edge_density=rnd.choice([0.0, 0.2]))
        subs = spec['circ']['subs']
        if not subs:
            continue
        first = list(subs)[0]
        if not subs[first].get('subs'):
            continue
        subs[first]['__share'] = 'shared0'
        subs[first + '_twin'] = subs[first]
        ref0 = RefModel(spec)
        cands = [k for k in ref0.kind if k[0].startswith(first + '/') and ref0.kind[k] in ('const', 'state')]
        if not cands:
            continue
        n, op, v = rnd.choice(cands)
        spec['updates'] = [[f'{n}/{op}/{v}', round(rnd.uniform(1.5, 2.5), 4)]]
        ref = RefModel(spec)
        svars = [k for k in ref.state_keys if k[0] == n and k[1] == op] or [k for k in ref.state_keys if k[0] == n]
        if not svars:
            continue
        _, sop, sv = rnd.choice(svars)
        twin = first + '_twin' + n[len(first):]
        requests = [f'{n}/{sop}/{sv}', f'{twin}/{sop}/{sv}']
        if rnd.random() < 0.5:
            requests.append('/'.join(['all'] * (n.count('/') + 1) + [sop, sv]))
            if not pattern_ok(ref.node_order, requests[-1].split('/')[:-2]):
                requests.pop()
        f2, r2 = gen.features(spec)
        vec = rnd.random() < 0.5
        if (set(r2) | c04.vec_risks(spec)) & ctx['excluded']:
            # registering the sub-circuit twice doubles its nodes, which can create the vectorized groups of an open C04 finding:
            # those networks are built without vectorization (the risk only arises with vectorize=True)
            vec = False
        r2 = set(r2) - {'vec_partial_input_default'} if not vec else set(r2)
        return spec, f2 + ['shared_subcircuit_update'], sorted(r2), ref, vec, rnd.choice(['dict', 'dict', 'list']), requests, 2
    raise RuntimeError('generator could not satisfy the constraints')


def make_case(case, ctx):
    if case.get('family') == 'shared_update':
        return make_shared_update_case(case, ctx)
    rnd = random.Random(case['cseed'])
    want = case.get('want')
    for attempt in range(300):
        c4 = {'cseed': rnd.randrange(1 << 30)}
        if case.get('family') in ('wide', 'edge_templates'):
            c4['family'] = case['family']
            if case['family'] == 'edge_templates':
                c4['edge_shapes'] = ['two_in', 'two_in', 'lin', 'tanh']
        if case.get('family') == 'hostile_names':
            c4.update(pool='derived', hostile_labels=rnd.random() < 0.6)
            if rnd.random() < 0.6:
                c4['require'] = 'user_name_like_generated'
        if case.get('family') == 'shared_operator':
            # node types that share one operator template: 'all/cop/x' spans several vectorization groups in interleaved order
            spec = gen.gen_shared_op_net(rnd)
            feats, risk = gen.features(spec)
            feats = sorted(set(feats) | {'node_types_share_operator'})
            risk = sorted((set(risk) - {'vec_partial_input_default'}) | c04.vec_risks(spec))
            if set(risk) & ctx['excluded']:
                continue
        else:
            spec, feats, risk = c04.make_spec(c4, ctx['excluded'])
        ref = RefModel(spec)
        vec = rnd.random() < 0.5 if not want else True
        if case.get('family') == 'wide':
            vec = rnd.random() < 0.85
        form = rnd.choice(['dict', 'dict', 'list']) if not want else 'list'
        # candidate variables: state variables
        svars = sorted({(k[1], k[2]) for k in ref.state_keys})
        depth = max(n.count('/') for n in ref.node_order)
        requests = []
        wide = case.get('family') == 'wide'
        for _ in range(rnd.randint(1, 3) if not wide else rnd.randint(2, 4)):
            op, var = rnd.choice(svars)
            holders = [n for n in ref.node_order if (n, op, var) in ref.kind]
            n = rnd.choice(holders)
            parts = n.split('/')
            mode = rnd.choice(['single', 'single', 'all_leaf', 'all_some', 'all_all'])
            if wide:
                mode = rnd.choice(['single', 'all_leaf', 'all_all', 'all_all'])      # wide groups: mostly whole-group requests
            if mode == 'all_leaf':
                parts[-1] = 'all'
            elif mode == 'all_some':
                for i in range(len(parts)):
                    if rnd.random() < 0.5:
                        parts[i] = 'all'
            elif mode == 'all_all':
                parts = ['all'] * len(parts)
            if not pattern_ok(ref.node_order, parts):
                parts = n.split('/')
            requests.append('/'.join(parts + [op, var]))
        requests = list(dict.fromkeys(requests))
        rq_risk = set()
        if form == 'list' and vec and 'several_nodes_per_type' in feats:
            rq_risk.add('list_form_vectorized_merged')
        if want and want not in rq_risk:
            continue
        if (set(ctx['open_risks']) - {want}) & rq_risk:
            continue
        return spec, feats, sorted(set(risk) | rq_risk), ref, vec, form, requests, depth
    raise RuntimeError('generator could not satisfy the constraints')


def pattern_ok(nodes, parts):
    """A concrete name that follows a wildcard must exist in every branch the wildcard selects (otherwise the request is
    a misspelt path in those branches, which is C20's business, not a well-formed request)."""
    split = [n.split('/') for n in nodes]
    for j, comp in enumerate(parts):
        if comp == 'all' or 'all' not in parts[:j]:
            continue
        prefixes = {tuple(sp[:j]) for sp in split
                    if all(p == 'all' or p == q for p, q in zip(parts[:j], sp[:j]))}
        for pre in prefixes:
            if not any(tuple(sp[:j]) == pre and sp[j] == comp for sp in split):
                return False
    return True


def expand(ref, path):
    *node, op, var = path.split('/')
    return [n for n in match_nodes(ref.node_order, node) if (n, op, var) in ref.kind]


def norm_label(c, outputs):
    """pandas pads the shorter tuples of one MultiIndex with NaN; the padding is removed.  (A plain key that is spelled out
    character by character - ('k', 'e', 'y', '0') - does NOT name the requested key and is not normalised.)"""
    if isinstance(c, tuple):
        c = tuple(x for x in c if not (isinstance(x, float) and x != x))
        if len(c) == 1:
            return c[0]
    return c


def run_case(case, ctx):
    if case.get('family') == 'input_paths':
        from vp.props import c08
        if 'c08ctx' not in ctx:
            import mpmath
            ctx['c08ctx'] = dict(ctx, mp=mpmath, excluded=set(ctx['excluded']) | (open_risks('C08') - {'multi_column_input_not_vectorized'}))
        res = c08.run_case(case, ctx['c08ctx'])
        res.setdefault('mech', {})['input_path_cases'] = 1
        return res
    spec, feats, risk, ref, vec, form, requests, depth = make_case(case, ctx)
    mech = {}
    res = {'features': feats + [form, 'vec' if vec else 'novec'], 'risk': risk,
           'sig': stable_hash([spec, requests, form, vec])}
    if form == 'dict':
        outputs = {f'key{i}': r for i, r in enumerate(requests)}
    else:
        outputs = list(requests)
    # expected columns -> variable key
    expected = {}
    for i, r in enumerate(requests):
        nodes = expand(ref, r)
        *_, op, var = r.split('/')
        if form == 'dict':
            if len(nodes) == 1:
                expected[f'key{i}'] = (nodes[0], op, var)
            else:
                for n in nodes:
                    expected[(f'key{i}',) + tuple(n.split('/')) + (f'{op}/{var}',)] = (n, op, var)
        else:
            for n in nodes:
                expected[f'{n}/{op}/{var}'] = (n, op, var)
    res['nontrivial'] = len(expected) >= 2
    dt, steps = 1e-3, 8
    try:
        try:
            df = observe.run_model(spec, T=steps * dt, dt=dt, solver='euler', outputs=outputs, vectorize=vec)
        except Exception as e:
            import traceback
            raise observe.Mismatch(f"loud: run raised {type(e).__name__}: {e} :: {traceback.format_exc()[-500:]}")
        cols = [norm_label(c, outputs) for c in df.columns]
        if len(set(cols)) != len(cols):
            raise observe.Mismatch(f"duplicate column labels {cols}")
        if set(cols) != set(expected):
            raise observe.Mismatch(f"columns {sorted(map(str, cols))} are not a bijection onto the requested variables "
                                   f"{sorted(map(str, expected))} (form={form}, vectorize={vec}, requests={requests})")
        keys = [expected[c] for c in cols]
        exp = observe.ref_trajectory(ref, keys, steps, dt)
        got = df.values
        for j, c in enumerate(cols):
            msg = observe.compare_traj(got[:, j:j + 1], exp[:, j:j + 1], rtol=1e-7)
            if msg == 'discard':
                res.update(status='discard', symptom='reference not finite', mech=mech)
                return res
            if msg:
                # which variable does the column actually carry?
                y0 = {float(ref.val[k]): '/'.join(k) for k in ref.state_keys}
                actual = y0.get(float(got[0, j]), 'unknown')
                raise observe.Mismatch(f"column {c!r} should carry {'/'.join(keys[j])} but its first row is the initial value "
                                       f"of {actual}; {msg} (form={form}, vectorize={vec}, requests={requests})")
            mech['columns_checked'] = mech.get('columns_checked', 0) + 1
        mech[form + '_requests'] = mech.get(form + '_requests', 0) + 1
        if any('all' in r.split('/') for r in requests):
            mech['wildcard_requests'] = mech.get('wildcard_requests', 0) + 1
        if vec:
            mech['vectorized_runs'] = mech.get('vectorized_runs', 0) + 1
        if depth:
            mech['hierarchical_runs'] = mech.get('hierarchical_runs', 0) + 1
        if case.get('family') == 'shared_update':
            mech['shared_subcircuit_updates'] = mech.get('shared_subcircuit_updates', 0) + 1
        res.update(status='ok', symptom='', mech=mech)
        res['sample'] = {'requests': requests, 'form': form, 'vectorize': vec, 'columns': [str(c) for c in cols],
                         'nodes': ref.node_order}
    except observe.Mismatch as e:
        s = str(e)
        res.update(status='violation', symptom=('silent: ' if 'loud' not in s else '') + s, mech=mech, spec=spec,
                   requests=requests)
    return res


# MANIFEST-BEGIN
MANIFEST = {
    'technique': 'reference-model monitor on the columns of run(): per-column comparison with the reference trajectory of the variable named by the label, over generated circuits with pairwise different nodes',
    'level_text': 'For generated hierarchical circuits whose nodes all differ in initial values and constants, random output requests (dict/list form, single node, all at any level, several keys; vectorize on/off) are run and every returned column is compared (1e-7) with the independent reference trajectory of exactly the variable its label names; the column set must be a bijection onto the requested variables. A permuted or mis-resolved column changes values by O(1). A hostile-names family uses variables that look like derived labels (x_v1 next to several x) and node labels equal to variable names. Further families: wide groups and two-input edge templates. Wide groups are mostly requested as a whole; column labels are normalised only for the NaN padding of shorter tuples (a key spelled out character by character is a violation). A shared-sub-circuit family registers one mid-level CircuitTemplate object under two keys, edits a variable below one key with update_var and requests the variable below both keys and through a wildcard. Paths are also exercised as INPUT addresses (wildcard paths with one column per addressed node, machinery of C08), and a family uses node types that share one operator template, so that a wildcard spans several vectorization groups in interleaved declaration order. Held on observed requests only.',
    'level_note': 'Trusted: vp/ref.py trajectories; the label conventions listed in ASSUMPTIONS. Population outputs are covered under C16.',
}
# MANIFEST-END
