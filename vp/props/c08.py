"""C08 - Extrinsic inputs are applied at the right time to the right unit."""
import random

import numpy as np

from vp import gen, observe, monitors, build
from vp.ref import RefModel, match_nodes
from vp.runner import open_risks, stable_hash
from vp.props import c04

PID = 'C08'
LEVEL = 'exploration'
RULE = ("seeded circuits (several nodes per type, hierarchy 0-2, edges) x 1-3 white-noise input arrays sent to input variables "
        "selected by single paths and wildcards; shapes (N,), (N,1), (N,n) one column per addressed node (vectorized builds), "
        "1-D broadcast to several nodes (families: up to 8, and 11-16 nodes of one type), two runs in one process with long pulse-like "
        "arrays that agree at both ends, two inputs or inputs and edges converging on one variable; fixed step (euler, heun): "
        "returned trajectories of all state variables vs the reference iterates that use sample k during step k; adaptive: "
        "the compiled RHS is probed at times inside / between / at / beyond grid points and must use np.interp on "
        "linspace(0, T, N), and scipy runs are compared with a reference solution of the same interpolated problem; "
        "non-trivial = input reaches >= 1 state derivative (always) ; distinct = distinct (spec, input plan) hash")
DECIDING = ['euler_rows_compared', 'adaptive_probe_points', 'adaptive_runs', 'inputs_1d', 'inputs_col1', 'inputs_multicol',
            'broadcast_inputs', 'converging_inputs', 'sequence_runs', 'wide_targets', 'adaptive_runs_resampled', 'backend_fortran', 'backend_torch', 'backend_jax']
ASSUMPTIONS = ['input samples are white noise, so a shift by one sample or a column permutation is an O(1) error',
               'adaptive: samples are placed uniformly on [0, T] including both end points (as the property states)']
CASE_TIMEOUT = 240


def plan(tier, seed):
    rnd = random.Random(f'{PID}-{seed}')
    n = 170 if tier == 'quick' else 4000
    cases = []
    for _ in range(n):
        r = rnd.random()
        mode = 'euler' if r < 0.45 else 'heun' if r < 0.55 else 'probe' if r < 0.85 else 'scipy_run'
        cases.append({'family': 'main', 'cseed': rnd.randrange(1 << 30), 'mode': mode})
    # node types that share one operator (wildcard inputs over several vectorization groups)
    for _ in range(16 if tier == 'quick' else 300):
        cases.append({'family': 'shared_operator', 'cseed': rnd.randrange(1 << 30), 'mode': rnd.choice(['euler', 'euler', 'probe']),
                      'spec_kind': 'shared_ops', 'force': rnd.choice(['wildcard_multi', 'wildcard_multi', None])})
    # PopulationTemplate / Connectivity circuits: a 1-D input (broadcast to all units) converging with matrix, scalar-weight (incl.
    # weight 1.0) and coupling connections on one variable must add up (machinery of C16)
    for i in range(16 if tier == 'quick' else 300):
        cases.append({'family': 'population', 'cseed': rnd.randrange(1 << 30), 'mode': 'euler', 'force_input': True,
                      'want': 'conn_scalar' if i % 2 else None})
    # wide groups: one array broadcast / distributed to 11-16 nodes of one type
    for _ in range(16 if tier == 'quick' else 400):
        cases.append({'family': 'wide', 'cseed': rnd.randrange(1 << 30), 'mode': rnd.choice(['euler', 'euler', 'probe'])})
    # sequences: the same model is simulated twice in one process with two long (> 1000 samples) pulse-like input arrays that
    # agree in their first and last samples and differ in between; every run must use its own array
    for _ in range(14 if tier == 'quick' else 300):
        cases.append({'family': 'sequence', 'cseed': rnd.randrange(1 << 30), 'mode': 'euler'})
    # the step-k / sample-k alignment on the other backends (1-based Fortran, torch, jax), with two or three inputs
    for b in ('fortran', 'fortran', 'torch', 'jax'):
        for _ in range(4 if tier == 'quick' else 60):
            cases.append({'family': 'backends', 'cseed': rnd.randrange(1 << 30), 'mode': rnd.choice(['euler', 'heun']), 'backend': b})
    # an (N,n) array for n addressed nodes compiled WITHOUT vectorization (recorded finding)
    fam = 'probe:multi_column_input_not_vectorized' if 'multi_column_input_not_vectorized' in open_risks(PID) else 'main'
    for _ in range(6 if tier == 'quick' else 60):
        cases.append({'family': fam, 'cseed': rnd.randrange(1 << 30), 'mode': rnd.choice(['euler', 'scipy_run']),
                      'want': 'multi_column_input_not_vectorized'})
    return cases


def warmup(ctx):
    import pyrates  # noqa
    import scipy.integrate  # noqa
    import mpmath
    mpmath.mp.dps = 40
    ctx['mp'] = mpmath
    ctx['excluded'] = open_risks('C04') | open_risks('C01') | (open_risks(PID) - {'multi_column_input_not_vectorized'})
    monitors.install()


def make_case(case, ctx):
    rnd = random.Random(case['cseed'])
    for attempt in range(200):
        vec = rnd.random() < 0.5
        fam = case.get('family')
        if fam == 'wide':
            vec = rnd.random() < 0.8
        if fam == 'backends' or case.get('want') == 'multi_column_input_not_vectorized':
            vec = False
        force_wild = case.get('force') == 'wildcard_multi'     # (C06 input_paths family: wildcard paths, one column per addressed node)
        if force_wild:
            vec = True
        if case.get('spec_kind') == 'shared_ops':
            # node types that share an operator: the wildcard path over that operator addresses several vectorization groups
            spec = gen.gen_shared_op_net(rnd)
            feats, risk = gen.features(spec)
            feats = sorted(set(feats) | {'node_types_share_operator'})
            risk = sorted((set(risk) - {'vec_partial_input_default'}) | c04.vec_risks(spec))
            if set(risk) & ctx['excluded']:
                continue
        else:
          # (constants declared with an integer default do not compile on Fortran: finding F-C02-fortran-int-constant, probed by C02)
          spec, feats, risk = c04.make_spec({'cseed': rnd.randrange(1 << 30), 'family': 'wide' if fam == 'wide' else 'main',
                                             'no_int_decl': case.get('backend') == 'fortran'}, ctx['excluded'])
        if vec:
            for o in spec['ops'].values():
                for v, d in o['vars'].items():
                    if d[0] == 'in':
                        d[1] = 0.0
        ref = RefModel(spec)
        in_vars = sorted({(k[1], k[2]) for k in ref.param_keys if ref.kind[k] == 'in'})
        if not in_vars:
            continue
        N = rnd.randint(12, 40) if fam != 'sequence' else 10 * rnd.randint(101, 120)
        nrs = np.random.RandomState(case['cseed'] % (2 ** 31))
        plan_ = []
        for _ in range(rnd.randint(1, 3) if fam != 'backends' else rnd.randint(2, 3)):
            op, var = rnd.choice(in_vars)
            holders = [n for n in ref.node_order if (n, op, var) in ref.kind]
            n = rnd.choice(holders)
            parts = n.split('/')
            mode = rnd.choice(['single', 'single', 'all_leaf', 'all_all']) if fam != 'wide' else rnd.choice(['all_leaf', 'all_all'])
            if force_wild:
                mode = rnd.choice(['all_leaf', 'all_all'])
            if mode == 'all_leaf':
                parts[-1] = 'all'
            elif mode == 'all_all':
                parts = ['all'] * len(parts)
            path = '/'.join(parts + [op, var])
            targets = [t for t in match_nodes(ref.node_order, parts) if (t, op, var) in ref.kind]
            shape = rnd.choice(['1d', '1d', 'col1', 'multi'])
            if (case.get('want') == 'multi_column_input_not_vectorized' or force_wild) and len(targets) >= 2:
                shape = 'multi'
            elif shape == 'multi' and (not vec or len(targets) < 2):
                shape = '1d'
            if any(p['path'] == path for p in plan_):
                continue
            if shape == 'multi':
                arr = nrs.standard_normal((N, len(targets)))
            elif shape == 'col1':
                arr = nrs.standard_normal((N, 1))
            else:
                arr = nrs.standard_normal(N)
            if fam == 'sequence':
                # pulse protocol: zero baseline at both ends, O(1) samples in between
                arr[:4] = 0.0
                arr[-4:] = 0.0
            plan_.append({'path': path, 'targets': targets, 'shape': shape, 'arr': arr, 'op': op, 'var': var})
        if not plan_:
            continue
        if force_wild and not any(p['shape'] == 'multi' for p in plan_):
            continue
        if case.get('want') == 'multi_column_input_not_vectorized':
            if not any(p['shape'] == 'multi' for p in plan_):
                continue
            risk = sorted(set(risk) | {'multi_column_input_not_vectorized'})
        return spec, feats, risk, ref, vec, N, plan_
    raise RuntimeError('generator could not satisfy the constraints')


def input_values(plan_, k=None, t=None, T=None, N=None):
    """dict key -> total extrinsic value, at step k (fixed step) or at time t (linear interpolation on linspace(0,T,N))"""
    out = {}
    for p in plan_:
        arr = p['arr']
        for i, n in enumerate(p['targets']):
            col = arr[:, i] if p['shape'] == 'multi' else arr.reshape(arr.shape[0])
            if k is not None:
                v = float(col[min(k, len(col) - 1)])
            else:
                v = float(np.interp(t, np.linspace(0.0, T, N), col))
            key = (n, p['op'], p['var'])
            out[key] = out.get(key, 0.0) + v
    return out


def run_case(case, ctx):
    if case.get('family') == 'population':
        from vp.props import c16
        if 'c16ctx' not in ctx:
            ctx['c16ctx'] = {}
            c16.warmup(ctx['c16ctx'])
        if 'conn_scalar' in ctx['c16ctx'].get('open_risks', ()) and case.get('want') == 'conn_scalar':
            case = dict(case, want=None)
        res = c16.run_case(case, ctx['c16ctx'])
        m = res.setdefault('mech', {})
        m['population_input_cases'] = 1
        if m.get('input_converges_with_connection'):
            m['converging_inputs'] = m.get('converging_inputs', 0) + 1
        return res
    spec, feats, risk, ref, vec, N, plan_ = make_case(case, ctx)
    mode = case['mode']
    mech = {}
    dt = 1e-3
    T = N * dt
    inputs = {p['path']: p['arr'] for p in plan_}
    res = {'features': feats + [mode, 'vec' if vec else 'novec'] + [p['shape'] for p in plan_], 'risk': risk,
           'sig': stable_hash([spec, [(p['path'], p['shape']) for p in plan_], mode, vec, N]), 'nontrivial': True}
    for p in plan_:
        mech['inputs_' + {'1d': '1d', 'col1': 'col1', 'multi': 'multicol'}[p['shape']]] = \
            mech.get('inputs_' + {'1d': '1d', 'col1': 'col1', 'multi': 'multicol'}[p['shape']], 0) + 1
        if p['shape'] != 'multi' and len(p['targets']) > 1:
            mech['broadcast_inputs'] = mech.get('broadcast_inputs', 0) + 1
        if len(p['targets']) > 10:
            mech['wide_targets'] = mech.get('wide_targets', 0) + 1
    tk = [(n, p['op'], p['var']) for p in plan_ for n in p['targets']]
    if len(set(tk)) < len(tk) or any(any(e['tgt'] == k for e in ref.edges) or ref._intra_sources(k) for k in tk):
        mech['converging_inputs'] = 1
    try:
        keys = list(ref.state_keys)[:10]
        outputs = {f'o{i}': '/'.join(k) for i, k in enumerate(keys)}
        if case.get('family') == 'sequence':
            keys = keys[:4]
            outputs = {f'o{i}': '/'.join(k) for i, k in enumerate(keys)}
            nrs2 = np.random.RandomState((case['cseed'] + 17) % (2 ** 31))
            for run_i in range(2):
                if run_i == 1:
                    for p in plan_:
                        a = p['arr']
                        a[4:-4] = nrs2.standard_normal(a[4:-4].shape)       # same shape, same first/last samples
                    inputs = {p['path']: p['arr'] for p in plan_}
                try:
                    df = observe.run_model(spec, T=T, dt=dt, solver='euler', outputs=outputs, vectorize=vec,
                                           inputs={k_: v_.copy() for k_, v_ in inputs.items()}, dts=10 * dt)
                except Exception as e:
                    import traceback
                    raise observe.Mismatch(f"loud: run {run_i + 1} raised {type(e).__name__}: {e} :: {traceback.format_exc()[-600:]}")
                exp = observe.ref_trajectory(ref, keys, N, dt, input_fn=lambda k: input_values(plan_, k=k))[::10][:df.shape[0]]
                msg = observe.compare_traj(df.values, exp, rtol=1e-7)
                if msg == 'discard':
                    res.update(status='discard', symptom='reference not finite', mech=mech)
                    return res
                if msg:
                    raise observe.Mismatch(f"run {run_i + 1} of 2 in one process (inputs of {N} samples with equal first/last samples, "
                                           f"{[(p['path'], p['shape']) for p in plan_]}, vectorize={vec}): {msg}")
                mech['euler_rows_compared'] = mech.get('euler_rows_compared', 0) + df.shape[0]
                mech['sequence_runs'] = mech.get('sequence_runs', 0) + 1
        elif mode in ('euler', 'heun'):
            try:
                bkw = {}
                if case.get('backend'):
                    from vp.props.c02 import backend_class
                    if mode not in backend_class(case['backend']).SUPPORTED_SOLVERS:
                        mode = 'euler'
                    bkw['backend'] = case['backend']
                    mech['backend_' + case['backend']] = 1
                    res['features'].append('backend_' + case['backend'])
                df = observe.run_model(spec, T=T, dt=dt, solver=mode, outputs=outputs, vectorize=vec, inputs=inputs, **bkw)
            except Exception as e:
                import traceback
                raise observe.Mismatch(f"loud: run raised {type(e).__name__}: {e} :: {traceback.format_exc()[-600:]}")
            msgs = []
            for stage2 in ['same']:      # sample k is the value used during integration step k, in both Heun stages
                exp = observe.ref_trajectory(ref, keys, N, dt, heun=(mode == 'heun'),
                                             input_fn=lambda k: input_values(plan_, k=k), stage2=stage2)
                msgs.append(observe.compare_traj(df.values, exp, rtol=1e-7))
            if 'discard' in msgs:
                res.update(status='discard', symptom='reference not finite', mech=mech)
                return res
            if all(msgs):
                raise observe.Mismatch(f"{mode} trajectory with extrinsic inputs {[(p['path'], p['shape']) for p in plan_]} "
                                       f"(vectorize={vec}): {msgs[0]}")
            mech['euler_rows_compared'] = mech.get('euler_rows_compared', 0) + df.shape[0]
        elif mode == 'probe':
            try:
                obs = observe.compile_vf(spec, vectorize=vec, inputs=inputs, solver='scipy', step_size=dt)
            except Exception as e:
                import traceback
                raise observe.Mismatch(f"loud: get_run_func raised {type(e).__name__}: {e} :: {traceback.format_exc()[-600:]}")
            pos = observe.locate_states(obs, ref, check_smap=False) if False else locate(obs, ref)
            rnd = random.Random(case['cseed'] + 5)
            grid = np.linspace(0.0, T, N)
            ts = [0.0, float(grid[1]), float(grid[N // 2]), float(grid[-1]), T * 1.3, -0.01,
                  float(0.5 * (grid[2] + grid[3])), float(grid[3] + 0.25 * (grid[4] - grid[3])), rnd.uniform(0, T),
                  rnd.uniform(0, T)]
            y0 = np.asarray(obs['args'][1], dtype=float)
            for t in ts:
                y = np.array([rnd.gauss(0, 1) for _ in range(len(y0))])
                ydict = {k: float(y[i]) for k, i in pos.items()}
                exp, ill = observe.ref_rhs_checked(ref, ydict, ref.p0(), ctx['mp'], t=t,
                                                   inputs=input_values(plan_, t=t, T=T, N=N))
                if ill:
                    continue
                got = observe.call_vf(obs, obs['args'], y.copy(), t=t)
                for k, i in pos.items():
                    if not abs(got[i] - exp[k]) <= 1e-8 * max(1.0, abs(exp[k])):
                        raise observe.Mismatch(f"adaptive RHS at t={t!r} (grid spacing {grid[1]!r}, T={T!r}): derivative of "
                                               f"{'/'.join(k)} is {got[i]!r}, np.interp reference {exp[k]!r}; inputs "
                                               f"{[(p['path'], p['shape']) for p in plan_]} vectorize={vec}")
                mech['adaptive_probe_points'] = mech.get('adaptive_probe_points', 0) + 1
        else:
            from scipy.integrate import solve_ivp
            # the number of samples need not be simulation_time / step_size: N samples are spread over [0, T]
            fac = random.Random(case['cseed'] + 9).choice([1.0, 1.0, 0.5, 2.0, 3.0])
            T = T * fac
            if fac != 1.0:
                mech['adaptive_runs_resampled'] = 1
            try:
                df = observe.run_model(spec, T=T, dt=dt, solver='scipy', outputs=outputs, vectorize=vec, inputs=inputs,
                                       method='RK45', rtol=1e-9, atol=1e-11, max_step=T / (N - 1) / 2)
            except Exception as e:
                import traceback
                raise observe.Mismatch(f"loud: run(scipy) raised {type(e).__name__}: {e} :: {traceback.format_exc()[-600:]}")
            skeys = list(ref.state_keys)
            p0 = ref.p0()

            def f(t, y):
                d, _ = ref.rhs(dict(zip(skeys, y)), p0, t, inputs=input_values(plan_, t=t, T=T, N=N))
                return [d[k] for k in skeys]
            times = np.asarray(df.index, dtype=float)
            # reference solution: the interpolated input has a kink at every sample, so the reference integrates from sample to
            # sample (smooth pieces, restarted at the kinks) at tight tolerance
            grid_ = np.linspace(0.0, T, N)
            y_ = np.array([float(ref.val[k]) for k in skeys])
            full = np.zeros((len(times), len(skeys)))
            done = np.zeros(len(times), dtype=bool)
            ok_ = True
            for gi in range(N - 1):
                a_, b_ = float(grid_[gi]), float(grid_[gi + 1])
                sel = np.nonzero((~done) & (times >= a_ - 1e-15) & (times <= b_ + 1e-15))[0]
                te = np.unique(np.concatenate([np.clip(times[sel], a_, b_), [b_]]))
                seg = solve_ivp(f, (a_, b_), y_, method='DOP853', rtol=1e-12, atol=1e-14, t_eval=te)
                if not seg.success:
                    ok_ = False
                    break
                for j in sel:
                    full[j] = seg.y[:, int(np.argmin(np.abs(te - min(max(times[j], a_), b_))))]
                    done[j] = True
                y_ = seg.y[:, -1]
            if not ok_ or not done.all():
                res.update(status='discard', symptom='reference solver failed', mech=mech)
                return res
            exp = full[:, [skeys.index(k) for k in keys]]
            # what the SAME method and settings (RK45, rtol 1e-9, first step dt, step limit) achieve on the reference right-hand
            # side: the error control of an explicit method is unreliable at the kinks (deviations of 1e-6 .. 1e-5 from the
            # solution although rtol = 1e-9); the run is judged against that, not against a constant
            hand = solve_ivp(f, (0.0, T), [float(ref.val[k]) for k in skeys], method='RK45', rtol=1e-9, atol=1e-11, t_eval=times,
                             max_step=T / (N - 1) / 2, first_step=dt)
            err_hand = float(np.max(np.abs(hand.y.T - full))) if hand.success and hand.y.shape[1] == len(times) else 0.0
            scale_ = max(1.0, float(np.max(np.abs(exp)))) if exp.size else 1.0
            # (floor 2e-5: two RK45 runs whose right-hand sides differ in the last bit take different steps across the kinks and end
            # up 1e-7 .. 1e-5 apart; a misplaced sample grid - shifted, stretched by N/(N-1), nearest sample - deviates by 1e-3 .. 1e-2)
            msg = observe.compare_traj(df.values, exp, rtol=max(2e-5, (20 * err_hand + 1e-7) / scale_))
            if msg == 'discard':
                res.update(status='discard', symptom='reference not finite', mech=mech)
                return res
            if msg:
                raise observe.Mismatch(f"scipy run with interpolated inputs (vectorize={vec}): {msg}")
            mech['adaptive_runs'] = mech.get('adaptive_runs', 0) + 1
        res.update(status='ok', symptom='', mech=mech)
        res['sample'] = {'inputs': [(p['path'], p['shape'], p['targets']) for p in plan_], 'mode': mode, 'vectorize': vec,
                         'N': N, 'first_samples': {p['path']: np.asarray(p['arr']).ravel()[:3].tolist() for p in plan_}}
    except observe.Mismatch as e:
        s = str(e)
        res.update(status='violation', symptom=('silent: ' if 'loud' not in s else '') + s, mech=mech, spec=spec,
                   plan=[(p['path'], p['shape'], p['targets']) for p in plan_])
    return res


def locate(obs, ref):
    """positions of frontend state variables (input nodes add no state)"""
    return observe.locate_states(obs, ref, check_smap=True)


# MANIFEST-BEGIN
MANIFEST = {
    'technique': 'reference-model monitor on trajectories and on the compiled RHS probed at chosen times, with white-noise input arrays (any misalignment is an O(1) error)',
    'level_text': 'Generated circuits receive 1-3 white-noise input arrays through single and wildcard paths in shapes (N,), (N,1), (N,n); Euler/Heun trajectories of all state variables must equal the reference iterates that consume sample k during step k (1e-7), the adaptive RHS probed at times inside, between, at and beyond grid points must equal the reference with np.interp on linspace(0,T,N) (1e-8), and scipy runs must match a reference solution of the interpolated problem; inputs converging with edges, same-node operators or other inputs must add up. Further families: arrays broadcast/distributed to 11-16 nodes of one type, and two runs in one process with long (>1000 samples) pulse-like arrays that agree at both ends (each run must use its own array). Further families: adaptive runs whose number of samples differs from simulation_time/step_size, and fixed-step runs with two or three inputs on the Fortran (1-based), torch and jax backends. Adaptive runs are compared with a reference that integrates from sample to sample (the interpolated input has a kink at every sample), with a tolerance relative to the error of a hand-written run with the same method and settings. Further families: node types that share one operator template (wildcard inputs over several vectorization groups), and PopulationTemplate circuits in which a 1-D input converges with matrix, unit-gain scalar and coupling connections on one variable (machinery of C16). Held on observed runs only.',
    'level_note': 'Trusted: vp/ref.py, numpy.interp as the meaning of linear interpolation. Default backend (other backends interp helpers: C02).',
}
# MANIFEST-END
