"""C07 - Parameter and initial-value overrides reach exactly their targets."""
import copy
import random

import numpy as np

from vp import gen, observe, monitors, build, tplfp
from vp.ref import RefModel, match_nodes
from vp.runner import open_risks, stable_hash

PID = 'C07'
LEVEL = 'exploration'
RULE = ("seeded circuits whose nodes share NodeTemplate / OperatorTemplate objects (and, in a focus family, whose sub-circuits "
        "share one CircuitTemplate object) x random sequences of overrides: node-template operator variations, update_var with "
        "scalars and per-node arrays over single paths and wildcards at any hierarchy level, apply(node_values=...), "
        "update_var(edge_vars=...); oracle = a value table maintained by the reference model under the documented addressing "
        "(every variable not addressed keeps its value); observed = argument values, initial state and derivatives returned by "
        "get_run_func and the first row of run, for the updated circuit AND for a second circuit built from the same template "
        "objects before the updates; M-tpl fingerprints of the shared template objects must not change; non-trivial = at least "
        "one override that addresses some but not all nodes sharing a template; distinct = distinct (spec, overrides) hash")
DECIDING = ['arg_value_checks', 'layout_checks', 'derivatives_compared', 'sibling_circuit_checks', 'template_fingerprint_checks',
            'update_var_scalar', 'update_var_array', 'node_values', 'edge_updates', 'first_row_checks',
            'population_updates_scalar', 'population_updates_per_unit', 'late_edges_added_in_place', 'compiled_before_updates', 'population_sibling_checks', 'sibling_built_from_same_edge_lists']    # ('edge_template_constant_updates' is a rare sub-kind of 'edge_updates': counted, not required)
ASSUMPTIONS = ['array values are distributed one per addressed node in declaration (path) order',
               'node_values addresses all nodes matching the node part of the path']
CASE_TIMEOUT = 180
FOCUS = ['shared_subcircuit_update', 'node_values_shared_template', 'initial_value_update_after_compile']


def plan(tier, seed):
    rnd = random.Random(f'{PID}-{seed}')
    n = 260 if tier == 'quick' else 7000
    cases = [{'family': 'main', 'cseed': rnd.randrange(1 << 30)} for _ in range(n)]
    cases += [{'family': 'population', 'cseed': rnd.randrange(1 << 30)} for _ in range(30 if tier == 'quick' else 600)]
    opened = open_risks(PID)
    k = 12 if tier == 'quick' else 120
    for feat in FOCUS:
        fam = 'probe:' + feat if feat in opened else 'main'
        cases += [{'family': fam, 'cseed': rnd.randrange(1 << 30), 'want': feat} for _ in range(k)]
    return cases


def run_population_case(case, ctx):
    """update_var on the variables of a PopulationTemplate node (scalar for all units, or one value per unit): the compiled
    population circuit must equal the explicit network with the updated per-unit values (vp/props/c16.py does the comparison)."""
    from vp.props import c16
    if case.get('spec') is not None:
        res = c16.run_case(case, ctx)
    else:
        rnd = random.Random(case['cseed'])
        opened16 = open_risks('C16')
        for attempt in range(300):
            plan_, risk = c16.gen_pop_case(rnd, None, opened16)
            if risk and set(risk) & set(opened16):
                continue
            if any(c.get('delay') or c.get('form') == 'dynamic' for c in plan_['conns']):
                continue
            break
        else:
            raise RuntimeError('generator could not satisfy the constraints')
        used = set()

        def fresh():
            while True:
                x = round(rnd.uniform(2.0, 4.0), 4)
                if x not in used:
                    used.add(x)
                    return x
        pre = {}
        for pn, p in plan_['pops'].items():
            op = plan_['ops'][p['op']]
            de = {e[1] for e in op['eqs'] if e[0] == 'de'}
            cands = [v for v, d in op['vars'].items() if d[0] == 'const' or v in de]
            for v in rnd.sample(cands, min(len(cands), rnd.randint(1, 2))):
                # (states are located by their values: one scalar for all units only for constants)
                scalar = (rnd.random() < 0.5 and v not in de) or p['n'] == 1
                orig = p['params'].get(v)
                p['params'][v] = [fresh()] * p['n'] if scalar else [fresh() for _ in range(p['n'])]
                pre[f'{pn}/{v}'] = {'orig': orig, 'scalar': scalar, 'via': rnd.choice(['update_var', 'update_var', 'node_values'])}
        plan_['pre_update'] = pre
        plan_['sibling_same_containers'] = rnd.random() < 0.5
        res = c16.run_case({'cseed': case['cseed'], 'spec': plan_, 'case_risk': []}, ctx)
    # a sibling circuit that holds the same PopulationTemplate objects and was built before the updates must not see them
    if res.get('status') == 'ok':
        plan2 = (case.get('spec') or plan_)
        c16.build_population_circuit(plan2)
        sib = getattr(c16.build_population_circuit, 'sibling', None)
        if sib is not None:
            try:
                f_, a_, n_, s_ = sib.get_run_func('sib_vf', step_size=1e-3, vectorize=True, verbose=False, clear=True, in_place=False,
                                                  float_precision='float64')
                byname = dict(zip(n_, a_))
                y0_ = set(np.asarray(byname['y'], dtype=float).round(10).tolist())
                for k_, u_ in plan2['pre_update'].items():
                    pn, v = k_.split('/')
                    p_ = plan2['pops'][pn]
                    final = [float(x) for x in p_['params'][v]]
                    is_state = v in {e[1] for e in plan2['ops'][p_['op']]['eqs'] if e[0] == 'de'}
                    if is_state:
                        leaked = [x for x in final if round(x, 10) in y0_]
                        if leaked:
                            raise observe.Mismatch(f"sibling circuit holding the same PopulationTemplate object starts with the initial values "
                                                   f"{leaked} given to the OTHER circuit through update_var({k_})")
                    else:
                        got = np.asarray(byname.get(f"{pn}/{p_['op']}/{v}", np.nan), dtype=float).ravel().tolist()
                        if any(abs(g - x) < 1e-12 for g in got for x in final):
                            raise observe.Mismatch(f"sibling circuit holding the same PopulationTemplate object carries the values {got} that "
                                                   f"update_var({k_}) gave to the OTHER circuit")
                res.setdefault('mech', {})['population_sibling_checks'] = 1
            except observe.Mismatch as e:
                res.update(status='violation', symptom='silent: ' + str(e), spec=plan2)
            except Exception as e:
                res.update(status='violation', symptom=f'loud: sibling population circuit raised {type(e).__name__}: {e}', spec=plan2)
    res['risk'] = []
    res['case_extra'] = {'case_risk': []}
    m = res.setdefault('mech', {})
    pre = (case.get('spec') or plan_).get('pre_update', {})
    m['population_node_values'] = sum(1 for u in pre.values() if u.get('via') == 'node_values')
    m['population_updates_scalar'] = sum(1 for u in pre.values() if u['scalar'])
    m['population_updates_per_unit'] = sum(1 for u in pre.values() if not u['scalar'])
    res['features'] = list(res.get('features', [])) + ['population_update_var']
    return res


def warmup(ctx):
    import pyrates  # noqa
    import mpmath
    mpmath.mp.dps = 40
    ctx['mp'] = mpmath
    ctx['open_risks'] = open_risks(PID)
    ctx['excluded'] = open_risks('C01')
    monitors.install()


def make_case(case, ctx):
    if case.get('spec') is not None:
        spec = case['spec']
        f, r = gen.features(spec)
        return spec, f, sorted(set(r) | set(case.get('case_risk', [])))
    rnd = random.Random(case['cseed'])
    want = case.get('want')
    opened = ctx['open_risks']
    for attempt in range(300):
        depth = rnd.choice([0, 0, 1, 2]) if want != 'shared_subcircuit_update' else rnd.choice([1, 2])
        spec, feats, risk = gen.gen_net(rnd, pool=gen.SAFE_POOL, n_nodes=rnd.choice([2, 3, 4, 5, 6]), max_types=2,
                                        depth=depth, same_type_bias=True, forbid=ctx['excluded'],
                                        edge_density=rnd.choice([0.0, 0.2, 0.5]))
        if want is None and depth == 0 and spec['circ'].get('edges') and rnd.random() < 0.45:
            # some edges run through EdgeTemplates whose operator constants (possibly declared with an integer default) get
            # per-edge values through the edge attribute dictionary, at construction and through update_var(edge_vars=...)
            spec = gen.add_edge_templates(spec, rnd, frac=0.7, shapes=['lin', 'tanh', 'offset', 'sat'])
            if set(gen.features(spec)[1]) & (ctx['excluded'] | open_risks('C04')):
                continue        # (templated edges can create configurations with recorded findings of C01 / C04)
        vals = gen.Vals(rnd)
        for o in spec['ops'].values():
            for v, d in o['vars'].items():
                vals.used.add(d[1])
        crisk = set()
        if want == 'shared_subcircuit_update' or (depth >= 1 and rnd.random() < 0.0):
            # two sub-circuits of the top level are the very same CircuitTemplate object
            subs = spec['circ']['subs']
            first = list(subs)[0]
            subs[first]['__share'] = 'shared0'
            subs[first + '_twin'] = subs[first]
            crisk.add('shared_subcircuit_update')
        # constants declared with an integer default (k: 2) - overrides are floats all the same
        if rnd.random() < 0.35:
            cands_i = [(o, v) for o, od in spec['ops'].items() for v, d in od['vars'].items() if d[0] == 'const']
            for o, v in rnd.sample(cands_i, min(len(cands_i), rnd.randint(1, 2))):
                spec['ops'][o]['vars'][v][1] = rnd.choice([1, 2, 3, 5])
            crisk_int = True
        else:
            crisk_int = False
        ref0 = RefModel(spec)
        nodes = ref0.node_order

        def newval():
            # mostly unique O(1) values; sometimes the special values 0.0, negative numbers and small integers
            r_ = rnd.random()
            if r_ < 0.14:
                return 0.0
            if r_ < 0.22:
                return -vals.new()
            if r_ < 0.28:
                return float(rnd.choice([1, 2, 3]))
            return vals.new()
        # overrides
        updates, node_values, edge_updates = [], {}, []
        kinds = ['int_declared_constants'] if crisk_int else []
        for _ in range(rnd.randint(1, 4)):
            kind = rnd.choice(['scalar', 'scalar', 'array', 'node_values', 'edge'])
            cands = [k for k in ref0.kind if k[0] in nodes and ref0.kind[k] in ('const', 'state')]
            if kind in ('scalar', 'array', 'node_values') and cands:
                n, op, v = rnd.choice(cands)
                parts = n.split('/')
                mode = rnd.choice(['single', 'single', 'all_leaf', 'all_suffix', 'all_all'])
                if mode == 'all_leaf':
                    parts[-1] = 'all'
                elif mode == 'all_suffix':
                    i = rnd.randrange(len(parts))
                    parts[i:] = ['all'] * (len(parts) - i)
                elif mode == 'all_all':
                    parts = ['all'] * len(parts)
                path = '/'.join(parts + [op, v])
                if kind == 'node_values':
                    targets = match_nodes(nodes, parts)
                    if any((t, op, v) not in ref0.kind for t in targets) or path in node_values:
                        continue
                    if len(targets) > 1 and rnd.random() < 0.5:
                        node_values[path] = [newval() for _ in targets]
                    else:
                        node_values[path] = newval()
                    # nodes that share the NodeTemplate object with a target but are not addressed
                    tt = {t: dict(ref0_nt(spec))[t] for t in targets}
                    others = [m for m, nt in ref0_nt(spec) if m not in targets and nt in tt.values()]
                    if others:
                        crisk.add('node_values_shared_template')
                    kinds.append('node_values')
                else:
                    targets = [t for t in match_nodes(nodes, parts) if (t, op, v) in ref0.kind]
                    if kind == 'array' and len(targets) > 1:
                        updates.append([path, [newval() for _ in targets]])
                        kinds.append('update_var_array')
                    else:
                        updates.append([path, newval()])
                        kinds.append('update_var_scalar')
            elif kind == 'edge' and spec['circ'].get('edges'):
                e = rnd.choice(spec['circ']['edges'])
                # (update_var addresses an edge by its (source, target) pair: with parallel edges between two variables the address is
                # ambiguous - the property does not say which edge is meant -, so only pairs with a single edge are updated)
                if sum(1 for x in spec['circ']['edges'] if x[0] == e[0] and x[1] == e[1]) > 1:
                    continue
                if not any(x[0] == e[0] and x[1] == e[1] for x in edge_updates):
                    tkeys = [k_ for k_ in e[3] if '/' in k_ and not isinstance(e[3][k_], str)]
                    if tkeys and rnd.random() < 0.6:
                        edge_updates.append([e[0], e[1], {rnd.choice(tkeys): round(vals.new() * 2 + 0.25, 4)}])
                        kinds.append('edge_template_constant_updates')
                    else:
                        # (mostly unique values; sometimes the unit gains +1.0 / -1.0, for which generated code omits the multiplication)
                        edge_updates.append([e[0], e[1], {'weight': round(vals.new() * 2, 4) if rnd.random() < 0.75 else rnd.choice([-1.0, -1.0, 1.0])}])
                    kinds.append('edge_updates')
        if not [k_ for k_ in kinds if k_ != 'int_declared_constants']:
            continue
        # the template has already been compiled once (read-only: in_place=False) when the overrides arrive
        if want == 'initial_value_update_after_compile' or rnd.random() < 0.3:
            spec['compile_first'] = True
            kinds.append('compiled_before_updates')
            state_upd = [u for u in updates if ref0.kind.get(tuple(u[0].rsplit('/', 2))) == 'state' or
                         any(ref0.kind.get((t_,) + tuple(u[0].rsplit('/', 2)[1:])) == 'state' for t_ in nodes)]
            state_nv = [k_ for k_ in node_values if any(ref0.kind.get((t_,) + tuple(k_.rsplit('/', 2)[1:])) == 'state' for t_ in nodes)]
            if state_upd or state_nv:
                crisk.add('initial_value_update_after_compile')
        spec['updates'] = updates
        spec['node_values'] = node_values
        spec['edge_updates'] = edge_updates
        # some (untemplated, top-level) edges are added to the finished template in place (update_template(edges=..., in_place=True)
        # or add_edges_from_matrix) BEFORE the edge updates, which may address old and new edges alike
        plain = [i for i, e in enumerate(spec['circ'].get('edges', [])) if e[2] is None and set(e[3]) <= {'weight'}]
        if plain and rnd.random() < 0.4:
            spec['late_edges'] = sorted(rnd.sample(plain, rnd.randint(1, min(2, len(plain)))))
            spec['late_how'] = rnd.choice(['update_template', 'add_edges_from_matrix'])
            kinds.append('late_edges_added_in_place')
        if want and want not in crisk:
            continue
        if (set(opened) - {want}) & crisk:
            continue
        case['case_risk'] = sorted(crisk)
        case['kinds'] = kinds
        f, r = gen.features(spec)
        return spec, f, sorted(set(r) | crisk)
    raise RuntimeError('generator could not satisfy the constraints')


def ref0_nt(spec):
    from vp.ref import _walk
    return _walk(spec['circ'])[0]


def run_case(case, ctx):
    if case.get('family') == 'population':
        return run_population_case(case, ctx)
    spec, feats, risk = make_case(case, ctx)
    kinds = case.get('kinds', [])
    rnd = random.Random(case['cseed'] + 3)
    mech = {}
    res = {'features': feats + sorted(set(kinds)), 'risk': risk, 'sig': stable_hash(spec),
           'case_extra': {'case_risk': case.get('case_risk', []), 'kinds': kinds}}
    for k in kinds:
        mech[k] = mech.get(k, 0) + 1
    base_spec = {k: v for k, v in spec.items() if k not in ('updates', 'node_values', 'edge_updates', 'late_edges', 'late_how', 'compile_first')}
    try:
        ref = RefModel(spec)
        ref_base = RefModel(base_spec)
        res['nontrivial'] = any(ref.val[k] != ref_base.val[k] for k in ref.val) and \
            any(ref.val[k] == ref_base.val[k] for k in ref.val if ref.kind[k] in ('const', 'state'))
        # build the template objects once; a sibling circuit is built from the SAME objects before the updates
        late = set(spec.get('late_edges', []))
        if late:
            early_spec = copy.deepcopy(base_spec)
            early_spec['circ']['edges'] = [e for i, e in enumerate(base_spec['circ']['edges']) if i not in late]
            tmpl_nou, objs = build.build_python(early_spec)
            le = [base_spec['circ']['edges'][i] for i in sorted(late)]
            if spec.get('late_how') == 'add_edges_from_matrix':
                for s_, t_, _, a_ in le:
                    sn, so, sv = s_.rsplit('/', 2)
                    tn, to, tv = t_.rsplit('/', 2)
                    # one call per edge: a 1 x 1 'matrix' between the two nodes
                    tmpl_nou.add_edges_from_matrix(source_var=f'{so}/{sv}', target_var=f'{to}/{tv}', source_nodes=[sn], target_nodes=[tn],
                                                   weight=np.array([[float(a_.get('weight', 1.0))]]), min_weight=0.0)
            else:
                tmpl_nou.update_template(edges=[(s_, t_, None, dict(a_)) for s_, t_, _, a_ in le], in_place=True)
        else:
            tmpl_nou, objs = build.build_python(base_spec)
        sibling = copy.copy(tmpl_nou)   # shallow: same node/operator template objects, own dicts
        from pyrates import CircuitTemplate
        share_lists = not late and rnd.random() < 0.5
        sibling = rebuild_from_objects(base_spec, objs, share_edge_lists=share_lists)
        if share_lists:
            mech['sibling_built_from_same_edge_lists'] = 1
        fp_before = tplfp.dumps([tplfp.fingerprint(o) for o in list(objs['ops'].values()) + list(objs['nts'].values())])
        if spec.get('compile_first'):
            try:
                tmpl_nou.get_run_func('pre_vf', step_size=1e-3, vectorize=False, verbose=False, clear=True, in_place=False,
                                      float_precision='float64')
            except Exception as e:
                raise observe.Mismatch(f"loud: first get_run_func(in_place=False) raised {type(e).__name__}: {e}")
        # now apply the overrides to the first circuit through the public API
        for upd in spec.get('updates', []):
            val = np.asarray(upd[1], dtype=float) if isinstance(upd[1], (list, tuple)) else upd[1]
            tmpl_nou.update_var(node_vars={upd[0]: val})
        if spec.get('edge_updates'):
            tmpl_nou.update_var(edge_vars=[(s_, t_, dict(a_)) for s_, t_, a_ in spec['edge_updates']])
        fp_after = tplfp.dumps([tplfp.fingerprint(o) for o in list(objs['ops'].values()) + list(objs['nts'].values())])
        mech['template_fingerprint_checks'] = 1
        if fp_before != fp_after:
            d = tplfp.diff(__import__('json').loads(fp_before), __import__('json').loads(fp_after))
            raise observe.Mismatch(f"M-tpl: update_var changed a shared template object: {d}")
        vec = rnd.random() < 0.3 and not (set(risk) & ctx['excluded'])
        vec = False
        try:
            obs = observe.compile_vf(spec, vectorize=vec, template=tmpl_nou)
        except Exception as e:
            import traceback
            raise observe.Mismatch(f"loud: get_run_func raised {type(e).__name__}: {e} :: {traceback.format_exc()[-500:]}")
        observe.compare_vf(obs, ref, rnd, ctx['mp'], n_points=3, vectorized=vec, mech=mech)
        check_weights(obs, ref, mech)
        # shared template objects still unchanged after compiling with node_values
        fp_after2 = tplfp.dumps([tplfp.fingerprint(o) for o in list(objs['ops'].values()) + list(objs['nts'].values())])
        if fp_before != fp_after2:
            d = tplfp.diff(__import__('json').loads(fp_before), __import__('json').loads(fp_after2))
            raise observe.Mismatch(f"M-tpl: get_run_func(node_values=...) changed a shared template object: {d}")
        # the sibling circuit (same template objects, no overrides) must still be the base model
        try:
            obs2 = observe.compile_vf(base_spec, vectorize=False, template=sibling)
        except Exception as e:
            raise observe.Mismatch(f"loud: sibling circuit get_run_func raised {type(e).__name__}: {e}")
        m2 = {}
        try:
            observe.compare_vf(obs2, ref_base, rnd, ctx['mp'], n_points=2, vectorized=False, mech=m2)
        except observe.Mismatch as e:
            raise observe.Mismatch(f"sibling circuit built from the same template objects changed: {e}")
        mech['sibling_circuit_checks'] = 1
        # first row of run
        if rnd.random() < 0.5:
            keys = list(ref.state_keys)[:6]
            outputs = {f'o{i}': '/'.join(k) for i, k in enumerate(keys)}
            t3, _ = build.build_python(spec)
            df = observe.run_model(spec, T=3e-3, dt=1e-3, outputs=outputs, template=t3)
            y0 = np.array([float(ref.val[k]) for k in keys])
            if not np.array_equal(df.values[0], y0):
                raise observe.Mismatch(f"first row of run {df.values[0].tolist()} != overridden initial values {y0.tolist()}")
            mech['first_row_checks'] = 1
        res.update(status='ok', symptom='', mech=mech)
        res['sample'] = {'updates': spec.get('updates'), 'node_values': spec.get('node_values'),
                         'edge_updates': spec.get('edge_updates'), 'nodes': dict(ref0_nt(spec))}
    except observe.Mismatch as e:
        s = str(e)
        res.update(status='violation', symptom=('silent: ' if 'loud' not in s else '') + s, mech=mech, spec=spec)
    return res


def rebuild_from_objects(spec, objs, share_edge_lists=False):
    """Second circuit from the very same NodeTemplate / OperatorTemplate objects (share_edge_lists: also from the very same
    edge list and edge attribute dictionary objects that the first circuit was constructed with)."""
    from pyrates import CircuitTemplate
    shared = {}
    lists = list(objs.get('edge_lists', [])) if share_edge_lists else []
    counter = [0]

    def circ(c):
        tag = c.get('__share')
        if tag is not None and tag in shared:
            return shared[tag]
        edges = [(s, t, objs['ets'][et] if et else None, dict(a)) for s, t, et, a in c.get('edges', [])]
        if share_edge_lists:
            mine = lists[counter[0]] if counter[0] < len(lists) else None
            counter[0] += 1
            if mine is not None and len(mine) == len(edges):
                edges = mine
        if c.get('subs'):
            t_ = CircuitTemplate(name=c['name'], circuits={k: circ(v) for k, v in c['subs'].items()}, edges=edges)
        else:
            t_ = CircuitTemplate(name=c['name'], nodes={k: objs['nts'][v] for k, v in c['nodes'].items()}, edges=edges)
        if tag is not None:
            shared[tag] = t_
        return t_
    return circ(spec['circ'])


def check_weights(obs, ref, mech):
    """every unique edge weight (after edge updates) must be found in the in_edge arguments"""
    vals = []
    for name, a in zip(obs['names'], obs['args']):
        if '/in_edge_' in name and observe.is_param_array(a):
            vals += np.asarray(a, dtype=float).ravel().tolist()
    pairs = [(e['src'], e['tgt']) for e in ref.edges]
    if len(set(pairs)) != len(pairs):
        return
    ws = [e['w'] for e in ref.edges]
    for w in ws:
        if ws.count(w) == 1 and abs(w - 1.0) > 1e-6 and abs(w) > 1e-3:
            if vals.count(w) != 1:
                raise observe.Mismatch(f"edge weight {w} occurs {vals.count(w)} times in the returned in_edge arguments {vals[:20]}")
            mech['edge_weight_checks'] = mech.get('edge_weight_checks', 0) + 1


# MANIFEST-BEGIN
MANIFEST = {
    'technique': 'value-table oracle (reference model) on the arguments/initial state/derivatives returned after generated override sequences + structural fingerprints of shared template objects + sibling-circuit check',
    'level_text': 'Random sequences of node-template variations, update_var (scalars, per-node arrays, wildcards, hierarchy), node_values and edge-attribute updates are applied to circuits whose nodes share template objects; the returned argument values, initial state, derivatives at probe points and the first row of run must equal the reference value table (only addressed variables change), a second circuit built from the same template objects before the updates must still be the base model, and fingerprints of the shared OperatorTemplate/NodeTemplate objects must be unchanged. Override values include 0.0, negative numbers and small integers; constants may be declared with an integer default. Edges may be added in place (update_template(in_place=True), add_edges_from_matrix) before edge updates; the template may have been compiled once before the overrides arrive (constants: main sweep; initial values: probe family of a recorded finding); update_var on PopulationTemplate nodes (scalar and per-unit values) is compared unit by unit with the explicit network. Edge updates address only (source, target) pairs with a single edge and sometimes set the unit gains +1.0 / -1.0. Held on observed sequences only.',
    'level_note': 'Trusted: vp/ref.py addressing semantics (documented precedence), vp/tplfp.py fingerprints. Edge updates only for edges defined at the top level (get_edge addresses the defining circuit).',
}
# MANIFEST-END
