"""C18 - auto-07p export addresses every parameter and state consistently."""
import importlib
import os
import random
import re
import sys

import numpy as np

from vp import gen, observe, monitors, build
from vp.ref import RefModel
from vp.runner import open_risks, stable_hash

PID = 'C18'
LEVEL = 'exploration'
RULE = ("seeded scalar models (1-3 nodes, 1-26 parameters so that the reserved PAR range 11..14 is crossed, declaration order of "
        "variables permuted against order of first use, edges) exported with get_run_func(backend='fortran', auto=True) for "
        "random scenario selections; the emitted <file>.f90 and c.<scenario> files are parsed and the compiled func / stpnt are "
        "called through f2py (built with gfortran -fcheck=all): slots pairwise distinct and outside 11..14, ascending in "
        "declaration order per operator; the same name<->slot map in parnames, STPNT comments, the argument list of `call vf(..)` "
        "(matched against the subroutine signature) and DFDP columns; STPNT returns the model's parameter values and initial state; "
        "NDIM / NPAR / unames; func with PAR from STPNT, perturbed slot by slot, equals the reference RHS with the correspondingly "
        "named parameter perturbed; DFDU / DFDP vs central differences of func; non-trivial = >= 10 parameters or >= 2 nodes; "
        "distinct = distinct (spec, scenarios) hash")
DECIDING = ['exports_checked', 'slots_checked', 'exports_crossing_reserved_range', 'perturbed_slot_evaluations', 'dfdu_entries',
            'dfdp_entries', 'stpnt_values_checked', 'constants_files_checked', 'bvp_exports']
ASSUMPTIONS = ['gfortran -fcheck=all -g -fbacktrace via FFLAGS: a Fortran run-time error aborts the case process and is reported as violation']
CASE_TIMEOUT = 600
WALL_BUDGET = {'quick': 1500, 'thorough': 14000}
FUNCS = ('sin', 'cos', 'tanh', 'sigmoid', 'absv')


def plan(tier, seed):
    rnd = random.Random(f'{PID}-{seed}')
    n = 20 if tier == 'quick' else 300
    cases = [{'family': 'main', 'cseed': rnd.randrange(1 << 30)} for _ in range(n)]
    # boundary-value exports (boundary conditions / integral constraints with a parameter the vector field does not use)
    cases += [{'family': 'bvp', 'cseed': rnd.randrange(1 << 30), 'bvp': True} for _ in range(8 if tier == 'quick' else 100)]
    return cases


def warmup(ctx):
    import pyrates  # noqa
    import mpmath
    mpmath.mp.dps = 40
    ctx['mp'] = mpmath
    ctx['excluded'] = open_risks('C01')
    monitors.install()


def gen_model(rnd, ctx, single=False):
    n_nodes = rnd.choice([1, 1, 2, 3]) if not single else 1
    target = rnd.choice([3, 8, 10, 11, 12, 16, 22, 26])
    for _ in range(300):
        vals = gen.Vals(rnd)
        ops, nts, nodes = {}, {}, {}
        total = 0
        prev_out = None
        for i in range(n_nodes):
            nc = max(1, min(9, (target - total) // (n_nodes - i)))
            opn = f'aop{i}'
            ins = ['u'] if i > 0 else []
            op = gen.gen_op(rnd, vals, opn, rnd.choice(['x', 'r', 'v']), ins, gen.SAFE_POOL, n_state_extra=rnd.choice([0, 1, 2]),
                            alg_out=False, funcs=FUNCS, n_const=nc, with_alg=rnd.random() < 0.3)
            for v, d in op['vars'].items():
                if d[0] == 'in':
                    d[1] = 0.0
            # make every constant appear: add c_j * f(state) terms for unused constants
            from vp import expr as E
            used = set()
            for k, l, x in op['eqs']:
                used |= E.variables(E.fromlist(x))
            consts = [v for v, d in op['vars'].items() if d[0] == 'const']
            states = [e[1] for e in op['eqs'] if e[0] == 'de']
            for c in consts:
                if c not in used:
                    j = rnd.randrange(len(op['eqs']))
                    while op['eqs'][j][0] != 'de':
                        j = rnd.randrange(len(op['eqs']))
                    ex = E.fromlist(op['eqs'][j][2])
                    ex = E.add(ex, E.mul(E.var(c), E.safe_call(rnd, rnd.choice(FUNCS), E.mul(E.num(abs(E.rnd_coef(rnd))), E.var(rnd.choice(states))))))
                    op['eqs'][j][2] = E.tolist(ex)
            # declared values with more than six significant digits (0.4173000471)
            for v, d in op['vars'].items():
                if d[0] != 'in' and isinstance(d[1], float) and d[1] != 0.0:
                    r_ = rnd.random()
                    if r_ < 0.35:
                        d[1] = float(f"{d[1] + rnd.uniform(1e-8, 9e-7):.12g}")
                    elif r_ < 0.45:
                        # small magnitudes, whose text form carries a negative exponent (3.7e-05)
                        d[1] = float(f"{rnd.uniform(1.0, 9.9):.3g}e-{rnd.choice([5, 6, 7, 9])}")
            ops[opn] = op
            nts[f'nt{i}'] = {'ops': [opn], 'over': {}}
            nodes[f'n{i}'] = f'nt{i}'
            total += nc
        edges = []
        for i in range(1, n_nodes):
            src = f'n{i - 1}/aop{i - 1}/' + [v for v, d in ops[f'aop{i - 1}']['vars'].items() if d[0] == 'out'][0]
            edges.append([src, f'n{i}/aop{i}/u', None, {'weight': round(vals.new() * 2, 4)}])
        spec = {'ops': ops, 'node_types': nts, 'edge_types': {}, 'circ': {'name': 'c', 'nodes': nodes, 'subs': {}, 'edges': edges}}
        f, r = gen.features(spec)
        if set(r) & ctx['excluded']:
            continue
        return spec
    raise RuntimeError('generator could not satisfy the constraints')


def parse_f90(text, func_name='vf'):
    out = {}
    m = re.search(r'subroutine\s+%s\s*\(([^)]*)\)' % func_name, text.replace('&\n     &', ''), re.S)
    out['signature'] = [a.strip() for a in m.group(1).replace('\n', '').split(',')] if m else None
    joined = re.sub(r'&\s*\n\s*&', '', text)
    m = re.search(r'call\s+%s\s*\(([^\n]*)\)' % func_name, joined)
    out['call'] = [a.strip() for a in re.split(r',\s*(?![^()]*\))', m.group(1))] if m else None
    out['stpnt_args'] = [(int(a), v, n) for a, v, n in re.findall(r'args\((\d+)\)\s*=\s*([^\s!]+)\s*!\s*(\S+)', joined.split('subroutine stpnt')[1])]
    out['stpnt_y'] = [(int(a), v, n) for a, v, n in re.findall(r'\by\((\d+)\)\s*=\s*([^\s!]+)\s*!\s*(\S+)', joined.split('subroutine stpnt')[1].split('end subroutine')[0])]
    func_body = joined.split('subroutine func')[1].split('end subroutine func')[0]
    out['dfdp_cols'] = sorted({int(c) for c in re.findall(r'dfdp\(\d+,(\d+)\)', func_body)})
    out['dfdu'] = bool(re.search(r'dfdu\(\s*\d+\s*,\s*\d+\s*\)\s*=', func_body.split('implicit none')[1]))     # (assignments, not the declaration)
    return out


def parse_constants(text):
    d = {}
    for line in text.splitlines():
        if '=' in line:
            k, v = line.split('=', 1)
            try:
                d[k.strip()] = eval(v.strip(), {})
            except Exception:
                d[k.strip()] = v.strip()
    return d


def fval(s):
    return float(s.lower().replace('d', 'e'))


def run_case(case, ctx):
    rnd = random.Random(case['cseed'])
    mech = {}
    spec = case.get('spec') or gen_model(rnd, ctx, single=bool(case.get('bvp')))
    scenarios = tuple(rnd.sample(['ivp', 'eq', 'lc', 'bvp', 'hom'], rnd.randint(1, 3)))
    # boundary-value export: boundary conditions / integral constraints that use a parameter (zbc) which the vector field does not
    # use and which is declared BEFORE the vector-field parameters of its operator (single-node models: plain variable names)
    bvp_kw = {}
    ref_tmp = RefModel(spec)
    if len(ref_tmp.node_order) == 1 and (case.get('bvp') if 'bvp' in case else rnd.random() < 0.4) and 'zbc' not in str(spec['ops']):
        import copy as _copy
        spec = _copy.deepcopy(spec)
        opn0 = ref_tmp.nodes[ref_tmp.node_order[0]]['ops'][0]
        used_vals = {d[1] for o in spec['ops'].values() for d in o['vars'].values()}
        zval = next(v for v in (0.3571, 0.4173, 0.2957, 0.6113) if v not in used_vals)
        items = list(spec['ops'][opn0]['vars'].items())
        pos_ins = rnd.randrange(0, max(1, len(items) // 2))
        items.insert(pos_ins, ('zbc', ['const', zval]))
        spec['ops'][opn0]['vars'] = dict(items)
        svars = [k[2] for k in ref_tmp.state_keys]
        consts = [k[2] for k in ref_tmp.param_keys if ref_tmp.kind[k] == 'const' and k[1] == opn0]
        if svars and consts:
            bvp_kw = {'boundary_conditions': [f'u0_{svars[0]}', f'u1_{svars[0]} - par_zbc*par_{consts[0]}'][:max(1, len(svars))],
                      'integral_constraints': [f'u_{svars[-1]} - par_zbc']}
            if len(svars) < 2:
                bvp_kw['boundary_conditions'] = [f'u1_{svars[0]} - par_zbc*par_{consts[0]}']
            scenarios = tuple(sorted(set(scenarios) | {'bvp'}))
            mech['bvp_exports'] = 1
    overrides = {}
    if rnd.random() < 0.5:
        overrides['NMX'] = rnd.choice([123, 4567])
    # exports without the analytical Jacobian blocks (auto_jac=False): the constants files must not announce one
    no_jac = case.get('family') != 'auto_jacobian' and rnd.random() < 0.25
    jac_kw = {}
    if no_jac:
        jac_kw = {'auto_jac': False}
        mech['exports_without_jacobian'] = 1
    res = {'features': list(scenarios), 'risk': [], 'sig': stable_hash([spec, scenarios, overrides])}
    try:
        ref = RefModel(spec)
        n_par = len(ref.param_keys) + len(ref.edges)
        res['nontrivial'] = n_par >= 10 or len(ref.node_order) >= 2
        fname = f'auto_model_{case["cseed"] % 100000}'
        tmpl, _ = build.build_python(spec)
        try:
            f, args, names, smap = tmpl.get_run_func('vf', step_size=1e-3, backend='fortran', auto=True, vectorize=False, solver='scipy',
                                                     float_precision='float64', file_name=fname, verbose=False, auto_constants=scenarios, **overrides,
                                                     **bvp_kw, **jac_kw)
        except Exception as e:
            import traceback
            raise observe.Mismatch(f"loud: auto export raised {type(e).__name__}: {e} :: {traceback.format_exc()[-500:]}")
        if not os.path.exists(fname + '.f90'):
            raise observe.Mismatch(f"no {fname}.f90 written; files: {sorted(os.listdir('.'))}")
        text = open(fname + '.f90').read()
        P = parse_f90(text)
        fr_names = [n for n in names if n not in ('t', 'y', 'dy', 'hist')]
        sig = P['signature']
        if sig is None or P['call'] is None:
            raise observe.Mismatch('could not find the vector-field subroutine or its call in the exported source')
        back_names = sig[3:]
        # NOTE: the returned (frontend) names follow first use, the subroutine follows declaration order; they are matched through
        # the returned argument VALUES (unique per model) and the STPNT values, not by position.
        stp = {n: (slot, fval(v)) for slot, v, n in P['stpnt_args']}
        extra = sorted(set(stp) - set(back_names))
        if sorted(set(stp) - set(extra)) != sorted(back_names) or extra != (['zbc'] if bvp_kw else []):
            raise observe.Mismatch(f"STPNT initialises {sorted(stp)} but the vector field takes {sorted(back_names)}"
                                   + (' plus the boundary-condition parameter zbc' if bvp_kw else ''))
        vf_names = list(back_names)
        back_names = vf_names + extra          # all exported parameters (slot bookkeeping); vf_names: those the vector field takes
        slots = [stp[n][0] for n in back_names]
        mech['slots_checked'] = len(slots)
        if len(set(slots)) != len(slots):
            raise observe.Mismatch(f"parameter slots not pairwise distinct: {list(zip(back_names, slots))}")
        if any(11 <= s <= 14 for s in slots):
            raise observe.Mismatch(f"a parameter sits in a slot that auto-07p reserves (11..14): {list(zip(back_names, slots))}")
        if max(slots) > 14:
            mech['exports_crossing_reserved_range'] = 1
        # forwarding list of `call vf(args(14), y, dy, args(i), ...)` vs signature
        fw = P['call'][3:]
        fw_slots = [int(re.match(r'args\((\d+)\)', a).group(1)) for a in fw]
        if fw_slots != [stp[n][0] for n in vf_names]:
            raise observe.Mismatch(f"`call vf` forwards PAR slots {fw_slots} to dummy arguments {vf_names} whose STPNT slots are "
                                   f"{[stp[n][0] for n in vf_names]}")
        if P['call'][0] != 'args(14)':
            raise observe.Mismatch(f"time is forwarded from {P['call'][0]}, auto-07p keeps it in PAR(14)")
        # value fingerprint: backend name -> reference key
        p0 = ref.p0()
        byval = {}
        for k, v in p0.items():
            byval.setdefault(float(v), []).append(k)
        key_of = {}
        for n in back_names:
            v = stp[n][1]
            ks = byval.get(v)
            if ks and len(ks) > 1:
                # the generator drew one value for two parameters (e.g. an edge weight equal to a constant): the value fingerprint
                # cannot tell them apart, the case decides nothing
                res.update(status='discard', symptom='two declared parameters share the value of an exported parameter', mech=mech)
                return res
            if not ks or len(ks) != 1:
                raise observe.Mismatch(f"STPNT value {v!r} of parameter {n} (slot {stp[n][0]}) is not the declared value of exactly one "
                                       f"model parameter (declared: {sorted(byval)[:30]})")
            key_of[n] = ks[0]
            mech['stpnt_values_checked'] = mech.get('stpnt_values_checked', 0) + 1
        if len(set(key_of.values())) != len(key_of):
            raise observe.Mismatch('two exported parameters carry the value of the same model parameter')
        # every model parameter that the RHS uses is exported
        # declaration order per operator: slots ascend with the declaration order of the operator's constants
        for node in ref.node_order:
            for opn in ref.nodes[node]['ops']:
                # (parameters that only occur in boundary conditions / integral constraints are appended after the vector-field
                # parameters by design; the declaration-order clause is checked for the vector field's parameters)
                decl = [v for v, d in spec['ops'][opn]['vars'].items() if (node, opn, v) in key_of.values() and
                        any(key_of[n] == (node, opn, v) for n in vf_names)]
                sl = [next(stp[n][0] for n in back_names if key_of[n] == (node, opn, v)) for v in decl]
                if sl != sorted(sl):
                    raise observe.Mismatch(f"slots of {node}/{opn} parameters {list(zip(decl, sl))} do not follow their declaration order")
        # state initialisation
        y_decl = {n: (i, fval(v)) for i, v, n in P['stpnt_y']}
        y0 = np.zeros(len(y_decl))
        for n, (i, v) in y_decl.items():
            y0[i - 1] = v
        want = sorted(float(ref.val[k]) for k in ref.state_keys)
        if sorted(y0.tolist()) != want:
            raise observe.Mismatch(f"STPNT initial state {sorted(y0.tolist())} != declared initial values {want}")
        pos = {k: int(np.nonzero(y0 == float(ref.val[k]))[0][0]) for k in ref.state_keys}
        # constants files
        for scen in scenarios:
            if not os.path.exists(f'c.{scen}'):
                raise observe.Mismatch(f"c.{scen} was not written; files {sorted(os.listdir('.'))}")
            C = parse_constants(open(f'c.{scen}').read())
            if not P['dfdu'] and 'JAC' not in overrides and C.get('JAC') not in (0, None):
                raise observe.Mismatch(f"c.{scen}: JAC = {C.get('JAC')} although the exported FUNC contains no DFDU / DFDP assignments "
                                       f"(auto_jac={not no_jac})")
            mech['jac_flags_checked'] = mech.get('jac_flags_checked', 0) + 1
            if C.get('NDIM') != len(y0):
                raise observe.Mismatch(f"c.{scen}: NDIM = {C.get('NDIM')} for {len(y0)} state variables")
            if C.get('NPAR') != max(slots + [1]):
                raise observe.Mismatch(f"c.{scen}: NPAR = {C.get('NPAR')} but the highest parameter slot is {max(slots)}")
            pn = C.get('parnames')
            if not isinstance(pn, dict) or {v: k for k, v in pn.items()} != {n: stp[n][0] for n in back_names}:
                raise observe.Mismatch(f"c.{scen}: parnames {pn} != STPNT slots { {n: stp[n][0] for n in back_names} }")
            un = C.get('unames')
            if not isinstance(un, dict) or {v: k for k, v in un.items()} != {n: i for n, (i, v) in y_decl.items()}:
                raise observe.Mismatch(f"c.{scen}: unames {un} != STPNT state order { {n: i for n, (i, v) in y_decl.items()} }")
            for k, v in overrides.items():
                if C.get(k) != v:
                    raise observe.Mismatch(f"c.{scen}: override {k}={v} not applied (file has {C.get(k)})")
            mech['constants_files_checked'] = mech.get('constants_files_checked', 0) + 1
        # ---- compiled routines --------------------------------------------------------------------------------------------------
        sys.path.insert(0, os.getcwd())
        try:
            mod = importlib.import_module(fname)
        except Exception as e:
            raise observe.Mismatch(f"loud: exported module cannot be imported: {type(e).__name__}: {e}")
        npar = max(slots + [14]) + 2
        y = np.zeros(len(y0))
        par = np.zeros(npar)
        mod.stpnt(y, par, 0.0)
        if not np.array_equal(y, y0):
            raise observe.Mismatch(f"compiled STPNT returns state {y.tolist()}, source says {y0.tolist()}")
        for n in back_names:
            if par[stp[n][0] - 1] != stp[n][1]:
                raise observe.Mismatch(f"compiled STPNT puts {par[stp[n][0] - 1]!r} into slot {stp[n][0]} ({n}), declared {stp[n][1]!r}")
        ndim = len(y0)
        icp = np.array([1], dtype=np.int32)

        def call(yv, pv, ijac=0):
            dfdu = np.zeros((ndim, ndim), order='F')
            dfdp = np.zeros((ndim, npar), order='F')
            dy = mod.func(np.array(yv, dtype=float), icp, np.array(pv, dtype=float), ijac, dfdu, dfdp)
            return np.array(dy, dtype=float), dfdu, dfdp
        # perturb slot by slot
        yv = np.array([rnd.gauss(0, 0.8) for _ in range(ndim)])
        for n in [None] + vf_names:
            pv = par.copy()
            p = dict(p0)
            if n is not None:
                nv = round(stp[n][1] * 1.31 + 0.17, 6)
                pv[stp[n][0] - 1] = nv
                p[key_of[n]] = nv
            exp, ill = observe.ref_rhs_checked(ref, {k: float(yv[i]) for k, i in pos.items()}, p, ctx['mp'])
            if ill:
                continue
            got, _, _ = call(yv, pv)
            for k, i in pos.items():
                if not abs(got[i] - exp[k]) <= 1e-8 * max(1.0, abs(exp[k])):
                    raise observe.Mismatch(f"exported func with slot {stp[n][0] if n else None} ({n}) perturbed: derivative of {'/'.join(k)} is {got[i]!r}, "
                                           f"reference with {'/'.join(map(str, key_of[n])) if n else 'declared parameters'} perturbed gives {exp[k]!r}")
            mech['perturbed_slot_evaluations'] = mech.get('perturbed_slot_evaluations', 0) + 1
        # DFDU / DFDP vs central differences of func itself
        got, dfdu, dfdp = call(yv, par, ijac=2)
        if P['dfdu']:
            h = 1e-5
            for j in range(ndim):
                e = np.zeros(ndim)
                e[j] = h
                col = (call(yv + e, par)[0] - call(yv - e, par)[0]) / (2 * h)
                if not np.allclose(dfdu[:, j], col, rtol=1e-5, atol=1e-6):
                    raise observe.Mismatch(f"DFDU column {j + 1} = {dfdu[:, j].tolist()} but central differences of func give {col.tolist()}")
                mech['dfdu_entries'] = mech.get('dfdu_entries', 0) + ndim
            for n in vf_names:
                s_ = stp[n][0] - 1
                pv1, pv2 = par.copy(), par.copy()
                pv1[s_] += h
                pv2[s_] -= h
                col = (call(yv, pv1)[0] - call(yv, pv2)[0]) / (2 * h)
                if not np.allclose(dfdp[:, s_], col, rtol=1e-5, atol=1e-6):
                    raise observe.Mismatch(f"DFDP column {s_ + 1} ({n}) = {dfdp[:, s_].tolist()} but central differences of func give {col.tolist()}")
                mech['dfdp_entries'] = mech.get('dfdp_entries', 0) + ndim
            bad = [c for c in P['dfdp_cols'] if c not in slots]
            if bad:
                raise observe.Mismatch(f"DFDP writes columns {bad} that are no parameter slots {slots}")
        mech['exports_checked'] = 1
        res.update(status='ok', symptom='', mech=mech)
        res['sample'] = {'parameters': list(zip(back_names, slots)), 'scenarios': scenarios, 'ndim': ndim,
                         'call': P['call'][:6], 'overrides': overrides}
    except observe.Mismatch as e:
        s = str(e)
        res.update(status='violation', symptom=('silent: ' if 'loud' not in s else '') + s, mech=mech, spec=spec)
    return res


# MANIFEST-BEGIN
MANIFEST = {
    'technique': 'consistency monitor over the emitted auto-07p artefacts (parsed .f90 / c.* text) + reference-model monitor on the compiled func / stpnt called through f2py under gfortran -fcheck=all',
    'level_text': 'Generated scalar models with up to 26 parameters (crossing the reserved PAR range) and permuted declaration order are exported with auto=True for random scenario selections; slots must be pairwise distinct, outside 11..14 and ascending in declaration order; parnames, STPNT, the `call vf` forwarding list matched against the subroutine signature, and DFDP columns must use one name-slot map; STPNT must return the declared values; NDIM/NPAR/unames and constant overrides must match; func with PAR perturbed slot by slot must equal the reference RHS with the correspondingly named parameter perturbed (this is what detects a crossed slot); DFDU/DFDP are compared with central differences. Boundary-value exports (boundary_conditions / integral_constraints with a parameter that the vector field does not use) are included. Parameter values with many significant digits must be written without loss; exports whose declared parameter values are not pairwise distinct are discarded (the value fingerprint decides nothing there). The hom scenario and exports without analytical Jacobian (auto_jac=False) are included: no constants file may announce JAC > 0 when FUNC contains no DFDU / DFDP assignments; declared values include magnitudes whose text form has a negative exponent. Held on observed exports only.',
    'level_note': 'Trusted: regex parsing of the emitted text, vp/ref.py, f2py. auto-07p itself is not installed, so only the exported artefacts and compiled routines are exercised.',
}
# MANIFEST-END
