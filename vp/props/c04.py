"""C04 - Vectorization does not change the model."""
import random

import numpy as np

from vp import gen, observe, monitors
from vp.ref import RefModel
from vp.runner import open_risks, stable_hash

PID = 'C04'
LEVEL = 'exploration'
RULE = ("seeded networks with 2-4 node types and 1-6 structurally identical nodes per type; every node has unique initial "
        "values and either all-different or all-equal constants; edge patterns from sparse to dense incl. self-connections "
        "and fan-in from several node types, optional discrete delays; the same spec is compiled with vectorize=True and "
        "False; both vector fields are compared with the reference semantics per frontend variable (positions by value "
        "fingerprinting) and with each other, short Euler trajectories of both are compared with the reference iterates; "
        "M-vec (slot allocation in cache_func) and M-edge (connection conservation) run inside both compiles; non-trivial = "
        "at least one node type with >= 2 nodes and at least one edge; distinct = distinct spec hash")
DECIDING = ['weight_conservation_checks', 'derivatives_compared_vec', 'derivatives_compared_novec', 'rows_compared_vec', 'mvec_merges', 'medge_connections',
            'medge_eq_matvec', 'medge_eq_indexed', 'kernel_chain_sets_compared']
ASSUMPTIONS = ['well-formed models (DESIGN 4a)', 'reference semantics vp/ref.py']
CASE_TIMEOUT = 180

FOCUS = ['vec_partial_input_default', 'vec_single_target_multi_source']
ET_FOCUS = ['mixed_template_overrides', 'edge_second_input_varies']


def plan(tier, seed):
    rnd = random.Random(f'{PID}-{seed}')
    n = 220 if tier == 'quick' else 6000
    cases = [{'family': 'main', 'cseed': rnd.randrange(1 << 30)} for _ in range(n)]
    opened = open_risks(PID)
    k = 10 if tier == 'quick' else 100
    for feat in FOCUS:
        fam = 'probe:' + feat if feat in opened else 'main'
        cases += [{'family': fam, 'cseed': rnd.randrange(1 << 30), 'want': feat} for _ in range(k)]
    # edge templates: instances of one template form one vectorized edge node shared by all projection groups
    n_et = 60 if tier == 'quick' else 1500
    cases += [{'family': 'edge_templates', 'cseed': rnd.randrange(1 << 30)} for _ in range(n_et)]
    for feat in ET_FOCUS:
        fam = 'probe:' + feat if feat in opened else 'edge_templates'
        cases += [{'family': fam, 'cseed': rnd.randrange(1 << 30), 'want': feat} for _ in range(k)]
    # wide groups: 10-16 nodes of one type (size thresholds of the index-based / matrix edge forms)
    n_w = 24 if tier == 'quick' else 500
    cases += [{'family': 'wide', 'cseed': rnd.randrange(1 << 30)} for _ in range(n_w)]
    # wide groups wired one-to-one except for one or two redirected edges (a convergent target, not more edges than targets)
    cases += [{'family': 'wide', 'cseed': rnd.randrange(1 << 30), 'near_perm': True} for _ in range(12 if tier == 'quick' else 250)]
    cases += [{'family': 'shared_operator', 'cseed': rnd.randrange(1 << 30)} for _ in range(16 if tier == 'quick' else 300)]
    # gamma-kernel delays: the set of (order, rate) chains must not depend on vectorization
    cases += [{'family': 'gamma_kernels', 'cseed': rnd.randrange(1 << 30)} for _ in range(24 if tier == 'quick' else 400)]
    return cases


def warmup(ctx):
    import pyrates  # noqa
    import mpmath
    mpmath.mp.dps = 40
    ctx['mp'] = mpmath
    ctx['open_risks'] = open_risks(PID) | open_risks('C01')
    monitors.install()
    monitors.install_vec()


def groups_of(spec):
    from vp.ref import _walk
    node_list, edge_list = _walk(spec['circ'])
    group = {}
    for p, nt in node_list:
        group.setdefault(tuple(spec['node_types'][nt]['ops']), []).append(p)
    node_group = {p: g for g, ps in group.items() for p in ps}
    return node_list, edge_list, group, node_group


def vec_risks(spec):
    """risk features specific to vectorization (bundle = all edges between one merged source variable and one merged
    target variable, which PyRates groups into one vectorized edge)"""
    risk = set()
    node_list, edge_list, group, node_group = groups_of(spec)
    bundles = {}
    for s, t, et, a in edge_list:
        sn, so, sv = s.rsplit('/', 2)
        tn, to, tv = t.rsplit('/', 2)
        if et:
            # templated edges: all instances of one edge template form one vectorized edge node whose output projects
            # to the target variable, whatever the source variable was
            bundles.setdefault(('edge', et, '', node_group[tn], to, tv, bool(a.get('delay'))), []).append((sn, tn))
        else:
            bundles.setdefault((node_group[sn], so, sv, node_group[tn], to, tv, bool(a.get('delay'))), []).append((sn, tn))
    for key, pairs in bundles.items():
        tidx = [t for _, t in pairs]
        if len(set(tidx)) == 1 and len(tidx) >= 2 and (len(group[key[3]]) > 1 or key[0] == 'edge' or len(group[key[0]]) > 1):
            risk.add('vec_single_target_multi_source')
    # partially driven merged input with a non-zero declared default
    driven = {}
    for s, t, et, a in edge_list:
        driven[t] = True
    for g, members in group.items():
        if len(members) < 2:
            continue
        for opn in g:
            for v, (vk, val) in spec['ops'][opn]['vars'].items():
                if vk != 'in':
                    continue
                d = [f'{m}/{opn}/{v}' in driven for m in members]
                if any(d) and not all(d) and val != 0.0:
                    risk.add('vec_partial_input_default')
    return risk


def add_edges(spec, rnd, uniform, near_perm=False):
    """Edge bundles between merged groups.  uniform: every node of a target group receives at least one edge into a
    driven input variable (so no merged input is partially driven)."""
    node_list, _, group, node_group = groups_of(spec)
    vals = gen.Vals(rnd)
    for o in spec['ops'].values():
        for v, (vk, val) in o['vars'].items():
            vals.used.add(val)
    srcs, tgts = [], []
    for g, members in group.items():
        for opn in g:
            op = spec['ops'][opn]
            de = {e[1] for e in op['eqs'] if e[0] == 'de'}
            for v, (vk, val) in op['vars'].items():
                if v in de:
                    srcs.append((g, opn, v))
                if vk == 'in':
                    tgts.append((g, opn, v))
    edges = []
    if not srcs or not tgts:
        return spec
    n_b = rnd.choice([1, 1, 2, 3, 4])
    used_t = set()
    for bi in range(n_b):
        sg, so, sv = rnd.choice(srcs)
        tg, to, tv = rnd.choice(tgts)
        if near_perm and bi == 0:
            # first bundle: from the widest group onto itself, one-to-one except for redirected edges (see below)
            wg = max(group, key=lambda g_: len(group[g_]))
            ws, wt = [x for x in srcs if x[0] == wg], [x for x in tgts if x[0] == wg]
            if ws and wt:
                (sg, so, sv), (tg, to, tv) = rnd.choice(ws), rnd.choice(wt)
        S, T = group[sg], group[tg]
        pattern = rnd.choice(['all', 'one_each', 'dense', 'sparse', 'k_each', 'perm', 'perm'])
        if near_perm and bi == 0:
            pattern = 'perm'
        if len(T) >= 10 and rnd.random() < 0.5:
            pattern = 'perm'      # wide groups: one-to-one wiring takes the index-based edge form (density <= 0.1)
        pairs = []
        if pattern == 'perm':
            # one-to-one wiring (ring / permutation): every target receives exactly one edge; listing order of the edges is
            # the node order, a shuffled order, or node order with the interior scrambled
            k = min(len(S), len(T))
            src = rnd.sample(S, k)
            if rnd.random() < 0.4 and S is T or (sg == tg):
                src = [S[(i + 1) % len(S)] for i in range(len(S))][:k]     # ring
            pairs = list(zip(src, T[:k]))
            order = rnd.choice(['node', 'shuffled', 'interior'] + (['interior', 'interior'] if len(T) >= 10 else []))
            if order == 'shuffled':
                rnd.shuffle(pairs)
            elif order == 'interior' and len(pairs) > 3:
                mid = pairs[1:-1]
                rnd.shuffle(mid)
                pairs = [pairs[0]] + mid + [pairs[-1]]
            if len(pairs) >= 4 and (rnd.random() < (0.6 if len(T) >= 10 else 0.35) or (near_perm and bi == 0)):
                # nearly one-to-one: one or two edges are redirected onto a target that already has an edge (a convergent target among
                # one-to-one wired ones; the group still has no more edges than targets)
                for _ in range(rnd.randint(1, 2)):
                    i, j = rnd.sample(range(len(pairs)), 2)
                    pairs[i] = (pairs[i][0], pairs[j][1])
                pairs = list(dict.fromkeys(pairs))
        elif pattern == 'all':
            pairs = [(a, b) for a in S for b in T]
        elif pattern == 'one_each':
            pairs = [(rnd.choice(S), b) for b in T]
        elif pattern == 'k_each':
            k = rnd.randint(1, max(1, len(S)))
            for b in T:
                pairs += [(a, b) for a in rnd.sample(S, min(k, len(S)))]
        else:
            pr = 0.7 if pattern == 'dense' else 0.12
            for b in T:
                got = [(a, b) for a in S if rnd.random() < pr]
                if not got and (uniform or rnd.random() < 0.5):
                    got = [(rnd.choice(S), b)]
                pairs += got
        if not uniform and rnd.random() < 0.5 and len(pairs) > 1 and not (pattern == 'perm' and len(T) >= 10) and not (near_perm and bi == 0):
            pairs = rnd.sample(pairs, rnd.randint(1, len(pairs)))
        # weights of one bundle: mixed magnitudes, or all of one (very small) magnitude as in SI-unit models
        wkind = rnd.choice([None, None, None, None, None, 'nano', 'tiny']) if len(T) < 10 else rnd.choice([None, None, 'nano', 'tiny'])
        for a, b in pairs:
            w_ = gen.gen_weight(rnd, vals, wkind)
            # (an edge of weight exactly 1.0 is sometimes declared without a weight attribute - the documented default)
            edges.append([f'{a}/{so}/{sv}', f'{b}/{to}/{tv}', None, {} if w_ == 1.0 and rnd.random() < 0.5 else {'weight': w_}])
    spec['circ']['edges'] = spec['circ'].get('edges', []) + edges
    return spec


def int_declared_constants(spec, rnd):
    """One or two constants are declared with an integer default (k: 2); the nodes keep the default, carry an integral override or a
    non-integral one - in half of the cases only the LAST node of the circuit that uses the operator carries a non-integral value
    (the merged variable must become a float vector whichever node brings the first non-integral value)."""
    from vp.ref import _walk
    node_list, _ = _walk(spec['circ'])
    cands = [(o, v) for o, od in spec['ops'].items() for v, d in od['vars'].items() if d[0] == 'const']
    for o, v in rnd.sample(cands, min(len(cands), rnd.randint(1, 2))):
        spec['ops'][o]['vars'][v][1] = rnd.choice([1, 2, 3, 5])
        users = [nt for _, nt in node_list if o in spec['node_types'][nt]['ops']]
        last_only = rnd.random() < 0.5
        for i, nt in enumerate(users):
            over = spec['node_types'][nt].setdefault('over', {}).setdefault(o, {})
            if last_only:
                keep = i == len(users) - 1
            else:
                keep = rnd.random() < 0.5
            if keep:
                over[v] = round(rnd.uniform(0.3, 4.0), 4) if v not in over else over[v]
            elif rnd.random() < 0.5:
                over[v] = float(rnd.choice([1, 2, 3, 4]))
            else:
                over.pop(v, None)


def make_spec(case, opened):
    if case.get('spec') is not None:
        spec = case['spec']
    else:
        rnd = random.Random(case['cseed'])
        want = case.get('want')
        for attempt in range(400):
            if case.get('family') == 'shared_operator':
                # node types that share one operator template (each type forms its own vectorization group, the shared operator's
                # variables are merged per group)
                spec = gen.gen_shared_op_net(rnd)
                f, r = gen.features(spec)
                if (set(opened) - {want}) & ((set(r) - {'vec_partial_input_default'}) | vec_risks(spec)):
                    continue
                break
            wide = case.get('family') == 'wide'
            et_mode = case.get('family') == 'edge_templates' or want in ET_FOCUS
            pool = {'derived': gen.DERIVED_POOL, 'main': gen.MAIN_POOL}.get(case.get('pool'), gen.SAFE_POOL)
            base, _, _ = gen.gen_net(rnd, pool=pool, label_pool=pool if case.get('hostile_labels') else None,
                                     n_nodes=rnd.choice([11, 12, 13, 14, 16]) if wide else rnd.choice([2, 3, 4, 5, 6, 8]),
                                     max_types=2 if wide else 3, depth=0 if wide else rnd.choice([0, 0, 0, 1, 2]), same_type_bias=True,
                                     n_edges=0)
            if wide and len(base['node_types']) >= 2 and rnd.random() < 0.6:
                # one node type with a single node (scalar source / target variable) next to one wide group
                nts = sorted(base['node_types'])
                labs = sorted(base['circ']['nodes']) if not base['circ']['subs'] else None
                if labs:
                    for lab in labs:
                        base['circ']['nodes'][lab] = nts[0]
                    base['circ']['nodes'][rnd.choice(labs)] = nts[1]
            uniform = rnd.random() < 0.5 if not want else False
            if not uniform and not want:
                # arbitrary connectivity, typical user convention: input variables default to zero
                for o in base['ops'].values():
                    for v, d in o['vars'].items():
                        if d[0] == 'in':
                            d[1] = 0.0
            spec = gen.individualize(base, rnd, params=rnd.choice(['different', 'different', 'equal']))
            if not want and rnd.random() < 0.2 and not case.get('no_int_decl'):
                int_declared_constants(spec, rnd)
            spec = add_edges(spec, rnd, uniform, near_perm=bool(case.get('near_perm')))
            if et_mode:
                spec = gen.add_edge_templates(spec, rnd, frac=rnd.choice([0.3, 0.6, 1.0]),
                                              mixed_overrides=want == 'mixed_template_overrides',
                                              bind_second=want != 'edge_second_input_varies', shapes=case.get('edge_shapes'))
            f, r = gen.features(spec)
            r2 = (set(r) - {'vec_partial_input_default'}) | vec_risks(spec)
            if want and want not in r2:
                continue
            if case.get('require') and case['require'] not in r2 and case['require'] not in f:
                continue
            if (set(opened) - {want}) & r2:
                continue
            break
        else:
            raise RuntimeError('generator could not satisfy the constraints')
    f, r = gen.features(spec)
    r = sorted((set(r) - {'vec_partial_input_default'}) | vec_risks(spec))
    return spec, f, r


def weight_conservation(obs, spec):
    from collections import Counter
    from vp.ref import _walk
    _, edge_list = _walk(spec['circ'])
    pairs = Counter((s_, t_) for s_, t_, et, a in edge_list)
    declared = Counter()
    for s_, t_, et, a in edge_list:
        w = float(a.get('weight', 1.0))
        if w != 1.0 and pairs[(s_, t_)] == 1:           # parallel edges are summed into one entry
            declared[w] += 1
    if not declared:
        return None
    have = Counter()
    for name, a in zip(obs['names'], obs['args']):
        if '/in_edge_' in name and 'weight' in name.rsplit('/', 1)[-1] and not callable(a):
            for x in np.asarray(observe.to_np(a), dtype=float).ravel().tolist():
                have[x] += 1
    missing = {w: (n, have.get(w, 0)) for w, n in declared.items() if have.get(w, 0) < n}
    if missing:
        w, (n, h) = sorted(missing.items(), key=lambda kv: abs(kv[0]))[0]
        return (f"edge weight conservation: weight {w!r} is declared on {n} edge(s) but occurs {h} time(s) in the returned in_edge weight "
                f"arguments ({len(missing)} declared weights are missing)")
    return None


def run_kernel_case(case, ctx):
    """Gamma-kernel delays (two or three (delay, spread) pairs shared by the edges, several kernels per merged source): the
    vectorized and the non-vectorized build must realise the same set of (order, rate) chains, and every chain must be one of
    the requested kernels (M-delay reads them inside _add_edge_buffer).  Trajectories of these models are C11's business."""
    from vp.props import c11
    monitors.install_delay()
    # (all recorded delay findings stay excluded - e.g. parallel delayed edges, whose kernels the non-vectorized build drops - except
    # the one whose symptom is a lagging buffer and not a different set of chains)
    ctx11 = {'mp': ctx['mp'], 'open_risks': (open_risks('C11') | open_risks('C09')) - {'several_kernels_one_merged_source'},
             'excluded': open_risks(PID) | open_risks('C01')}
    c11case = {'family': 'few_kernels', 'kernels': 'few', 'cseed': case['cseed']}
    if case.get('spec') is not None:
        c11case.update(spec=case['spec'], solver='euler', vec=True)
    spec, feats, risk, solver, vec = c11.make_case(c11case, ctx11)
    mech = {}
    res = {'features': feats + ['gamma_kernels'], 'risk': [], 'sig': stable_hash([spec, 'kernels']), 'nontrivial': True}
    try:
        chains = {}
        for v in (False, True):
            monitors.reset()
            try:
                observe.compile_vf(spec, vectorize=v, solver='euler', step_size=1e-3)
            except Exception as e:
                import traceback
                # (loud failures of kernel models are recorded under C11: the structural comparison needs both builds)
                res.update(status='discard', symptom=f'compile failed: {type(e).__name__}', mech=mech)
                return res
            mon = monitors.collect()
            if mon['violations']:
                raise observe.Mismatch(f"vectorize={v}: monitor: {mon['violations'][0]}")
            got = set()
            for ev in mon['events']:
                if ev and ev[0] == 'mdelay':
                    got |= {(int(n_), round(float(r_), 6)) for n_, r_ in ev[6]}
            chains[v] = got
            mech['kernel_builds'] = mech.get('kernel_builds', 0) + 1
        if chains[True] != chains[False]:
            raise observe.Mismatch(f"gamma-kernel chains (order, rate) of the vectorized build {sorted(chains[True])} differ from those of "
                                   f"the non-vectorized build {sorted(chains[False])}")
        mech['kernel_chain_sets_compared'] = 1
        res.update(status='ok', symptom='', mech=mech, sample={'chains': sorted(chains[True])})
    except observe.Mismatch as e:
        res.update(status='violation', symptom='silent: ' + str(e), mech=mech, spec=spec)
    return res


def run_case(case, ctx):
    if case.get('family') == 'gamma_kernels':
        return run_kernel_case(case, ctx)
    spec, feats, risk = make_spec(case, ctx['open_risks'])
    rnd = random.Random(case['cseed'] + 7)
    mech = {}
    res = {'features': feats, 'risk': risk, 'sig': stable_hash(spec),
           'nontrivial': 'several_nodes_per_type' in feats and 'edges' in feats}
    try:
        ref = RefModel(spec)
        out = {}
        for vec in (False, True):
            tag = 'vec' if vec else 'novec'
            monitors.reset()
            try:
                obs = observe.compile_vf(spec, vectorize=vec)
            except Exception as e:
                import traceback
                raise observe.Mismatch(f"loud: get_run_func(vectorize={vec}) raised {type(e).__name__}: {e} :: "
                                       f"{traceback.format_exc()[-600:]}")
            m2 = {}
            try:
                pos, worst = observe.compare_vf(obs, ref, random.Random(case['cseed'] + 11), ctx['mp'], n_points=5,
                                                vectorized=vec, mech=m2)
            except observe.Mismatch as e:
                raise observe.Mismatch(f"vectorize={vec}: {e}")
            for k, v in m2.items():
                mech[f'{k}_{tag}'] = mech.get(f'{k}_{tag}', 0) + v
            # conservation of edge weights: every declared weight (other than 1.0, which is omitted from the generated code)
            # must still be present among the returned in_edge weight arguments - whatever its magnitude (derivatives at O(1)
            # states cannot see an error in a weight of 1e-9)
            msg_w = weight_conservation(obs, spec)
            if msg_w:
                raise observe.Mismatch(f"vectorize={vec}: {msg_w}")
            mech['weight_conservation_checks'] = mech.get('weight_conservation_checks', 0) + 1
            mon = monitors.collect()
            for k, v in mon['counters'].items():
                mech[k] = mech.get(k, 0) + v
            if mon['violations']:
                raise observe.Mismatch(f'vectorize={vec}: monitor: ' + mon['violations'][0])
            out[vec] = (obs, pos)
        # trajectories
        keys = list(ref.state_keys)
        outputs = {f'o{i}': '/'.join(k) for i, k in enumerate(keys)}
        dt, steps = 1e-3, 12
        exp = observe.ref_trajectory(ref, keys, steps, dt)
        for vec in (False, True):
            tag = 'vec' if vec else 'novec'
            try:
                df = observe.run_model(spec, T=steps * dt, dt=dt, solver='euler', outputs=outputs, vectorize=vec)
            except Exception as e:
                raise observe.Mismatch(f"loud: run(vectorize={vec}) raised {type(e).__name__}: {e}")
            if list(df.columns) != list(outputs):
                raise observe.Mismatch(f"run(vectorize={vec}) columns {list(df.columns)[:6]} != requested {list(outputs)[:6]}")
            msg = observe.compare_traj(df.values, exp, rtol=1e-7, label=f'run(vectorize={vec}) ')
            if msg == 'discard':
                res.update(status='discard', symptom='reference not finite', mech=mech)
                return res
            if msg:
                raise observe.Mismatch(msg + f" [{list(outputs.values())}]")
            mech[f'rows_compared_{tag}'] = mech.get(f'rows_compared_{tag}', 0) + df.shape[0]
        res.update(status='ok', symptom='', mech=mech)
        from vp.props.c01 import summary
        res['sample'] = {'spec_summary': summary(spec), 'features': feats,
                         'positions_vectorized': {'/'.join(k): v for k, v in out[True][1].items()}}
    except observe.Mismatch as e:
        s = str(e)
        res.update(status='violation', symptom=('silent: ' if 'loud' not in s else '') + s, mech=mech, spec=spec,
                   generated_source=monitors.collect()['src'][-1:])
    return res


# MANIFEST-BEGIN
MANIFEST = {
    'technique': 'differential + reference-model monitor: the same generated circuit compiled with vectorize=True/False, both vector fields and Euler trajectories compared per frontend variable with the independent reference; slot-allocation (M-vec) and edge-conservation (M-edge) hooks inside the compile',
    'level_text': 'Every generated circuit (several structurally identical nodes per type, unique per-node initial values, equal or different constants, sparse-to-dense edge patterns around the matrix_sparseness threshold, self-connections, fan-in from several types) is compiled both ways; derivatives at random states with perturbed parameters and 12-step Euler trajectories of every state variable are compared with the reference semantics (1e-8 / 1e-7), positions found by value fingerprinting; cache_func slot ranges must be disjoint and contiguous and all connections must reach the edge-equation generator exactly once. Further families: edges through EdgeTemplates whose instances share one vectorized edge node across several projection groups, and wide groups (11-16 nodes of one type, around the size thresholds of the index-based and matrix edge forms). An edge-weight conservation monitor requires every declared weight (any magnitude, e.g. 1e-9) among the returned in_edge weight arguments; bundles use mixed or uniformly tiny weights; two-input edge templates map their second input to a variable of the target node by explicit path. Edges of weight exactly 1.0 are sometimes declared without a weight attribute; wide groups use interior-scrambled one-to-one wiring. Gamma-kernel families: a structural monitor on the emitted chain equations requires one chain per (source, kernel) actually declared, so that a merged or dropped chain is seen even where an open finding masks the values. Constants may be declared with an integer default and receive their only fractional value on the last node of a group; a family uses node types that share one operator template. Wide groups are also wired nearly one-to-one (one or two edges redirected onto a target that already has one); unit gains are sometimes exactly -1.0. Held on observed circuits only.',
    'level_note': 'Trusted: vp/ref.py, value fingerprinting (all initial values unique per model). Risk features of open findings are excluded from the main sweep and run as probe families.',
}
# MANIFEST-END
