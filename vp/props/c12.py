"""C12 - get_jacobian_func returns the derivative of get_run_func."""
import math
import random

import numpy as np

from vp import gen, observe, monitors, build
from vp.ref import RefModel
from vp.runner import open_risks, stable_hash
from vp.props import c10

PID = 'C12'
LEVEL = 'exploration'
RULE = ("seeded scalar (vectorize=False) models over the documented function set (sigmoid, absv, sin, cos, tanh, exp, arctan, sinh, cosh, algebraic "
        "intermediates, edges, several operators) and DDE models with delays on arbitrary state variables and products of "
        "delayed and instantaneous factors; J(t, y, *args) from get_jacobian_func is compared entry by entry with 6th-order "
        "central differences of the vector field returned by get_run_func for the same spec (state orderings must be "
        "identical) and with differences of the independent reference RHS; history Jacobians are compared with differences "
        "w.r.t. a perturbation of the hand-made history output at each distinct delay (as a set of matrices); sparse=True "
        "must equal dense; non-trivial = at least 2 state variables and one off-diagonal non-zero entry; distinct = distinct "
        "(spec, mode) hash")
DECIDING = ['entries_compared', 'offdiag_nonzero_entries', 'hist_entries_compared', 'sparse_checks', 'ode_models', 'dde_models',
            'entries_vs_reference', 'whole_number_delays', 'auto_jacobian_exports', 'input_jacobian_points']
ASSUMPTIONS = ['probe points whose finite differences with step h and h/2 disagree (kinks of absv/maxi) are discarded',
               'history Jacobians are matched to delays as a set (the API does not name them)']
CASE_TIMEOUT = 240
FOCUS = ['absv_in_de', 'sin_or_cos_in_de', 'delay_on_nonfirst_state', 'inverse_trig_in_de']
FUNCS = ('tanh', 'sigmoid', 'exp')


def plan(tier, seed):
    rnd = random.Random(f'{PID}-{seed}')
    n = 170 if tier == 'quick' else 4000
    cases = []
    for _ in range(n):
        cases.append({'family': 'main', 'cseed': rnd.randrange(1 << 30), 'mode': 'ode' if rnd.random() < 0.65 else 'dde'})
    opened = open_risks(PID)
    k = 10 if tier == 'quick' else 100
    for feat in FOCUS:
        fam = 'probe:' + feat if feat in opened else 'main'
        cases += [{'family': fam, 'cseed': rnd.randrange(1 << 30), 'want': feat,
                   'mode': 'dde' if feat == 'delay_on_nonfirst_state' else 'ode'} for _ in range(k)]
    # the auto-07p DFDU / DFDP blocks obey the same identity (w.r.t. state and parameters): exports with up to 26 parameters,
    # compiled with gfortran -fcheck=all and compared with central differences of the exported FUNC (machinery of C18)
    cases += [{'family': 'auto_jacobian', 'cseed': rnd.randrange(1 << 30), 'mode': 'auto'} for _ in range(8 if tier == 'quick' else 120)]
    # extrinsic inputs that multiply a state variable, adaptive solver (the input is a function of time inside J as well)
    cases += [{'family': 'inputs', 'cseed': rnd.randrange(1 << 30), 'mode': 'ode'} for _ in range(20 if tier == 'quick' else 300)]
    # delayed edge under a fixed-step solver (the delay is a buffer there), the delayed term multiplying a state variable
    fam = 'probe:fixed_step_delay_jacobian' if 'fixed_step_delay_jacobian' in opened else 'fixed_step_delay'
    cases += [{'family': fam, 'cseed': rnd.randrange(1 << 30), 'mode': 'fixed_step_delay'} for _ in range(6 if tier == 'quick' else 60)]
    # powers whose exponent is a parameter (x^a): sympy's derivative a*x**a/x is 0/0 at x = 0; probed AT the zero of the base
    cases += [{'family': 'symbolic_power', 'cseed': rnd.randrange(1 << 30), 'mode': 'symbolic_power'} for _ in range(8 if tier == 'quick' else 100)]
    return cases


def run_symbolic_power_case(case, ctx):
    """x' = -c*x - k*x^a + z, z' = -z + m*(x - s)^b with whole-number exponents a, b declared as PARAMETERS: the Jacobian must equal
    central differences of the vector field at random states and at the states x = 0 and x = s, where a base vanishes."""
    from pyrates import OperatorTemplate, NodeTemplate, CircuitTemplate
    rnd = random.Random(case['cseed'])
    c_, k_, m_, s_ = (round(rnd.uniform(0.3, 1.5), 3) for _ in range(4))
    a_, b_ = float(rnd.choice([2, 3, 4])), float(rnd.choice([2, 3]))
    x0 = rnd.choice([0.0, 0.0, s_, round(rnd.uniform(0.1, 0.9), 3)])
    pw = rnd.choice(['^', '**'])
    mech = {}
    res = {'features': ['symbolic_power', f'x0_{x0}'], 'risk': [], 'sig': stable_hash([c_, k_, m_, s_, a_, b_, x0, pw]), 'nontrivial': True}
    eqs = [f"d/dt * x = -c*x - k*x{pw}a + z", f"d/dt * z = -z + m*(x - s){pw}b"]
    try:
        def mk():
            op = OperatorTemplate(name='pw_op', path='none', equations=eqs,
                                  variables={'x': f'output({x0})', 'z': 'variable(0.2)', 'c': c_, 'k': k_, 'm': m_, 's': s_, 'a': a_, 'b': b_})
            return CircuitTemplate(name='pw', path='none', nodes={'p': NodeTemplate(name='pw_node', path='none', operators=[op])})
        kw = dict(step_size=1e-3, solver='scipy', vectorize=False, verbose=False, in_place=False, float_precision='float64')
        try:
            f, args, names, smap = mk().get_run_func('vf', clear=True, **kw)
            J, jargs, jnames, jsmap = mk().get_jacobian_func('jac', clear=True, **kw)
        except Exception as e:
            raise observe.Mismatch(f"loud: model with a parameter exponent: {type(e).__name__}: {e}")
        ix, iz = smap['p/pw_op/x'], smap['p/pw_op/z']
        if (jsmap['p/pw_op/x'], jsmap['p/pw_op/z']) != (ix, iz):
            raise observe.Mismatch(f"state ordering of the Jacobian {jsmap} differs from get_run_func's {smap}")
        pts = [np.asarray(jargs[1], dtype=float).copy()]          # the declared initial state (x0 may be a zero of a base)
        for xv in (0.0, s_, rnd.uniform(-1.0, 1.5), rnd.uniform(-1.0, 1.5)):
            y = np.zeros(2)
            y[ix], y[iz] = xv, rnd.gauss(0, 0.5)
            pts.append(y)

        def fv(yv):
            return np.array(f(0.0, yv.copy(), *args[2:]), dtype=float, copy=True).ravel()[:2]
        for y in pts:
            h = 1e-5
            Jfd = np.array([(fv(y + h * np.eye(2)[j]) - fv(y - h * np.eye(2)[j])) / (2 * h) for j in range(2)]).T
            J0 = np.asarray(J(0.0, y.copy(), *list(jargs)[2:]), dtype=float)
            if J0.shape != (2, 2) or not np.all(np.isfinite(J0)) or not np.allclose(J0, Jfd, rtol=1e-5, atol=1e-6):
                raise observe.Mismatch(f"parameter exponents a={a_}, b={b_} ({' ; '.join(eqs)}): J at state x={y[ix]!r}, z={y[iz]!r} is {J0.tolist()}, "
                                       f"central differences of the vector field give {Jfd.tolist()}")
            mech['entries_compared'] = mech.get('entries_compared', 0) + 4
            if y[ix] in (0.0, s_):
                mech['points_at_zero_of_a_base'] = mech.get('points_at_zero_of_a_base', 0) + 1
        mech['symbolic_power_models'] = 1
        res.update(status='ok', symptom='', mech=mech)
    except observe.Mismatch as e:
        s2 = str(e)
        res.update(status='violation', symptom=('silent: ' if 'loud' not in s2 else '') + s2, mech=mech, spec={'eqs': eqs, 'x0': x0})
    return res


def warmup(ctx):
    import pyrates  # noqa
    import scipy.sparse  # noqa
    import mpmath
    mpmath.mp.dps = 40
    ctx['mp'] = mpmath
    ctx['open_risks'] = open_risks(PID)
    ctx['excluded'] = open_risks('C01') | open_risks('C10')
    import math
    from vp import expr as E
    E.F64['arctan'] = math.atan
    monitors.install()


def expr_funcs(spec):
    from vp import expr as E
    found = set()

    def walk(e):
        if e[0] == 'call':
            found.add(e[1])
            for a in e[2:]:
                walk(a)
        elif e[0] in ('num', 'var', 'const'):
            return
        elif e[0] == 'pow':
            walk(e[1])
        else:
            for a in e[1:]:
                walk(a)
    for o in spec['ops'].values():
        for k, l, x in o['eqs']:
            walk(E.fromlist(x) if isinstance(x, list) else x)
    return found


def make_case(case, ctx):
    rnd = random.Random(case['cseed'])
    want = case.get('want')
    opened = set(ctx['open_risks'])
    if case.get('spec') is not None:
        spec = case['spec']
        info = case.get('info')
    else:
        for attempt in range(400):
            if case['mode'] == 'ode':
                funcs = list(FUNCS)
                if want == 'absv_in_de' or ('absv_in_de' not in opened and rnd.random() < 0.3):
                    funcs.append('absv')
                if rnd.random() < 0.25:
                    funcs.append('sign')          # piecewise constant: contributes 0 to the Jacobian, must not blank the entry
                if want == 'sin_or_cos_in_de' or ('sin_or_cos_in_de' not in opened and rnd.random() < 0.5):
                    funcs += ['sin', 'cos']
                if want == 'inverse_trig_in_de' or ('inverse_trig_in_de' not in opened and rnd.random() < 0.35):
                    funcs.append('arctan')      # functions whose PyRates name is not sympy's (arctan vs atan)
                if rnd.random() < 0.3:
                    funcs += ['sinh', 'cosh']
                spec, feats, risk = gen.gen_net(rnd, pool=gen.SAFE_POOL, n_nodes=rnd.choice([1, 2, 3]), max_types=2,
                                                depth=rnd.choice([0, 0, 1]), forbid=ctx['excluded'], funcs=tuple(funcs))
                info = None
                if rnd.random() < 0.3:
                    # element-wise maximum / minimum of two expressions of the state variables inside a differential equation
                    from vp import expr as E
                    oname = rnd.choice(sorted(spec['ops']))
                    des_ = [e_ for e_ in spec['ops'][oname]['eqs'] if e_[0] == 'de']
                    if des_:
                        e_ = rnd.choice(des_)
                        st_ = [x_[1] for x_ in des_]
                        term = E.mul(E.num(E.rnd_coef(rnd)), E.call(rnd.choice(['maxi', 'mini']), E.bounded(rnd, st_, 1, FUNCS),
                                                                   E.bounded(rnd, st_, 1, FUNCS) if rnd.random() < 0.7 else E.num(E.rnd_coef(rnd))))
                        e_[2] = E.tolist(E.add(E.fromlist(e_[2]), term))
            else:
                spec, info = c10.gen_dde(rnd, None, int_delays=rnd.random() < 0.3)
                if info['n_delays'] < 1:
                    continue
            fs = expr_funcs(spec)
            r = set()
            if 'absv' in fs:
                r.add('absv_in_de')
            if fs & {'sin', 'cos'}:
                r.add('sin_or_cos_in_de')
            if fs & {'arctan', 'arcsin', 'arccos'}:
                r.add('inverse_trig_in_de')
            if info and info['nonfirst']:
                r.add('delay_on_nonfirst_state')
            if want and want not in r:
                continue
            if (opened - {want}) & r:
                continue
            break
        else:
            raise RuntimeError('generator could not satisfy the constraints')
    fs = expr_funcs(spec)
    r = set()
    if 'absv' in fs:
        r.add('absv_in_de')
    if fs & {'sin', 'cos'}:
        r.add('sin_or_cos_in_de')
    if fs & {'arctan', 'arcsin', 'arccos'}:
        r.add('inverse_trig_in_de')
    if info and info['nonfirst']:
        r.add('delay_on_nonfirst_state')
    return spec, info, sorted(r), sorted(fs)


def fd_jac(fun, y, h=1e-4):
    """6th-order central differences; returns (J, J_coarse) for a consistency check"""
    n = len(y)

    def central(hh):
        J = np.zeros((n, n))
        for j in range(n):
            acc = 0.0
            for k, c in ((1, 3 / 4), (2, -3 / 20), (3, 1 / 60)):
                yp = y.copy()
                yp[j] += k * hh
                ym = y.copy()
                ym[j] -= k * hh
                acc = acc + c * (fun(yp) - fun(ym))
            J[:, j] = acc / hh
        return J
    return central(h), central(2 * h)


def run_input_case(case, ctx):
    """Jacobian of a model that receives an extrinsic input which MULTIPLIES a state variable (adaptive solver: the input is
    interpolated in time): the matrix from get_jacobian_func(inputs=...) at times inside the input window against central
    differences of the function from get_run_func(inputs=...) of the same spec and input."""
    from vp import expr as E
    rnd = random.Random(case['cseed'])
    mech = {}
    for attempt in range(300):
        spec, feats, risk = gen.gen_net(rnd, pool=gen.SAFE_POOL, n_nodes=rnd.choice([1, 2]), max_types=2, depth=0, forbid=ctx['excluded'],
                                        funcs=FUNCS, edge_density=0.3)
        ref = RefModel(spec)
        ins = [k for k in ref.param_keys if ref.kind[k] == 'in' and not ref._intra_sources(k) and not any(e['tgt'] == k for e in ref.edges)]
        cand = [(k, e_) for k in ins for e_ in spec['ops'][k[1]]['eqs'] if e_[0] == 'de']
        if cand:
            break
    else:
        raise RuntimeError('generator could not satisfy the constraints')
    (node, opn, v_in), eq = rnd.choice(cand)
    eq[2] = E.tolist(E.add(E.fromlist(eq[2]), E.mul(E.num(round(rnd.uniform(0.5, 1.5), 3)), E.mul(E.var(v_in), E.var(eq[1])))))
    N, dt = rnd.choice([11, 40, 200]), 1e-3 if rnd.random() < 0.5 else 1e-2
    arr = np.linspace(0.0, rnd.uniform(5.0, 10.0), N) if rnd.random() < 0.5 else 3.0 * np.sin(np.linspace(0.0, 6.0, N))
    path = f'{node}/{opn}/{v_in}'
    # fixed-step solvers read sample k of the input at integration step k (t is the integer step counter there); the identity is
    # the same: J(k, y) is the matrix of partial derivatives of f(k, y)
    solver = rnd.choice(['scipy', 'scipy', 'euler', 'heun'])
    res = {'features': ['jacobian_with_extrinsic_input', f'N{N}', 'solver_' + solver], 'risk': [], 'sig': stable_hash([spec, N, dt, solver]),
           'nontrivial': True}
    try:
        try:
            obs = observe.compile_vf(spec, vectorize=False, solver=solver, step_size=dt, inputs={path: arr.copy()})
            tmpl, _ = build.build_python(spec)
            J, jargs, jnames, jsmap = tmpl.get_jacobian_func('jac', step_size=dt, vectorize=False, verbose=False, clear=True, in_place=False,
                                                             float_precision='float64', solver=solver, inputs={path: arr.copy()})
            if solver != 'scipy':
                np.asarray(J(*jargs), dtype=float)      # the returned arguments are valid arguments of the returned function
                mech['fixed_step_input_jacobians'] = 1
        except Exception as e:
            import traceback
            raise observe.Mismatch(f"loud: get_run_func / get_jacobian_func with inputs raised {type(e).__name__}: {e} :: {traceback.format_exc()[-300:]}")
        if {k: v for k, v in dict(jsmap).items() if k in obs['smap']} != {k: v for k, v in dict(obs['smap']).items() if k in jsmap}:
            raise observe.Mismatch(f"state ordering of the Jacobian {jsmap} differs from get_run_func's {obs['smap']}")
        n = len(np.asarray(obs['args'][1]))
        T = N * dt
        for pt in range(4):
            t = rnd.uniform(0.15, 0.9) * T if solver == 'scipy' else rnd.randrange(1, N - 1)
            y = np.array([rnd.gauss(0, 0.8) for _ in range(n)])
            Jfd, Jc = fd_jac(lambda yv: observe.call_vf(obs, obs['args'], yv.copy(), t=t), y)
            if not np.allclose(Jfd, Jc, rtol=1e-5, atol=1e-7):
                continue
            try:
                J0 = np.asarray(J(t, y.copy(), *list(jargs)[2:]), dtype=float)
            except Exception as e:
                raise observe.Mismatch(f"loud: Jacobian function of a model with an extrinsic input (solver {solver}) raised {type(e).__name__}: {e}")
            if J0.shape[0] < n:
                raise observe.Mismatch(f"Jacobian has shape {J0.shape} for a state vector of length {n}")
            err = np.abs(J0[:n, :n] - Jfd)
            i, j = np.unravel_index(int(np.argmax(err)), err.shape)
            if not err[i, j] <= 2e-6 * max(1.0, float(np.max(np.abs(Jfd)))):
                raise observe.Mismatch(f"extrinsic input ({N} samples, step {dt}) multiplying a state variable: J[{i},{j}] at t={t!r} is {J0[i, j]!r}, "
                                       f"central differences of the vector field with the same input give {Jfd[i, j]!r}")
            mech['entries_compared'] = mech.get('entries_compared', 0) + n * n
            mech['input_jacobian_points'] = mech.get('input_jacobian_points', 0) + 1
        res.update(status='ok', symptom='', mech=mech)
    except observe.Mismatch as e:
        s2 = str(e)
        res.update(status='violation', symptom=('silent: ' if 'loud' not in s2 else '') + s2, mech=mech, spec=spec)
    return res


def run_fixed_step_delay_case(case, ctx):
    """One node u' = -a*u + c*u*inp with a delayed self-connection (delay = m integration steps, m >= 2) under euler / heun: the
    delayed value is read from a buffer that get_run_func receives as an argument.  The function from get_jacobian_func, called
    with the arguments it was returned with, must equal central differences (w.r.t. the state vector, buffer held fixed) of the
    function from get_run_func."""
    from pyrates import OperatorTemplate, NodeTemplate, CircuitTemplate
    import warnings
    rnd = random.Random(case['cseed'])
    a, c, w = (round(rnd.uniform(0.5, 2.0), 3) for _ in range(3))
    x0 = round(rnd.uniform(0.2, 0.9), 3)
    m, dt, solver = rnd.choice([2, 3, 5, 8]), 1e-2, rnd.choice(['euler', 'heun'])
    mech = {}
    res = {'features': ['fixed_step_delay', solver, f'm{m}'], 'risk': ['fixed_step_delay_jacobian'], 'sig': stable_hash([a, c, w, x0, m, solver]),
           'nontrivial': True}

    def mk():
        op = OperatorTemplate(name='dop', path='none', equations=["u' = -a*u + c*u*inp"],
                              variables={'u': f'output({x0})', 'a': a, 'c': c, 'inp': 'input(0.0)'})
        return CircuitTemplate(name='dc', path='none', nodes={'p': NodeTemplate(name='dn', path='none', operators=[op])},
                               edges=[('p/dop/u', 'p/dop/inp', None, {'weight': w, 'delay': m * dt})])
    kw = dict(step_size=dt, solver=solver, vectorize=False, verbose=False, in_place=False, float_precision='float64')
    try:
        with warnings.catch_warnings():
            warnings.simplefilter('ignore')
            try:
                f, args, names, smap = mk().get_run_func('vf', clear=True, **kw)
                J, jargs, jnames, jsmap = mk().get_jacobian_func('jac', clear=True, **kw)
                J0 = np.asarray(J(*jargs), dtype=float)
            except Exception as e:
                raise observe.Mismatch(f"loud: fixed-step delayed Jacobian: {solver}, delay of {m} steps: {type(e).__name__}: {e}")
        y = np.asarray(args[1], dtype=float).copy()
        h = 1e-6

        def fv(yv):
            return np.array(f(args[0], yv.copy(), *args[2:]), dtype=float, copy=True).ravel()[:len(y)]
        Jfd = np.array([(fv(y + h * np.eye(len(y))[j]) - fv(y - h * np.eye(len(y))[j])) / (2 * h) for j in range(len(y))]).T
        if J0.shape != Jfd.shape or not np.allclose(J0, Jfd, rtol=1e-6, atol=1e-7):
            raise observe.Mismatch(f"fixed-step delayed Jacobian: {solver}, delay of {m} steps: J = {J0.tolist()}, central differences of the "
                                   f"vector field give {Jfd.tolist()}")
        mech['entries_compared'] = J0.size
        mech['fixed_step_delay_jacobians'] = 1
        res.update(status='ok', symptom='', mech=mech)
    except observe.Mismatch as e:
        s2 = str(e)
        res.update(status='violation', symptom=('silent: ' if 'loud' not in s2 else '') + s2, mech=mech, spec={'a': a, 'c': c, 'w': w, 'm': m, 'solver': solver})
    return res


def run_case(case, ctx):
    if case.get('mode') == 'fixed_step_delay':
        return run_fixed_step_delay_case(case, ctx)
    if case.get('mode') == 'symbolic_power':
        return run_symbolic_power_case(case, ctx)
    if case.get('family') == 'inputs':
        return run_input_case(case, ctx)
    if case.get('family') == 'auto_jacobian':
        from vp.props import c18
        res = c18.run_case(case, ctx)
        m = res.setdefault('mech', {})
        m['auto_jacobian_exports'] = 1
        m['entries_compared'] = m.get('entries_compared', 0) + m.get('dfdu_entries', 0) + m.get('dfdp_entries', 0)
        res['features'] = list(res.get('features', [])) + ['auto_jacobian']
        return res
    spec, info, risk, fs = make_case(case, ctx)
    mode = case['mode']
    rnd = random.Random(case['cseed'] + 9)
    mech = {}
    res = {'features': [mode] + fs, 'risk': risk, 'sig': stable_hash([spec, mode]), 'case_extra': {'info': info}}
    from vp import expr as E
    if info:
        E.PAST_STYLE[0] = info['style']
        E.INT_DELAY_STYLE[0] = bool(info.get('int_delays'))
        if info.get('int_delays'):
            mech['whole_number_delays'] = 1
    dt = 1e-3
    try:
        ref = RefModel(spec)
        n_state = len(ref.state_keys)
        res['nontrivial'] = n_state >= 2
        solver = 'scipy'
        coef = {}

        def hvec(t):
            return np.array([math.sin(coef[i][0] * t + coef[i][1]) for i in range(n_state)])
        for i in range(n_state):
            coef[i] = (rnd.uniform(20, 60), rnd.uniform(0, 3))
        extra = {'hist': hvec} if mode == 'dde' else {}
        try:
            obs = observe.compile_vf(spec, vectorize=False, solver=solver, step_size=dt, **extra)
        except Exception as e:
            raise observe.Mismatch(f"loud: get_run_func raised {type(e).__name__}: {e}")
        pos = observe.locate_states(obs, ref)
        sparse = rnd.random() < 0.3
        try:
            tmpl, _ = build.build_python(spec)
            J, jargs, jnames, jsmap = tmpl.get_jacobian_func('jac', step_size=dt, vectorize=False, verbose=False, clear=True,
                                                             in_place=False, float_precision='float64', solver=solver,
                                                             sparse=sparse)
        except Exception as e:
            import traceback
            raise observe.Mismatch(f"loud: get_jacobian_func raised {type(e).__name__}: {e} :: {traceback.format_exc()[-500:]}")
        if dict(jsmap) != dict(obs['smap']):
            raise observe.Mismatch(f"state ordering of the Jacobian {jsmap} differs from get_run_func's {obs['smap']}")
        jargs = list(jargs)
        if 'hist' in jnames:
            jargs[list(jnames).index('hist')] = hvec
        # parameters: same declared values in both (checked by name)
        fvals = {nm: np.asarray(a, dtype=float) for nm, a in zip(obs['names'], obs['args']) if nm not in ('t', 'y', 'dy', 'hist') and not callable(a)}
        for nm, a in zip(jnames, jargs):
            if nm in fvals and not callable(a) and not np.array_equal(np.asarray(a, dtype=float), fvals[nm]):
                raise observe.Mismatch(f"Jacobian argument {nm} = {a} differs from the vector field's {fvals[nm]}")
        n = len(np.asarray(obs['args'][1]))
        delays = sorted({e[2][1] for o in spec['ops'].values() for _, _, x in o['eqs'] for e in past_calls(x)})
        for pt in range(3):
            y = np.array([rnd.gauss(0, 0.8) for _ in range(n)])
            t = rnd.uniform(0.05, 0.3)

            def f_of(yv, hfun=None):
                a = list(obs['args'])
                if hfun is not None:
                    a[obs['names'].index('hist')] = hfun
                return observe.call_vf(obs, a, yv.copy(), t=t)
            Jfd, Jc = fd_jac(lambda yv: f_of(yv), y)
            if not np.allclose(Jfd, Jc, rtol=1e-5, atol=1e-7):
                mech['points_discarded'] = mech.get('points_discarded', 0) + 1
                continue
            # conditioning: a point where an intermediate quantity of the model is astronomically large (exp(exp(..)) ~ 1e200, whose
            # contribution then underflows to 0 in the vector field) cannot be differentiated in floating point - the exact derivative
            # 0 is formed as inf * 0 by ANY evaluation of the chain rule
            try:
                hk = (lambda key, tq: float(hvec(tq)[pos[key]])) if mode == 'dde' else None
                _, val_ = ref.rhs({k: float(y[i]) for k, i in pos.items()}, ref.p0(), t=t, hist=hk)
                big = max([abs(float(v)) for v in val_.memo.values()] or [0.0])
            except (OverflowError, ZeroDivisionError, ValueError):
                big = float('inf')
            except Exception:
                big = 0.0
            if not big < 1e60:
                mech['points_discarded_overflow'] = mech.get('points_discarded_overflow', 0) + 1
                continue
            try:
                out = J(t, y.copy(), *jargs[2:])
            except Exception as e:
                raise observe.Mismatch(f"loud: Jacobian function raised {type(e).__name__}: {e}")
            if mode == 'dde' and isinstance(out, tuple):
                J0, Jh = out
            else:
                J0, Jh = out, []
            if sparse:
                import scipy.sparse as sps
                if not sps.issparse(J0):
                    raise observe.Mismatch(f"sparse=True returned {type(J0).__name__}")
                J0 = J0.toarray()
                Jh = [m.toarray() for m in Jh]
                mech['sparse_checks'] = mech.get('sparse_checks', 0) + 1
            J0 = np.asarray(J0, dtype=float)
            if J0.shape != (n, n):
                raise observe.Mismatch(f"Jacobian has shape {J0.shape} for a state vector of length {n}")
            scale = max(1.0, float(np.max(np.abs(Jfd))))
            err = np.abs(J0 - Jfd)
            i, j = np.unravel_index(int(np.argmax(err)), err.shape)
            if not err[i, j] <= 2e-6 * scale:
                inv = {p: '/'.join(k) for k, p in pos.items()}
                raise observe.Mismatch(f"J[{i},{j}] = d({inv.get(i)})/d({inv.get(j)}) is {J0[i, j]!r}, central differences of the "
                                       f"vector field give {Jfd[i, j]!r} (functions in model: {fs})")
            if set(fs) & {'maxi', 'mini'}:
                mech['models_with_maxi_mini'] = 1
            mech['entries_compared'] = mech.get('entries_compared', 0) + n * n
            off = int(np.sum(np.abs(Jfd - np.diag(np.diag(Jfd))) > 1e-9))
            mech['offdiag_nonzero_entries'] = mech.get('offdiag_nonzero_entries', 0) + off
            if off:
                res['nontrivial'] = res['nontrivial'] and True
            # independent oracle: differences of the reference RHS
            if mode == 'ode':
                skeys = [k for k, _ in sorted(pos.items(), key=lambda kv: kv[1])]
                p0 = ref.p0()

                def fref(yv):
                    d, _ = ref.rhs({k: float(yv[pos[k]]) for k in skeys}, p0, t)
                    o = np.zeros(n)
                    for k in skeys:
                        o[pos[k]] = d[k]
                    return o
                if len(skeys) == n:
                    Jr, _ = fd_jac(fref, y)
                    e2 = np.abs(J0 - Jr)
                    i, j = np.unravel_index(int(np.argmax(e2)), e2.shape)
                    if not e2[i, j] <= 2e-6 * max(1.0, float(np.max(np.abs(Jr)))):
                        raise observe.Mismatch(f"J[{i},{j}] is {J0[i, j]!r}, differences of the REFERENCE RHS give {Jr[i, j]!r}")
                    mech['entries_vs_reference'] = mech.get('entries_vs_reference', 0) + n * n
            # history Jacobians
            if mode == 'dde':
                if len(Jh) != len(delays):
                    raise observe.Mismatch(f"{len(Jh)} history Jacobians returned for {len(delays)} distinct delays {delays}")
                exp_mats = []
                for tau in delays:
                    M = np.zeros((n, n))
                    for j in range(n):
                        acc = 0.0
                        hh = 1e-4
                        for k, c in ((1, 3 / 4), (2, -3 / 20), (3, 1 / 60)):
                            def hp(tq, s=+1, k=k, j=j, tau=tau):
                                v = hvec(tq)
                                if abs((t - tq) - tau) < 1e-12:
                                    v = v.copy()
                                    v[j] += s * k * hh
                                return v
                            fp = f_of(y, lambda tq, hp=hp: hp(tq, +1))
                            fm = f_of(y, lambda tq, hp=hp: hp(tq, -1))
                            acc = acc + c * (fp - fm)
                        M[:, j] = acc / hh
                    exp_mats.append(M)
                used = set()
                for m in Jh:
                    m = np.asarray(m, dtype=float)
                    hit = None
                    for q, M in enumerate(exp_mats):
                        if q not in used and np.allclose(m, M, rtol=2e-6, atol=2e-6 * max(1.0, float(np.max(np.abs(M))))):
                            hit = q
                            break
                    if hit is None:
                        inv = {p: '/'.join(k) for k, p in pos.items()}
                        nz = {tuple(map(int, ij)): float(m[tuple(ij)]) for ij in np.argwhere(np.abs(m) > 1e-12)}
                        want_ = [{tuple(map(int, ij)): round(float(M[tuple(ij)]), 6) for ij in np.argwhere(np.abs(M) > 1e-9)} for M in exp_mats]
                        raise observe.Mismatch(f"a returned history Jacobian (non-zeros {nz}) matches none of the difference "
                                               f"quotients w.r.t. y(t - tau) for tau in {delays}: expected non-zeros {want_}; state "
                                               f"positions {inv}")
                    used.add(hit)
                mech['hist_entries_compared'] = mech.get('hist_entries_compared', 0) + len(Jh) * n * n
        mech[mode + '_models'] = 1
        res.update(status='ok', symptom='', mech=mech)
        from vp.build import eq_text
        res['sample'] = {'equations': {nm: [eq_text(k, l, x) for k, l, x in o['eqs']] for nm, o in spec['ops'].items()},
                         'mode': mode, 'sparse': sparse, 'n': n}
    except observe.Mismatch as e:
        s = str(e)
        res.update(status='violation', symptom=('silent: ' if 'loud' not in s else '') + s, mech=mech, spec=spec)
    finally:
        E.PAST_STYLE[0] = 'past'
        E.INT_DELAY_STYLE[0] = False
    return res


def past_calls(x):
    from vp import expr as E
    e = E.fromlist(x) if isinstance(x, list) else x
    out = []

    def walk(e):
        if e[0] == 'call':
            if e[1] == 'past':
                out.append(('past', e[2], e[3]))
            for a in e[2:]:
                walk(a)
        elif e[0] in ('num', 'var', 'const'):
            return
        elif e[0] == 'pow':
            walk(e[1])
        else:
            for a in e[1:]:
                walk(a)
    walk(e)
    return out


# MANIFEST-BEGIN
MANIFEST = {
    'technique': 'differential monitor: analytic Jacobian function vs 6th-order central differences of the compiled vector field and of the independent reference RHS; history Jacobians vs differences w.r.t. the hand-made history output',
    'level_text': 'For generated scalar ODE and DDE models the matrix returned by get_jacobian_func is compared entry by entry (2e-6) at random states with central differences of the function from get_run_func of the same spec (same state ordering required) and of the independent reference RHS; for DDEs each returned history matrix must equal the difference quotient w.r.t. y(t - tau) for one distinct delay (perturbing single components of a hand-made history), which detects entries written to the wrong column; sparse=True is compared with dense. The auto-07p DFDU/DFDP blocks are checked on exports with up to 26 parameters (machinery of C18); whole-number delays are written as x(t-10). Models may contain maxi / mini terms; probe points at which an intermediate quantity of the model exceeds 1e60 are discarded (inf*0 in any evaluation of the chain rule). An inputs family lets an extrinsic input multiply a state variable, under adaptive solvers (J at times between samples) and under euler / heun (J at integer step counters, called with the returned arguments); probe family: a delayed edge under a fixed-step solver whose delayed value multiplies a state variable (recorded finding). A symbolic_power family uses exponents that are parameters (x^a) and probes the Jacobian at the zero of the base. Models may contain sign() terms (derivative 0, the entry must keep its other terms). Held on observed models only.',
    'level_note': 'Trusted: finite differences (points where steps h and 2h disagree are discarded), vp/ref.py. auto-07p DFDU/DFDP blocks are covered under C18.',
}
# MANIFEST-END
