"""C19 - DDEHistory returns the piecewise-linear interpolant of what it was given.

Monitor: a shadow list model (times, copies of the states) next to the live object; every query of the live
object is compared with the oracle computed from the shadow.  icontract invariants on the live class check the
internal representation where it exists (skipped, not failed, if the representation is refactored away)."""
import bisect
import random

import numpy as np

LEVEL = 'exploration'
RULE = ("seeded random update/query sequences against pyrates.backend.base.base_backend.DDEHistory; a case is "
        "non-trivial if it has >= 20 updates and >= 10 interior queries; distinct = distinct (shape, dtype, length, "
        "seed) signature")
DECIDING = ['queries_between', 'queries_at', 'queries_before', 'queries_after', 'growth_events', 'mutation_checks',
            'bounded_raise_checks', 'insitu_queries', 'result_mutation_checks', 'integer_initial_state', 'refused_malformed_updates', 'sequences_with_array_time']
ASSUMPTIONS = ['update times strictly increasing (as the property states)', 'finite values only']
CASE_TIMEOUT = 300


def plan(tier, seed):
    rnd = random.Random(f'c19-{seed}')
    n = 300 if tier == 'quick' else 6000
    cases = []
    shapes = [(), (1,), (3,), (7,), (2, 3), (4, 1)]
    dtypes = ['float64', 'float32', 'complex128']
    for i in range(n):
        r = rnd.random()
        if tier == 'quick':
            length = rnd.choice([5, 30, 200, 1023, 1024, 1025, 1500, 2500, 4200]) if r < 0.8 else rnd.randint(1, 5000)
        else:
            length = rnd.choice([5, 30, 200, 1023, 1024, 1025, 2049, 4097, 9000, 20000]) if r < 0.7 else rnd.randint(1, 20000)
        cases.append({'family': 'main', 'kind': 'seq', 'cseed': rnd.randrange(1 << 30), 'shape': list(rnd.choice(shapes)),
                      'dtype': rnd.choice(dtypes), 'length': length, 'bounded': rnd.random() < 0.25,
                      'int_y0': rnd.random() < 0.15, 'array_time': rnd.random() < 0.2,
                      'tstyle': rnd.choice(['uniform', 'jitter', 'tiny', 'huge', 'negative_start'])})
    # in-situ cases: a real DDE run with the monitored history class
    m = 6 if tier == 'quick' else 60
    for i in range(m):
        cases.append({'family': 'main', 'kind': 'insitu', 'cseed': rnd.randrange(1 << 30),
                      'solver': rnd.choice(['euler', 'heun', 'scipy']), 'steps': rnd.choice([300, 1500, 2600])})
    return cases


class Shadow:
    def __init__(self, y0, t0):
        self.t = [float(t0)]
        self.y = [np.array(y0, copy=True)]

    def update(self, t, y):
        self.t.append(float(t))
        self.y.append(np.array(y, copy=True))

    def query(self, t):
        """returns (kind, expected)"""
        t = float(t)
        if t <= self.t[0]:
            return 'before', self.y[0]
        if t >= self.t[-1]:
            return 'after', self.y[-1]
        i = bisect.bisect_right(self.t, t) - 1
        if self.t[i] == t:
            return 'at', self.y[i]
        a = (t - self.t[i]) / (self.t[i + 1] - self.t[i])
        return 'between', self.y[i] + a * (self.y[i + 1] - self.y[i])


def _tol(dtype):
    return 2e-5 if dtype == 'float32' else 1e-11


def _cmp(kind, got, exp, dtype):
    got = np.asarray(got)
    exp = np.asarray(exp)
    if got.shape != exp.shape:
        return f'shape {got.shape} != {exp.shape}'
    if kind in ('before', 'after', 'at'):
        if not np.array_equal(got, exp):
            return f'{kind}: expected exactly the stored record, max diff {np.max(np.abs(got - exp))}'
        return None
    scale = max(1.0, float(np.max(np.abs(exp))) if exp.size else 1.0)
    err = float(np.max(np.abs(got - exp))) if exp.size else 0.0
    if not err <= _tol(dtype) * scale:
        return f'between: interpolation error {err} (scale {scale})'
    return None


def install_contracts(mech):
    """icontract invariants on the live class; representation-specific, skipped if attributes are missing."""
    try:
        import icontract
        from pyrates.backend.base import base_backend as bb
    except Exception:
        return False

    class InvariantBroken(Exception):
        pass

    def rep_ok(self):
        try:
            t, y, n = self._t, self._y, self._n
        except AttributeError:
            mech['invariant_skipped'] = mech.get('invariant_skipped', 0) + 1
            return True
        mech['invariant_evals'] = mech.get('invariant_evals', 0) + 1
        if len(t) != n or n > len(y) or n < 1:
            return False
        if n >= 2 and not t[-2] <= t[-1]:   # the scipy DDE path records t0 twice (solout at the initial point)
            return False
        return True

    try:
        bb.DDEHistory = icontract.invariant(rep_ok, error=lambda self: InvariantBroken(
            f"DDEHistory representation invariant broken: len(_t)={len(self._t)} _n={self._n} cap={len(self._y)}"))(bb.DDEHistory)
    except Exception:
        return False
    return True


def run_seq(case, mech):
    from pyrates.backend.base import base_backend as bb
    H = bb.DDEHistory
    rnd = random.Random(case['cseed'])
    nrs = np.random.RandomState(case['cseed'] % (2 ** 31))
    shape = tuple(case['shape'])
    dtype = case['dtype']
    length = case['length']

    def rand_state():
        v = nrs.standard_normal(shape)
        if dtype.startswith('complex'):
            v = v + 1j * nrs.standard_normal(shape)
        return np.asarray(v * rnd.choice([1.0, 1e-3, 1e3]), dtype=dtype)

    ts = case['tstyle']
    t0 = {'negative_start': -3.7, 'huge': 1e6, 'tiny': 0.0}.get(ts, 0.0)
    dt = {'tiny': 1e-9, 'huge': 13.0}.get(ts, 0.01)
    y0 = rand_state()
    if case.get('int_y0') and dtype == 'float64':
        # initial state given as whole numbers in an integer array (np.array([0, 1])), later records are floats
        kind_ = rnd.choice(['int64', 'int64', 'int32', 'uint8', 'bool'])
        if kind_ == 'bool':
            # (a state of flags, np.array([True, False]): promoted like the integer kinds)
            y0 = np.asarray(np.real(y0) > 0)
            mech['boolean_initial_state'] = mech.get('boolean_initial_state', 0) + 1
        elif kind_ == 'uint8':
            y0 = np.asarray(np.abs(np.round(np.real(y0) * 3)) % 200, dtype=np.uint8)
        else:
            y0 = np.asarray(np.round(np.real(y0) * 3), dtype=kind_)
        mech['integer_initial_state'] = mech.get('integer_initial_state', 0) + 1
    bounded = case['bounded']
    cap = None
    if bounded:
        cap = max(1, length // rnd.choice([1, 2, 3]) + rnd.choice([0, 1]))
        h = H(y0, t0=t0, max_steps=cap)
    else:
        h = H(y0, t0=t0)
    sh = Shadow(y0, t0)
    # caller mutates y0 afterwards: must not alter the record
    if y0.shape and y0.dtype.kind == 'b':
        y0[...] = ~y0
    elif y0.shape and y0.dtype.kind == 'u':
        y0 += 50
    elif y0.shape:
        y0 += 1000 if y0.dtype.kind in 'iu' else 1000.0
    else:
        y0 = y0 + 1000.0
    t = t0
    last_arr = None
    cap_seen = None
    try:
        cap_seen = len(h._y)
    except AttributeError:
        pass
    nq = 0
    for k in range(length):
        step = dt * (1.0 if ts == 'uniform' else rnd.uniform(0.05, 2.0))
        t = t + step
        if t <= sh.t[-1]:
            t = np.nextafter(sh.t[-1], np.inf)
        y = rand_state()
        if bounded and len(sh.t) >= cap:
            # must refuse
            try:
                h.update(t, y)
            except (IndexError, ValueError, RuntimeError, OverflowError, MemoryError) as e:
                mech['bounded_raise_checks'] = mech.get('bounded_raise_checks', 0) + 1
                # and the existing records must be intact
                for tq in (sh.t[0], sh.t[-1], sh.t[len(sh.t) // 2]):
                    kind, exp = sh.query(tq)
                    msg = _cmp(kind, h(tq), exp, dtype)
                    if msg:
                        return f'after refused update: {msg}'
                break
            else:
                return f'bounded history (max_steps={cap}) accepted update number {len(sh.t)} beyond its capacity'
        if shape and rnd.random() < 0.02:
            # an update that cannot be stored (state of another shape) is refused; the history must stay as it was
            bad = np.zeros(tuple(d_ + 1 for d_ in shape), dtype=y.dtype)
            try:
                h.update(t, bad)
            except Exception:
                mech['refused_malformed_updates'] = mech.get('refused_malformed_updates', 0) + 1
                for tq in (sh.t[0], sh.t[-1], 0.5 * (sh.t[-1] + sh.t[max(0, len(sh.t) - 2)]), sh.t[-1] + dt):
                    kind, exp = sh.query(tq)
                    msg = _cmp(kind, np.array(h(tq), copy=True), exp, dtype)
                    if msg:
                        return f'query t={tq!r} after a refused update (state of shape {bad.shape} instead of {shape}): {msg}'
            else:
                return f'update with a state of shape {bad.shape} was accepted by a history of shape {shape}'
        if case.get('array_time'):
            # the caller keeps the time in ONE 0-d array that it advances in place (a hand-written stepping loop)
            if k == 0:
                tcell = np.array(float(t))
                mech['sequences_with_array_time'] = mech.get('sequences_with_array_time', 0) + 1
            tcell[...] = t
            h.update(tcell, y)
        else:
            h.update(t, y)
        sh.update(t, y)
        mech['updates'] = mech.get('updates', 0) + 1
        if y.shape and rnd.random() < 0.3:
            y *= -7.0      # caller re-uses / mutates its array after update
            y += 3.0
            mech['mutation_checks'] = mech.get('mutation_checks', 0) + 1
            msg = _cmp('at', h(t), sh.y[-1], dtype)
            if msg:
                return f'record changed when the caller mutated its array after update: {msg}'
        try:
            c = len(h._y)
            if cap_seen is not None and c != cap_seen:
                mech['growth_events'] = mech.get('growth_events', 0) + 1
                cap_seen = c
                # after growth: every record so far must be intact (full sweep)
                for j in range(0, len(sh.t), max(1, len(sh.t) // 200)):
                    msg = _cmp('at', h(sh.t[j]), sh.y[j], dtype)
                    if msg:
                        return f'after growth event at n={len(sh.t)}: record {j} {msg}'
        except AttributeError:
            pass
        # interleaved queries
        if rnd.random() < 0.15 or k == length - 1:
            for _ in range(rnd.randint(1, 6)):
                r = rnd.random()
                n = len(sh.t)
                if r < 0.1:
                    tq = sh.t[0] - rnd.choice([0.0, dt, 1e3])
                elif r < 0.2:
                    tq = sh.t[-1] + rnd.choice([0.0, dt, 1e3])
                elif r < 0.45:
                    tq = sh.t[rnd.randrange(n)]
                elif r < 0.55 and n >= 2:
                    j = rnd.randrange(n - 1)
                    tq = float(np.nextafter(sh.t[j + 1], -np.inf)) if rnd.random() < 0.5 else float(np.nextafter(sh.t[j], np.inf))
                else:
                    j = rnd.randrange(max(1, n - 1))
                    lo, hi = sh.t[j], sh.t[min(j + 1, n - 1)]
                    tq = lo + rnd.random() * (hi - lo)
                kind, exp = sh.query(tq)
                live = h(tq)
                got = np.array(live, copy=True)
                mech['queries_' + kind] = mech.get('queries_' + kind, 0) + 1
                nq += 1
                msg = _cmp(kind, got, exp, dtype)
                if msg:
                    return f'query t={tq!r} after {n} records ({kind}): {msg}'
                if isinstance(live, np.ndarray) and live.shape and live.flags.writeable and rnd.random() < 0.5:
                    # the caller works in place on the array it was handed: the stored records must not change
                    live[...] = 12345.0
                    mech['result_mutation_checks'] = mech.get('result_mutation_checks', 0) + 1
                    msg = _cmp(kind, np.array(h(tq), copy=True), exp, dtype)
                    if msg:
                        return (f'query t={tq!r} after {n} records ({kind}) repeated after the caller modified the array returned '
                                f'by the first query in place: {msg}')
    if not bounded and length >= 1024:
        # growth without internals: fall back to counting by length
        if cap_seen is None:
            mech['growth_events'] = mech.get('growth_events', 0) + 1
    return None


def run_insitu(case, mech):
    """Real DDE simulation with the history class replaced by a monitored subclass."""
    from pyrates.backend.base import base_backend as bb
    from pyrates import OperatorTemplate, NodeTemplate, CircuitTemplate
    Base = bb.DDEHistory
    problems = []

    class Monitored(Base):
        def __init__(self, y0, t0=0.0, **kw):
            super().__init__(y0, t0=t0, **kw)
            self._sh = Shadow(np.asarray(y0), t0)

        def update(self, t, y):
            super().update(t, y)
            self._sh.update(t, y)
            mech['insitu_updates'] = mech.get('insitu_updates', 0) + 1

        def __call__(self, t):
            got = super().__call__(t)
            kind, exp = self._sh.query(t)
            mech['insitu_queries'] = mech.get('insitu_queries', 0) + 1
            mech['insitu_' + kind] = mech.get('insitu_' + kind, 0) + 1
            msg = _cmp(kind, got, exp, str(np.asarray(exp).dtype))
            if msg and len(problems) < 3:
                problems.append(f'in-situ query t={t!r}: {msg}')
            return got

    bb.DDEHistory = Monitored
    try:
        rnd = random.Random(case['cseed'])
        tau = round(rnd.uniform(0.02, 0.2), 3)
        tau2 = round(rnd.uniform(0.02, 0.2), 3)
        op = OperatorTemplate(name='dde_op', equations=[f"x' = -k*past(x, {tau}) + 0.3*z", f"z' = -z + 0.5*past(x, {tau2})"],
                              variables={'x': 'output(1.0)', 'z': 'variable(0.2)', 'k': 1.3})
        c = CircuitTemplate(name='c', nodes={'p': NodeTemplate(name='n', operators=[op])})
        dt = 1e-3
        T = case['steps'] * dt
        kw = {}
        if case['solver'] == 'scipy':
            kw = {'rtol': 1e-6, 'atol': 1e-8}
        c.run(simulation_time=T, step_size=dt, solver=case['solver'], outputs={'x': 'p/dde_op/x'}, verbose=False,
              vectorize=False, float_precision='float64', clear=True, in_place=False, **kw)
    finally:
        bb.DDEHistory = Base
    return problems[0] if problems else None


def warmup(ctx):
    import pyrates  # noqa
    ctx['mech0'] = {}
    ctx['contracts'] = install_contracts(ctx['mech0'])


def run_case(case, ctx):
    mech = ctx['mech0']
    for k in list(mech):
        mech[k] = 0
    try:
        msg = run_seq(case, mech) if case['kind'] == 'seq' else run_insitu(case, mech)
    except Exception as e:
        import traceback
        tb = traceback.format_exc()[-1500:]
        msg = f'exception {type(e).__name__}: {e} :: {tb}'
    nontrivial = mech.get('updates', 0) >= 20 and mech.get('queries_between', 0) >= 10 or mech.get('insitu_queries', 0) > 50
    res = {'status': 'violation' if msg else 'ok', 'symptom': msg or '', 'mech': dict(mech), 'nontrivial': bool(nontrivial),
           'sig': f"{case.get('shape')}-{case.get('dtype')}-{case.get('length')}-{case['cseed']}-{case.get('solver')}",
           'features': [case['kind'], str(case.get('dtype')), 'bounded' if case.get('bounded') else 'growable',
                        str(case.get('tstyle'))],
           'risk': []}
    res['sample'] = {'case': {k: v for k, v in case.items() if k != 'idx'}, 'observed': dict(mech)}
    return res

# MANIFEST-BEGIN
MANIFEST = {
    'technique': 'shadow-model monitor on every DDEHistory update/query (scripted sequences and in-situ DDE runs) + icontract representation invariants',
    'level_text': 'Every query made during thousands of seeded update/query sequences (several buffer growth events, shapes (), (n,), (n,m), float32/64/complex, queries before/at/between/after records, caller mutation after update, in-place modification of returned arrays followed by a repeated query, integer initial state with float records, malformed updates that must be refused without damage, bounded histories at capacity) and during real Euler/Heun/scipy DDE runs is compared with a list-based piecewise-linear oracle Initial states may be boolean, unsigned or 32-bit integer arrays;; held on the observed executions only.',
    'level_note': 'Trusted: the 20-line shadow model; numpy float arithmetic. Update times are strictly increasing in scripted sequences. Representation invariants are skipped (counted) if the private attributes disappear.',
}
# MANIFEST-END
