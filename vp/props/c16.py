"""C16 - Population/Connectivity equals the explicit node-and-edge network."""
import math
import random

import numpy as np

from vp import gen, observe, monitors, build, expr as E
from vp.ref import RefModel
from vp.runner import open_risks, stable_hash

PID = 'C16'
LEVEL = 'exploration'
RULE = ("seeded circuits of 1-2 PopulationTemplate(n) (n in 1..6, per-unit heterogeneous constants and initial values) and 1-3 "
        "Connectivity objects (non-square, sparse, signed, non-symmetric weight matrices; scalar weights; optional algebraic "
        "coupling EdgeTemplate evaluated per (target, source) pair with edge_var_map; optional delay >= 2 steps (on or off the step grid) with or without "
        "spread); the reference is the independent semantics of the EXPLICIT network (n separately declared nodes, one scalar edge "
        "per non-zero entry); compared: derivative of every unit at random states (positions by value fingerprinting), Euler "
        "trajectories unit by unit incl. population outputs (one column per unit in unit order), and the explicit circuit built "
        "with add_edges_from_matrix; non-trivial = n >= 2 and a non-symmetric / non-uniform W; distinct = distinct spec hash")
DECIDING = ['derivatives_compared', 'rows_compared', 'pop_output_columns', 'matrix_connections', 'scalar_connections',
            'coupling_connections', 'delayed_connections', 'explicit_matrix_circuits', 'nonsquare', 'dynamic_coupling_models']    # (the coupling sub-kinds two_equation / with_constant / scalar_weight are counted, not required: a few per quick run)
ASSUMPTIONS = ['W[i, j] couples source unit j to target unit i', 'scalar weight w means w * sum_j source_j for every target']
CASE_TIMEOUT = 240
FOCUS = ['conn_mixed_delay_same_source', 'parallel_connectivities', 'dynamic_couplings_share_target', 'conn_delay', 'conn_coupling', 'conn_scalar', 'pop_n1_connected', 'conn_coupling_post_with_delay',
         'two_delayed_conns_same_source', 'coupling_src_post_same_name', 'coupling_shares_target_var',
         'matrix_delay_source_named_k']

NO_POST = ('src_only', 'dynamic', 'two_eq_src')      # coupling forms without a post-synaptic input


def plan(tier, seed):
    rnd = random.Random(f'{PID}-{seed}')
    n = 150 if tier == 'quick' else 4000
    cases = [{'family': 'main', 'cseed': rnd.randrange(1 << 30)} for _ in range(n)]
    opened = open_risks(PID)
    k = 10 if tier == 'quick' else 100
    for feat in FOCUS:
        fam = 'probe:' + feat if feat in opened else 'main'
        cases += [{'family': fam, 'cseed': rnd.randrange(1 << 30), 'want': feat} for _ in range(k)]
    cases += [{'family': 'update_sibling', 'cseed': rnd.randrange(1 << 30)} for _ in range(16 if tier == 'quick' else 300)]
    return cases


def warmup(ctx):
    import pyrates  # noqa
    import mpmath
    mpmath.mp.dps = 40
    ctx['mp'] = mpmath
    ctx['open_risks'] = open_risks(PID)
    monitors.install()


def gen_pop_case(rnd, want, opened):
    for _try in range(50):
        try:
            return _gen_pop_case(rnd, want, opened)
        except (IndexError, KeyError, ValueError):
            continue
    raise RuntimeError('generator could not satisfy the constraints')


def _gen_pop_case(rnd, want, opened, dynamic_only=False):
    """returns plan dict: pops {name: {op spec, n, params}}, conns [...] and the explicit spec"""
    for attempt in range(1500):
        vals = gen.Vals(rnd)
        n_pops = rnd.choice([1, 1, 2])
        if want in ('coupling_src_post_same_name', 'two_delayed_conns_same_source'):
            n_pops = 2
        pops = {}
        ops = {}
        for pi in range(n_pops):
            name = ['p', 'q'][pi]
            opn = f'pop_op{pi}'
            out_name = rnd.choice(['r', 'x', 'v'])
            if want == 'coupling_src_post_same_name':
                out_name = 'v'
            if want == 'matrix_delay_source_named_k':
                out_name = 'k'
            op = gen.gen_op(rnd, vals, opn, out_name, ['u'] + (['w'] if rnd.random() < 0.4 else []),
                            gen.SAFE_POOL if want != 'matrix_delay_source_named_k' else [x for x in gen.SAFE_POOL if x != 'k'] + ['kk'],
                            n_state_extra=rnd.choice([0, 1]), alg_out=False, with_alg=rnd.random() < 0.3)
            for v, d in op['vars'].items():
                if d[0] == 'in':
                    d[1] = 0.0
            if rnd.random() < 0.12:
                # pure integrator of an input: the right-hand side consists of the (connected or unconnected) input only
                des_ = [e_ for e_ in op['eqs'] if e_[0] == 'de']
                ins_ = [v for v, d in op['vars'].items() if d[0] == 'in']
                if des_ and ins_:
                    e_ = rnd.choice(des_)
                    e_[2] = E.tolist(E.mul(E.num(round(rnd.uniform(0.5, 2.5), 3)), E.var(rnd.choice(ins_))))
                    op['__integrator'] = True
            ops[opn] = op
            if rnd.random() < 0.25:
                # a constant declared with an integer default (YAML `k: 2`); the per-unit params are floats all the same
                cs_i = [v for v, d in op['vars'].items() if d[0] == 'const']
                if cs_i:
                    op['vars'][rnd.choice(cs_i)][1] = rnd.choice([1, 2, 3])
            n = rnd.choice([1, 2, 3, 3, 4, 6]) if want != 'pop_n1_connected' else rnd.choice([1, 1, 3])
            params = {}
            de = {e[1] for e in op['eqs'] if e[0] == 'de'}
            for v, d in op['vars'].items():
                if v in de or (d[0] == 'const' and rnd.random() < 0.7):
                    params[v] = [vals.new() for _ in range(n)]
                    if d[0] == 'const' and isinstance(d[1], int) and n >= 2 and rnd.random() < 0.6:
                        # integer-declared constant whose per-unit list STARTS with whole numbers (the list must become a float vector
                        # whichever entry is the first fractional one)
                        for i_ in range(rnd.randint(1, n - 1)):
                            params[v][i_] = float(rnd.choice([1, 2, 3, 4])) if rnd.random() < 0.5 else rnd.choice([1, 2, 3, 4])
            pops[name] = {'op': opn, 'n': n, 'params': params}
        conns = []
        risk = set()
        dt = 1e-3
        dynamic_only = dynamic_only or want == 'dynamic_couplings_share_target'
        for _ in range(rnd.randint(1, 3) if want not in ('two_delayed_conns_same_source', 'coupling_shares_target_var',
                                                         'dynamic_couplings_share_target') else rnd.choice([2, 3])):
            sp = rnd.choice(list(pops))
            tp = rnd.choice(list(pops))
            sop, top = pops[sp]['op'], pops[tp]['op']
            svars = [e[1] for e in ops[sop]['eqs'] if e[0] == 'de']
            tvars = [v for v, d in ops[top]['vars'].items() if d[0] == 'in']
            sv, tv = rnd.choice(svars), rnd.choice(tvars)
            if want in ('coupling_src_post_same_name', 'matrix_delay_source_named_k'):
                sv = [v for v, d_ in ops[sop]['vars'].items() if d_[0] == 'out'][0]
                if want == 'coupling_src_post_same_name' and sp == tp:
                    tp = [x for x in pops if x != sp][0]
                    top = pops[tp]['op']
                    tvars = [v for v, d_ in ops[top]['vars'].items() if d_[0] == 'in']
                    tv = rnd.choice(tvars)
            if want == 'two_delayed_conns_same_source' and conns:
                sp, sop, sv = conns[0]['source']
                ns = pops[sp]['n']
            if any(c['target'] == (tp, top, tv) and c['source'][0] == sp and c['source'][2] != sv for c in conns):
                continue
            ns, nt = pops[sp]['n'], pops[tp]['n']
            kind = rnd.choice(['matrix', 'matrix', 'matrix', 'scalar', 'coupling'])
            if want in ('coupling_src_post_same_name', 'coupling_shares_target_var', 'conn_coupling_post_with_delay') and \
                    not any(c_['kind'] == 'coupling' for c_ in conns):
                kind = 'coupling'
            if want == 'dynamic_couplings_share_target':
                kind = 'coupling'
                if conns:
                    tp, top, tv = conns[0]['target']
                    nt = pops[tp]['n']
            if want == 'coupling_shares_target_var' and conns and conns[0]['kind'] == 'coupling':
                tp, top, tv = conns[0]['target']
                nt = pops[tp]['n']
                kind = 'matrix'
                if any(c_['source'] == (sp, sop, sv) for c_ in conns):
                    continue
            c = {'source': (sp, sop, sv), 'target': (tp, top, tv), 'kind': kind}
            if kind == 'scalar':
                c['w'] = round(vals.new() * rnd.choice([1, -1, 2]), 4)
                if rnd.random() < 0.3:
                    c['w'] = 1.0      # the weight for which the generated edge equation omits the multiplication
                risk.add('conn_scalar')
            else:
                dens = rnd.choice([0.3, 0.6, 1.0])
                W = np.zeros((nt, ns))
                for i in range(nt):
                    for j in range(ns):
                        if rnd.random() < dens:
                            W[i, j] = round(vals.new() * rnd.choice([1, 1, -1, 2]), 4) if rnd.random() > 0.1 else 1.0
                if not W.any():
                    W[rnd.randrange(nt), rnd.randrange(ns)] = round(vals.new(), 4)
                c['W'] = W.tolist()
                if kind == 'coupling':
                    risk.add('conn_coupling')
                    post = rnd.choice([e[1] for e in ops[top]['eqs'] if e[0] == 'de'])
                    c['form'] = rnd.choice(['sin_diff', 'prod', 'src_only', 'dynamic', 'dynamic', 'two_eq', 'two_eq_src', 'const_gain'])
                    if c['form'] == 'const_gain':
                        c['gk'] = round(vals.new() * 3, 4)        # a constant declared by the (algebraic) edge operator
                    if rnd.random() < 0.25:
                        # uniform all-to-all coupling through the coupling function: scalar weight together with an edge template
                        c['w'] = round(vals.new() * rnd.choice([1, -1, 2]), 4)
                        c['W'] = [[c['w']] * ns for _ in range(nt)]
                        c['w_scalar'] = True
                    if dynamic_only:
                        c['form'] = 'dynamic'
                    if c['form'] == 'dynamic':
                        c['rc'] = round(vals.new() * 40, 3)       # rate constant of the edge's own state variable
                    if want == 'coupling_src_post_same_name':
                        post = [v for v, d_ in ops[top]['vars'].items() if d_[0] == 'out'][0]
                        c['form'] = rnd.choice(['sin_diff', 'prod'])
                    c['post'] = post
            if rnd.random() < 0.3 or want in ('conn_delay', 'two_delayed_conns_same_source', 'matrix_delay_source_named_k',
                                              'conn_coupling_post_with_delay'):
                # on the step grid or off it (fraction >= 0.5 rounds up, < 0.5 rounds down: round(d/dt) steps)
                d = (rnd.randint(2, 6) + rnd.choice([0.0, 0.0, 0.6, 0.75, 0.3, 0.45])) * dt
                c['delay'] = round(d, 9)
                c['off_grid'] = abs(d / dt - round(d / dt)) > 1e-6
                risk.add('conn_delay')
                if rnd.random() < 0.35 and want != 'matrix_delay_source_named_k':
                    c['zero_spread'] = rnd.choice([0.0, 0])      # the keyword given explicitly as zero: still a discrete delay
                elif rnd.random() < 0.4 or want == 'matrix_delay_source_named_k':
                    nord = rnd.choice([1, 2, 3])
                    c['delay'] = round(max(d, 1.5 * nord * dt), 6)
                    c['spread'] = round(c['delay'] / math.sqrt(nord + (0.1 if nord == 1 else rnd.uniform(-0.3, 0.3))), 9)
                    risk.add('conn_spread')
            conns.append(c)
        if not conns:
            continue
        # several connections into the same target variable from the same source variable are parallel bundles: keep simple
        keys = [(c['source'], c['target']) for c in conns]
        if len(set(keys)) != len(keys):
            continue
        if want == 'parallel_connectivities':
            # a second (plain matrix) Connectivity between the same two population variables as the first one
            c0 = conns[0]
            if c0['kind'] != 'matrix' or c0.get('delay'):
                continue
            nt_, ns_ = len(c0['W']), len(c0['W'][0])
            W2 = [[round(vals.new() * rnd.choice([1, -1]), 4) if rnd.random() < 0.7 else 0.0 for _ in range(ns_)] for _ in range(nt_)]
            W2[0][0] = round(vals.new(), 4)
            conns.append({'source': c0['source'], 'target': c0['target'], 'kind': 'matrix', 'W': W2})
            risk.add('parallel_connectivities')
        # one delayed source variable per source operator, and no mixing of delayed / undelayed from one source var (C09 findings)
        dsrc = {}
        for c in conns:
            dsrc.setdefault(c['source'], set()).add(bool(c.get('delay')))
        if any(len(v) > 1 for v in dsrc.values()):
            # (for scalar edges this is a recorded C09 finding; Connectivity connections keep the two apart - part of the main sweep)
            risk.add('conn_mixed_delay_same_source')
        dops = {}
        for c in conns:
            if c.get('delay'):
                dops.setdefault(c['source'][:2], set()).add(c['source'][2])
        if any(len(v) > 1 for v in dops.values()):
            continue
        for c in conns:
            if pops[c['source'][0]]['n'] == 1 or pops[c['target'][0]]['n'] == 1:
                risk.add('pop_n1_connected')
            # where the delay acts (on the source before the coupling function, or on the coupled value) only matters when
            # the coupling depends on the post-synaptic variable or the delay is a (non-commuting) kernel
            if c['kind'] == 'coupling' and c.get('delay') and (c['form'] not in ('src_only',) or c.get('spread')):      # (src_only: f(0) = 0, the order of delay and coupling is immaterial)
                risk.add('conn_coupling_post_with_delay')
        tcount = {}
        for c in conns:
            tcount[c['target']] = tcount.get(c['target'], 0) + 1
        for c in conns:
            if c['kind'] == 'coupling' and c['form'] not in NO_POST and c['source'][2] == c['post'] and \
                    (c['source'][0], c['source'][1]) != (c['target'][0], c['target'][1]):
                risk.add('coupling_src_post_same_name')
            if c['kind'] == 'coupling' and tcount[c['target']] > 1:
                others = [c2 for c2 in conns if c2 is not c and c2['target'] == c['target']]
                if c['form'] == 'dynamic' and all(c2['kind'] == 'coupling' and c2['form'] == 'dynamic' for c2 in others):
                    risk.add('dynamic_couplings_share_target')      # (works on the pinned tree; part of the main sweep)
                else:
                    risk.add('coupling_shares_target_var')
            if c.get('spread') and c['source'][2] == 'k':
                risk.add('matrix_delay_source_named_k')
        dsv = {}
        for c in conns:
            if c.get('delay'):
                dsv.setdefault(c['source'], []).append((c['delay'], c.get('spread')))
        if any(len(v) > 1 for v in dsv.values()):
            risk.add('two_delayed_conns_same_source')
        if want and want not in risk:
            continue
        if (set(opened) - {want}) & risk:
            continue
        # dde_approx: the delayed connections (none of which has a spread) become gamma chains of the order given to run /
        # get_run_func; the reference gets the equivalent spread d/sqrt(n)
        dl_ = [c_ for c_ in conns if c_.get('delay')]
        if want in (None, 'conn_delay') and dl_ and rnd.random() < 0.3 and not any(c_['source'][2] == 'k' for c_ in dl_) and not any(c_.get('spread') or 'zero_spread' in c_ or c_['kind'] == 'coupling' for c_ in conns):
            n_ = rnd.choice([1, 2, 3])
            for c_ in dl_:
                c_['delay'] = round(max(c_['delay'], 1.5 * n_ * dt), 6)
                c_['spread_ref'] = c_['delay'] / math.sqrt(n_)
                c_['off_grid'] = False
            dde_n = n_
        else:
            dde_n = 0
        # an input of an integrator operator that NO connection targets keeps a non-zero declared default
        for pn_, p_ in pops.items():
            if ops[p_['op']].get('__integrator'):
                for v_, d_ in ops[p_['op']]['vars'].items():
                    if d_[0] == 'in' and not any(tuple(c_['target']) == (pn_, p_['op'], v_) for c_ in conns):
                        d_[1] = round(vals.new(), 4)
        # `params` may also give the per-unit values of an input variable that nothing is connected to
        for pn_, p_ in pops.items():
            for v_, d_ in ops[p_['op']]['vars'].items():
                if d_[0] == 'in' and not any(tuple(c_['target']) == (pn_, p_['op'], v_) for c_ in conns) and rnd.random() < 0.4:
                    p_['params'][v_] = [round(vals.new(), 4) for _ in range(p_['n'])]
                    p_['input_params'] = True
        plan_out = {'ops': ops, 'pops': pops, 'conns': conns}
        if dde_n:
            plan_out['dde_approx'] = dde_n
        return plan_out, sorted(risk)
    raise RuntimeError('generator could not satisfy the constraints')


def coupling_ops(c, idx):
    """edge operator spec for a coupling connection (inputs s_pre, s_post)"""
    if c['form'] == 'dynamic':
        # an edge with its own state variable per (target, source) pair: zc' = rc*(s_pre - zc)
        return {'eqs': [['de', 'zc', E.tolist(E.mul(E.var('rc'), E.sub(E.var('s_pre'), E.var('zc'))))]],
                'vars': {'zc': ['out', 0.0], 's_pre': ['in', 0.0], 'rc': ['const', c['rc']]}}
    if c['form'] in ('two_eq', 'two_eq_src'):
        # two equations in one edge operator: an intermediate algebraic variable that the output equation multiplies
        mid = E.add(E.var('s_pre'), E.var('s_post')) if c['form'] == 'two_eq' else E.add(E.var('s_pre'), E.num(0.7))
        out = E.mul(E.num(2.3), E.var('c_mid')) if c['form'] == 'two_eq' else E.mul(E.var('c_mid'), E.var('c_mid'))
        vars_ = {'c_out': ['out', 0.0], 'c_mid': ['var', 0.0], 's_pre': ['in', 0.0]}
        if c['form'] == 'two_eq':
            vars_['s_post'] = ['in', 0.0]
        return {'eqs': [['alg', 'c_mid', E.tolist(mid)], ['alg', 'c_out', E.tolist(out)]], 'vars': vars_}
    if c['form'] == 'const_gain':
        return {'eqs': [['alg', 'c_out', E.tolist(E.mul(E.var('gk'), E.call('tanh', E.sub(E.var('s_pre'), E.var('s_post')))))]],
                'vars': {'c_out': ['out', 0.0], 's_pre': ['in', 0.0], 's_post': ['in', 0.0], 'gk': ['const', c['gk']]}}
    if c['form'] == 'sin_diff':
        ex = E.call('sin', E.sub(E.var('s_pre'), E.var('s_post')))
    elif c['form'] == 'prod':
        ex = E.mul(E.var('s_pre'), E.call('tanh', E.var('s_post')))
    else:
        ex = E.call('tanh', E.mul(E.num(1.7), E.var('s_pre')))
    vars_ = {'c_out': ['out', 0.0], 's_pre': ['in', 0.0]}
    if c['form'] not in NO_POST:
        vars_['s_post'] = ['in', 0.0]
    return {'eqs': [['alg', 'c_out', E.tolist(ex)]], 'vars': vars_}


def explicit_spec(plan_):
    ops = dict(plan_['ops'])
    nts, nodes, edges, ets = {}, {}, [], {}
    for pn, p in plan_['pops'].items():
        for i in range(p['n']):
            over = {p['op']: {v: vals[i] for v, vals in p['params'].items()}}
            nts[f'nt_{pn}_{i}'] = {'ops': [p['op']], 'over': over}
            nodes[f'{pn}__{i}'] = f'nt_{pn}_{i}'
    for ci, c in enumerate(plan_['conns']):
        sp, sop, sv = c['source']
        tp, top, tv = c['target']
        ns, nt = plan_['pops'][sp]['n'], plan_['pops'][tp]['n']
        et = None
        if c['kind'] == 'coupling':
            et = f'coup{ci}'
            ops[f'coup_op{ci}'] = coupling_ops(c, ci)
            ets[et] = {'ops': [f'coup_op{ci}'], 'over': {}}
        for i in range(nt):
            for j in range(ns):
                w = c['w'] if c['kind'] == 'scalar' else c['W'][i][j]
                if w == 0.0:
                    continue
                a = {'weight': w}
                if c.get('delay'):
                    a['delay'] = c['delay']
                if c.get('spread'):
                    a['spread'] = c['spread']
                elif c.get('spread_ref'):
                    a['spread'] = c['spread_ref']
                if et:
                    a[f'{et}/coup_op{ci}/s_pre'] = 'source'
                    if c['form'] not in NO_POST:
                        a[f'{et}/coup_op{ci}/s_post'] = f'{tp}__{i}/{top}/{c["post"]}'
                edges.append([f'{sp}__{j}/{sop}/{sv}', f'{tp}__{i}/{top}/{tv}', et, a])
    return {'ops': ops, 'node_types': nts, 'edge_types': ets, 'circ': {'name': 'c', 'nodes': nodes, 'subs': {}, 'edges': edges}}


def build_population_circuit(plan_):
    from pyrates import OperatorTemplate, NodeTemplate, CircuitTemplate, EdgeTemplate, PopulationTemplate, Connectivity
    pops = {}
    for pn, p in plan_['pops'].items():
        op = OperatorTemplate(**build.op_kwargs(p['op'], plan_['ops'][p['op']]))
        node = NodeTemplate(name=f'node_{pn}', operators=[op])
        # (plan_['pre_update']: variables whose final per-unit values in p['params'] are reached through update_var on the circuit,
        # starting from the original values recorded there - used by the population family of C07)
        pre = {k_.split('/')[1]: u_ for k_, u_ in plan_.get('pre_update', {}).items() if k_.split('/')[0] == pn}
        par0 = {v: (pre[v]['orig'] if v in pre else vals) for v, vals in p['params'].items()}
        pops[pn] = PopulationTemplate(name=pn, node=node, n=p['n'],
                                      params={f"{p['op']}/{v}": np.asarray(vals, dtype=float) for v, vals in par0.items()
                                              if vals is not None})
    conns = []
    for ci, c in enumerate(plan_['conns']):
        sp, sop, sv = c['source']
        tp, top, tv = c['target']
        kw = {}
        if c['kind'] == 'coupling':
            eop = OperatorTemplate(**build.op_kwargs(f'coup_op{ci}', coupling_ops(c, ci)))
            kw['edge'] = EdgeTemplate(name=f'coup{ci}', operators=[eop])
            kw['edge_var_map'] = {'s_pre': 'source'}
            if c['form'] not in NO_POST:
                kw['edge_var_map']['s_post'] = f'{tp}/{top}/{c["post"]}'
        if c.get('delay'):
            kw['delays'] = c['delay']
        if c.get('spread'):
            kw['spread'] = c['spread']
        elif 'zero_spread' in c:
            kw['spread'] = c['zero_spread']
        w = c['w'] if c['kind'] == 'scalar' or c.get('w_scalar') else np.asarray(c['W'], dtype=float)
        conns.append(Connectivity(source=f'{sp}/{sop}/{sv}', target=f'{tp}/{top}/{tv}', weights=w, **kw))
    circ = CircuitTemplate(name='popc', populations=pops, connections=conns)
    if plan_.get('pre_update'):
        # a second circuit that holds the very same PopulationTemplate / Connectivity objects (built before the updates)
        # (half of the time the very same dictionary / list objects that the first circuit was constructed with)
        same_ = plan_.get('sibling_same_containers')
        build_population_circuit.sibling = CircuitTemplate(name='popc_sibling', populations=pops if same_ else dict(pops),
                                                           connections=conns if same_ else list(conns))
    nv = {}
    for k_, u_ in plan_.get('pre_update', {}).items():
        pn, v = k_.split('/')
        final = plan_['pops'][pn]['params'][v]
        val_ = float(final[0]) if u_['scalar'] else np.asarray(final, dtype=float)
        if u_.get('via') == 'node_values':
            nv[f"{pn}/{plan_['pops'][pn]['op']}/{v}"] = val_
        else:
            circ.update_var(node_vars={f"{pn}/{plan_['pops'][pn]['op']}/{v}": val_})
    build_population_circuit.node_values = nv
    return circ


def run_case(case, ctx):
    if case.get('family') == 'update_sibling':
        # per-unit values given through update_var, and a second circuit that holds the same PopulationTemplate objects
        # (machinery shared with C07)
        from vp.props import c07
        r_ = c07.run_population_case(dict(case, family='population'), ctx)
        r_['features'] = list(r_.get('features', [])) + ['update_sibling']
        return r_
    rnd = random.Random(case['cseed'])
    if case.get('spec') is not None:
        plan_ = case['spec']
        risk = case.get('case_risk', [])
    else:
        plan_, risk = gen_pop_case(rnd, case.get('want'), ctx['open_risks'])
    mech = {}
    res = {'features': sorted({c['kind'] for c in plan_['conns']} | {f"n{p['n']}" for p in plan_['pops'].values()}), 'risk': risk,
           'sig': stable_hash(plan_), 'case_extra': {'case_risk': risk},
           'nontrivial': any(p['n'] >= 2 for p in plan_['pops'].values())}
    try:
        spec = explicit_spec(plan_)
        ref = RefModel(spec)
        for c in plan_['conns']:
            mech[{'matrix': 'matrix_connections', 'scalar': 'scalar_connections', 'coupling': 'coupling_connections'}[c['kind']]] = \
                mech.get({'matrix': 'matrix_connections', 'scalar': 'scalar_connections', 'coupling': 'coupling_connections'}[c['kind']], 0) + 1
            if any(p_.get('input_params') for p_ in plan_['pops'].values()):
                mech['populations_with_input_params'] = 1
            if plan_['ops'][plan_['pops'][c['target'][0]]['op']].get('__integrator'):
                mech['pure_input_integrators'] = 1
            if c['kind'] == 'coupling':
                for key_, cond_ in (('two_equation_couplings', c['form'] in ('two_eq', 'two_eq_src')),
                                    ('couplings_with_constant', c['form'] == 'const_gain'),
                                    ('scalar_weight_couplings', bool(c.get('w_scalar')))):
                    if cond_:
                        mech[key_] = mech.get(key_, 0) + 1
            if 'zero_spread' in c:
                mech['explicit_zero_spread'] = mech.get('explicit_zero_spread', 0) + 1
            if c.get('delay'):
                mech['delayed_connections'] = mech.get('delayed_connections', 0) + 1
                if c.get('off_grid') and not c.get('spread'):
                    mech['delays_off_the_step_grid'] = mech.get('delays_off_the_step_grid', 0) + 1
            if c['kind'] != 'scalar' and len(c['W']) != len(c['W'][0]):
                mech['nonsquare'] = mech.get('nonsquare', 0) + 1
        has_delay = any(c.get('delay') for c in plan_['conns'])
        dt = 1e-3
        # ---- vector field of the population circuit (only meaningful without ring buffers: buffers hold state) ----------------
        tmpl = build_population_circuit(plan_)
        nvkw = {'node_values': dict(build_population_circuit.node_values)} if getattr(build_population_circuit, 'node_values', None) else {}
        has_dynamic = any(c['kind'] == 'coupling' and c.get('form') == 'dynamic' for c in plan_['conns'])
        if has_dynamic:
            mech['dynamic_coupling_models'] = 1
        # (edge state variables all start at 0 and cannot be located by value: dynamic couplings are decided on trajectories)
        if not has_delay and not has_dynamic:
            try:
                f, args, names, smap = tmpl.get_run_func('vf', step_size=dt, vectorize=True, verbose=False, clear=True, in_place=False,
                                                         float_precision='float64', **nvkw)
            except Exception as e:
                import traceback
                raise observe.Mismatch(f"loud: population circuit get_run_func raised {type(e).__name__}: {e} :: {traceback.format_exc()[-500:]}")
            obs = {'func': f, 'args': list(args), 'names': list(names), 'smap': dict(smap)}
            y0 = np.asarray(args[1], dtype=float)
            pos = {}
            for k in ref.state_keys:
                hits = np.nonzero(y0 == float(ref.val[k]))[0]
                if len(hits) != 1:
                    raise observe.Mismatch(f"layout: initial value {ref.val[k]} of unit {'/'.join(k)} occurs {len(hits)} times in the "
                                           f"population circuit's initial state {y0.tolist()[:30]}")
                pos[k] = int(hits[0])
            # unit order inside each population variable
            for pn, p in plan_['pops'].items():
                for v in p['params']:
                    ks = [(f'{pn}__{i}', p['op'], v) for i in range(p['n'])]
                    if all(k in pos for k in ks):
                        ps = [pos[k] for k in ks]
                        if ps != list(range(ps[0], ps[0] + len(ps))):
                            raise observe.Mismatch(f"units of {pn}/{p['op']}/{v} are not laid out in unit order: positions {ps}")
            n = len(y0)
            for pt in range(4):
                y = y0.copy() if pt == 0 else np.array([rnd.gauss(0, 1) for _ in range(n)])
                ydict = {k: float(y[i]) for k, i in pos.items()}
                exp, ill = observe.ref_rhs_checked(ref, ydict, ref.p0(), ctx['mp'])
                if ill:
                    continue
                got = observe.call_vf(obs, obs['args'], y.copy())
                for k, i in pos.items():
                    mech['derivatives_compared'] = mech.get('derivatives_compared', 0) + 1
                    if not abs(got[i] - exp[k]) <= 1e-8 * max(1.0, abs(exp[k])):
                        raise observe.Mismatch(f"population circuit: derivative of unit {'/'.join(k)} (position {i}) is {got[i]!r}, explicit "
                                               f"network reference {exp[k]!r}; connections {[(c['kind'], c['source'], c['target']) for c in plan_['conns']]}")
        # ---- trajectories with population outputs ------------------------------------------------------------------------------
        steps = 16
        outputs = {}
        keycols = []
        for pn, p in plan_['pops'].items():
            for v in [e[1] for e in plan_['ops'][p['op']]['eqs'] if e[0] == 'de']:
                outputs[f'{pn}_{v}'] = f"{pn}/{p['op']}/{v}"
                keycols.append((f'{pn}_{v}', [(f'{pn}__{i}', p['op'], v) for i in range(p['n'])]))
        tmpl = build_population_circuit(plan_)
        nvkw = {'node_values': dict(build_population_circuit.node_values)} if getattr(build_population_circuit, 'node_values', None) else {}
        # optional extrinsic input (1-D, broadcast to all units) on an input variable of one population
        rnd_in = random.Random(case['cseed'] + 7)
        inputs, input_fn = None, None
        if rnd_in.random() < 0.35 or case.get('force_input'):
            pn_ = rnd_in.choice(sorted(plan_['pops']))
            tg_ = []
            if case.get('force_input'):
                # (C08 population family: preferably a population that is the target of a connection, so that input and connection
                # converge on one variable)
                tg_ = sorted({tuple(c['target']) for c in plan_['conns'] if c['target'][2] not in plan_['pops'][c['target'][0]]['params']})
                if tg_:
                    pn_, _, forced_v = rnd_in.choice(tg_)
            p_ = plan_['pops'][pn_]
            # (not onto an input whose per-unit values come from `params`: whether an extrinsic input replaces or joins them
            # is not defined by the property)
            ins_ = sorted(v for v, d in plan_['ops'][p_['op']]['vars'].items() if d[0] == 'in' and v not in p_['params'])
            if ins_:
                v_ = rnd_in.choice(ins_)
                if case.get('force_input') and tg_ and forced_v in ins_:
                    v_ = forced_v
                    mech['input_converges_with_connection'] = 1
                arr_ = np.random.RandomState(case['cseed'] % (2 ** 31)).standard_normal(steps)
                inputs = {f"{pn_}/{p_['op']}/{v_}": arr_.copy()}
                input_fn = lambda k, pn_=pn_, p_=p_, v_=v_, arr_=arr_: {(f'{pn_}__{i}', p_['op'], v_): float(arr_[min(k, steps - 1)])
                                                                        for i in range(p_['n'])}
                mech['population_runs_with_extrinsic_input'] = 1
        try:
            kw_dde = {'dde_approx': plan_['dde_approx']} if plan_.get('dde_approx') else {}
            if kw_dde:
                mech['dde_approx_runs'] = 1
            df = tmpl.run(simulation_time=steps * dt, step_size=dt, solver='euler', outputs=dict(outputs), verbose=False, clear=True,
                          in_place=False, float_precision='float64', inputs=inputs, **kw_dde, **nvkw)
        except Exception as e:
            import traceback
            raise observe.Mismatch(f"loud: population circuit run raised {type(e).__name__}: {e} :: {traceback.format_exc()[-500:]}")
        # normalise column labels (pandas pads shorter tuples with NaN)
        colmap = {}
        for ci, col in enumerate(df.columns):
            if isinstance(col, tuple):
                col = tuple(x for x in col if not (isinstance(x, float) and x != x))
            else:
                col = (col,)
            colmap[col] = ci
        allv = np.asarray(df.values, dtype=float)
        for key, ks in keycols:
            exp = observe.ref_trajectory(ref, ks, steps, dt, input_fn=input_fn)
            if len(ks) == 1:
                want_cols = [(key,)] if (key,) in colmap else [(key, 0)]
            else:
                want_cols = [(key, i) for i in range(len(ks))]
            missing = [c for c in want_cols if c not in colmap]
            if missing:
                raise observe.Mismatch(f"population output {key}: expected one column per unit labelled {want_cols}, got columns "
                                       f"{[c for c in colmap if c[0] == key]}")
            got = allv[:, [colmap[c] for c in want_cols]]
            msg = observe.compare_traj(got, exp, rtol=1e-7)
            if msg == 'discard':
                res.update(status='discard', symptom='reference not finite', mech=mech)
                return res
            if msg:
                raise observe.Mismatch(f"population output {key} (columns = units): {msg}; connections "
                                       f"{[(c['kind'], c['source'], c['target'], c.get('delay'), c.get('spread')) for c in plan_['conns']]}")
            mech['pop_output_columns'] = mech.get('pop_output_columns', 0) + len(ks)
            mech['rows_compared'] = mech.get('rows_compared', 0) + steps
        # ---- the explicit circuit built with add_edges_from_matrix --------------------------------------------------------------
        if all(c['kind'] == 'matrix' and not c.get('delay') for c in plan_['conns']):
            from pyrates import OperatorTemplate, NodeTemplate, CircuitTemplate
            optm = {n: OperatorTemplate(**build.op_kwargs(n, o)) for n, o in plan_['ops'].items()}
            nodes = {}
            for pn, p in plan_['pops'].items():
                for i in range(p['n']):
                    nodes[f'{pn}__{i}'] = NodeTemplate(name=f'nt_{pn}_{i}', operators={optm[p['op']]: {v: vals[i] for v, vals in p['params'].items()}})
            ct = CircuitTemplate(name='expl', nodes=nodes)
            for c in plan_['conns']:
                sp, sop, sv = c['source']
                tp, top, tv = c['target']
                ct.add_edges_from_matrix(source_var=f'{sop}/{sv}', target_var=f'{top}/{tv}',
                                         source_nodes=[f'{sp}__{j}' for j in range(plan_['pops'][sp]['n'])],
                                         target_nodes=[f'{tp}__{i}' for i in range(plan_['pops'][tp]['n'])],
                                         weight=np.asarray(c['W'], dtype=float))
            from vp.props import c04
            vec = rnd.random() < 0.5 and not (c04.vec_risks(spec) & open_risks('C04'))
            try:
                obs2 = observe.compile_vf(spec, vectorize=vec, template=ct)
                observe.compare_vf(obs2, ref, rnd, ctx['mp'], n_points=3, vectorized=vec, mech={})
            except observe.Mismatch as e:
                raise observe.Mismatch(f"explicit circuit via add_edges_from_matrix (vectorize={vec}): {e}")
            except Exception as e:
                raise observe.Mismatch(f"loud: explicit circuit via add_edges_from_matrix raised {type(e).__name__}: {e}")
            mech['explicit_matrix_circuits'] = 1
        res.update(status='ok', symptom='', mech=mech)
        res['sample'] = {'populations': {k: {'n': p['n'], 'params': {v: x[:3] for v, x in p['params'].items()}} for k, p in plan_['pops'].items()},
                         'connections': [{k: v for k, v in c.items()} for c in plan_['conns']]}
    except observe.Mismatch as e:
        s = str(e)
        res.update(status='violation', symptom=('silent: ' if 'loud' not in s else '') + s, mech=mech, spec=plan_)
    return res


# MANIFEST-BEGIN
MANIFEST = {
    'technique': 'reference-model monitor: population/connectivity circuit vs the independent semantics of the explicit node-and-edge network, unit by unit (vector field probes, trajectories, population output columns)',
    'level_text': 'Generated circuits of PopulationTemplate(n) and Connectivity objects (non-square, sparse, signed, non-symmetric matrices, scalar weights, algebraic coupling templates with edge_var_map, delays with and without spread, heterogeneous per-unit parameters) are compared with the reference semantics of the explicit network: derivatives of every unit at random states (positions by value fingerprinting, units must be in unit order), Euler trajectories per unit through population outputs (one column per unit in order), and the explicit circuit built with add_edges_from_matrix. A transposed W, permuted units or swapped pre/post broadcasting changes values by O(1). Delays lie on and off the step grid (fractions above and below one half). Coupling edges may carry their own state variable (dynamic edges), several of them converging on one target; weights include exactly 1.0. Coupling operators with two equations, with their own constants and with scalar weights; pure integrators of connected / unconnected inputs; params for unconnected input variables; runs with a 1-D extrinsic input broadcast to all units; probe family: two connectivities between the same two variables (recorded finding). Zero spread, dde_approx orders, int-declared constants and node_values reaching populations are drawn as well; an update_sibling family applies update_var / node_values to one of two circuits built from the same population and connection containers and requires the sibling to stay the base model. Per-unit lists of integer-declared constants may start with whole numbers; an undelayed and a delayed connection may leave the same source variable. Held on observed circuits only.',
    'level_note': 'Trusted: vp/ref.py (incl. its edge-template and delay semantics).',
}
# MANIFEST-END
