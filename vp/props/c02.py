"""C02 - All backends compute the same function for the same model."""
import math
import os
import random
import re

import numpy as np

from vp import gen, observe, monitors, build
from vp.ref import RefModel
from vp.runner import open_risks, stable_hash
from vp.props import c04

PID = 'C02'
LEVEL = 'exploration'
RULE = ("each case compiles one generated model for one configuration (backend in default/torch/jax/fortran) x (float32/float64) x "
        "(vectorize on/off where accepted) x (in-place / returned vector field) and compares (i) the vector field at random states "
        "with perturbed parameters against the INDEPENDENT reference semantics, so that a common-mode error cannot hide and "
        "pairwise agreement follows, (ii) the returned argument values, (iii) run() trajectories for every solver name in the live "
        "class's SUPPORTED_SOLVERS against the reference iterates (fixed step) or a tight reference solution (adaptive), with and "
        "without a white-noise extrinsic input (interp helpers) and discrete edge delays (roll buffers); sanitizers: gfortran "
        "-fcheck=all on every f2py build (a Fortran run-time error kills the case process = violation), jax checkify index checks on "
        "JAX probes, read-only parameter arrays on NumPy probes; non-trivial = model has an edge or >= 3 distinct functions; "
        "distinct = distinct (spec, configuration) hash")
DECIDING = ['derivatives_compared', 'torch_cases', 'jax_cases', 'fortran_cases', 'default_cases', 'float32_cases', 'rows_compared',
            'adaptive_rows_compared', 'interp_probe_points', 'readonly_param_probes', 'jax_checkify_probes', 'fortran_builds_checked',
            'runs_with_coarser_sampling', 'literal_magnitude_models', 'oscillator_runs', 'rational_number_values', 'durations_with_quotient_just_below_integer']
ASSUMPTIONS = ['float32 builds are compared at rtol 5e-4 on well-conditioned probe points only',
               'feature set per backend is what the backend accepts (Fortran: scalar models; JAX: no ring buffers); refusals are C20\'s business']
CASE_TIMEOUT = 420
WALL_BUDGET = {'quick': 1500, 'thorough': 14000}
FOCUS = ['interp_torch', 'interp_fortran', 'inplace_false', 'fortran_int_constant']
FUNCS = ('sin', 'cos', 'tanh', 'sigmoid', 'exp', 'absv', 'sign')


def plan(tier, seed):
    rnd = random.Random(f'{PID}-{seed}')
    n = {'default': 24, 'torch': 20, 'jax': 20, 'fortran': 16} if tier == 'quick' else {'default': 400, 'torch': 400, 'jax': 400, 'fortran': 250}
    cases = []
    for b, k in n.items():
        for _ in range(k):
            r = rnd.random()
            mode = 'vf' if r < 0.45 else 'run_fixed' if r < 0.7 else 'run_adaptive' if r < 0.85 else 'interp_probe'
            cases.append({'family': 'main', 'cseed': rnd.randrange(1 << 30), 'backend': b, 'mode': mode,
                          'prec': 'float32' if rnd.random() < 0.3 and mode == 'vf' else 'float64'})
    # storage loops: fixed-step runs with inputs and a sampling step coarser than the integration step, per backend
    for b in n:
        cases += [{'family': 'sampling', 'cseed': rnd.randrange(1 << 30), 'backend': b, 'mode': 'run_fixed', 'prec': 'float64',
                   'force_sampling': True} for _ in range(8 if tier == 'quick' else 120)]
    # durations whose quotient T/dt lies just below the integer step count, on every backend (each has its own step count)
    for b in n:
        cases += [{'family': 'sampling', 'cseed': rnd.randrange(1 << 30), 'backend': b, 'mode': 'run_fixed', 'prec': 'float64',
                   'force_below': True} for _ in range(4 if tier == 'quick' else 40)]
    # literal magnitudes: very small / very large numeric literals in equations (printing and precision of literals differs
    # per backend; Fortran needs double precision literals)
    for b, kk in (('fortran', 20), ('default', 3), ('torch', 3), ('jax', 3)):
        cases += [{'family': 'literals', 'cseed': rnd.randrange(1 << 30), 'backend': b, 'mode': 'vf', 'prec': 'float64',
                   'force_literals': True} for _ in range(kk if tier == 'quick' else kk * 12)]
    # adaptive runs of relaxation oscillators over several time units on every backend
    for b in n:
        cases += [{'family': 'oscillator', 'cseed': rnd.randrange(1 << 30), 'backend': b, 'mode': 'run_adaptive', 'prec': 'float64',
                   'oscillator': True} for _ in range(5 if tier == 'quick' else 60)]
    # rational numbers in equations (x**(1/3), 2/3): integer division on a backend with typed literals
    for b, kk in (('fortran', 8), ('default', 2), ('torch', 2), ('jax', 2)):
        cases += [{'family': 'rational_numbers', 'cseed': rnd.randrange(1 << 30), 'backend': b, 'mode': 'vf', 'prec': 'float64'}
                  for _ in range(kk if tier == 'quick' else kk * 10)]
    # long right-hand sides (products of long identifiers, nested calls): line wrapping of the Fortran printer
    for b, kk in (('fortran', 24), ('default', 2), ('jax', 1), ('torch', 1)):
        cases += [{'family': 'long_lines', 'cseed': rnd.randrange(1 << 30), 'backend': b, 'mode': 'vf', 'prec': 'float64'}
                  for _ in range(kk if tier == 'quick' else kk * 12)]
    # three or four Fortran builds one after the other in one process, under one file name
    cases += [{'family': 'fortran_sequence', 'cseed': rnd.randrange(1 << 30), 'backend': 'fortran', 'mode': 'vf', 'prec': 'float64',
               'n_others': 2 + (i % 2)} for i in range(6 if tier == 'quick' else 60)]
    opened = open_risks(PID)
    k = 6 if tier == 'quick' else 40
    for feat in FOCUS:
        fam = 'probe:' + feat if feat in opened else 'main'
        b = {'interp_torch': 'torch', 'interp_fortran': 'fortran', 'inplace_false': rnd.choice(['default', 'torch']),
             'fortran_int_constant': 'fortran'}[feat]
        mode = 'vf' if feat in ('inplace_false', 'fortran_int_constant') else 'interp_probe'
        cases += [{'family': fam, 'cseed': rnd.randrange(1 << 30), 'backend': b, 'mode': mode, 'prec': 'float64', 'want': feat}
                  for _ in range(k)]
    return cases


def warmup(ctx):
    import pyrates  # noqa
    import scipy.integrate  # noqa
    import mpmath
    mpmath.mp.dps = 40
    ctx['mp'] = mpmath
    ctx['open_risks'] = open_risks(PID)
    ctx['excluded'] = open_risks('C01') | open_risks('C04') | open_risks('C09')
    monitors.install()


def backend_class(name):
    from vp.props.c20 import backend_class as bc
    return bc(name)


def oscillator_spec(rnd):
    """two coupled van der Pol units (x' = z, z' = mu*(1 - x*x)*z - x + u) with different mu and initial values"""
    from vp import expr as E
    ops, nts, nodes = {}, {}, {}
    for i in range(2):
        mu = round(rnd.uniform(2.0, 5.0), 3)
        ex = E.add(E.sub(E.mul(E.mul(E.var('mu'), E.sub(E.num(1.0), E.mul(E.var('x'), E.var('x')))), E.var('z')), E.var('x')),
                   E.mul(E.num(0.5), E.var('u')))
        ops[f'vdp{i}'] = {'eqs': [['de', 'x', E.tolist(E.var('z'))], ['de', 'z', E.tolist(ex)]],
                         'vars': {'x': ['out', round(rnd.uniform(0.5, 2.0), 3)], 'z': ['var', round(rnd.uniform(-1.0, 1.0), 3)],
                                  'mu': ['const', mu], 'u': ['in', 0.0]}}
        nts[f'nt{i}'] = {'ops': [f'vdp{i}'], 'over': {}}
        nodes[f'n{i}'] = f'nt{i}'
    edges = [['n0/vdp0/x', 'n1/vdp1/u', None, {'weight': round(rnd.uniform(0.2, 0.9), 3)}],
             ['n1/vdp1/x', 'n0/vdp0/u', None, {'weight': round(rnd.uniform(0.2, 0.9), 3)}]]
    return {'ops': ops, 'node_types': nts, 'edge_types': {}, 'circ': {'name': 'c', 'nodes': nodes, 'subs': {}, 'edges': edges}}


def scale_literals(spec, rnd, max_hits=3):
    """Numeric literals of very small / very large magnitude (2.3e-06, 170000.0) written directly in an equation, balanced by a
    constant of the reciprocal magnitude so that the term keeps its O(1) weight: c*X  ->  (c*s)*zbig*X  with zbig = 1/s.
    Up to `max_hits` literals per model are rewritten (each with its own scale and balancing constant)."""
    from vp import expr as E
    hits = []
    for opn, op in spec['ops'].items():
        for eq in op['eqs']:
            if eq[0] != 'de' or len(hits) >= max_hits:
                continue
            tree = E.fromlist(eq[2])

            def rewrite(e):
                if not isinstance(e, tuple) or e[0] in ('num', 'var', 'const'):
                    return e
                if len(hits) < max_hits and e[0] == 'mul' and e[1][0] == 'num' and abs(e[1][1]) >= 0.1 and e[2][0] != 'num' \
                        and rnd.random() < 0.7:
                    scale = rnd.choice([1e-5, 1e-7, 1e-4, 1e5, 1e-6])
                    name = f'zbig{len(hits)}'
                    while name in op['vars']:
                        name += '_'
                    hits.append((opn, name, scale))
                    op['vars'][name] = ['const', 1.0 / scale]
                    lit = float(f"{e[1][1] * scale:.3e}")
                    return ('mul', ('mul', ('num', lit), ('var', name)), rewrite(e[2]))
                return (e[0],) + tuple(rewrite(a) if isinstance(a, tuple) else a for a in e[1:])
            new_tree = rewrite(tree)
            eq[2] = E.tolist(new_tree)
    return bool(hits)


def run_rational_case(case, ctx):
    """Hand-written equations with rational numbers (x**(1/3), a bare 2/3, ^ with a rational exponent): the compiled vector
    field on the requested backend against direct numpy arithmetic."""
    from pyrates import OperatorTemplate, NodeTemplate, CircuitTemplate
    rnd = random.Random(case['cseed'])
    b = case['backend']
    mech = {b + '_cases': 1}
    p, q = rnd.choice([(1, 3), (2, 3), (1, 2), (3, 2), (1, 4), (5, 3)])
    p2, q2 = rnd.choice([(1, 3), (2, 7), (3, 4)])
    k, c0 = round(rnd.uniform(0.5, 2.0), 3), round(rnd.uniform(1.1, 2.5), 3)
    x0, z0 = round(rnd.uniform(-1, 1), 3), round(rnd.uniform(-1, 1), 3)
    pw = rnd.choice(['**', '^'])
    # (rationals as a whole exponent, as a factor, as a stand-alone term, inside a call and as a summand of an exponent)
    eqs = [f"x' = -x + k*({c0} + x*x){pw}({p}/{q}) + z*{p2}/{q2} + sin(x + {p}/{q})",
           f"z' = -z*({c0} + z*z){pw}(-{p}/{q}) + {p2}/{q2} + k*x - 0.1*({c0} + x*x){pw}(k + {p2}/{q2})"]
    res = {'features': [b, 'rational_numbers', pw], 'risk': [], 'sig': stable_hash([eqs, b, x0, z0, k]), 'nontrivial': True}
    try:
        op = OperatorTemplate(name='rat_op', equations=eqs, variables={'x': f'output({x0})', 'z': f'variable({z0})', 'k': k})
        c = CircuitTemplate(name='rat', nodes={'n': NodeTemplate(name='rat_node', operators=[op])})
        try:
            f, args, names, smap = c.get_run_func('vf', step_size=1e-3, backend=b, vectorize=False, verbose=False, clear=True,
                                                  float_precision='float64')
        except Exception as e:
            import traceback
            raise observe.Mismatch(f"loud: get_run_func(backend={b}) raised {type(e).__name__}: {e} :: {traceback.format_exc()[-300:]}")
        obs = {'func': f, 'args': list(args), 'names': list(names), 'smap': dict(smap), 'backend': b}
        for _ in range(4):
            x, z = rnd.uniform(-1.5, 1.5), rnd.uniform(-1.5, 1.5)
            y = np.zeros(2)
            y[int(smap['n/rat_op/x'])], y[int(smap['n/rat_op/z'])] = x, z
            got = observe.call_vf(obs, obs['args'], y.copy())
            exp = {'x': -x + k * (c0 + x * x) ** (p / q) + z * p2 / q2 + np.sin(x + p / q),
                   'z': -z * (c0 + z * z) ** (-p / q) + p2 / q2 + k * x - 0.1 * (c0 + x * x) ** (k + p2 / q2)}
            for v in ('x', 'z'):
                g = float(got[int(smap[f'n/rat_op/{v}'])])
                if not abs(g - exp[v]) <= 1e-9 * max(1.0, abs(exp[v])):
                    raise observe.Mismatch(f"backend {b}: derivative of {v} for equations {eqs} at x={x!r}, z={z!r} is {g!r}, arithmetic value "
                                           f"{exp[v]!r}")
                mech['rational_number_values'] = mech.get('rational_number_values', 0) + 1
        res.update(status='ok', symptom='', mech=mech, sample={'equations': eqs})
    except observe.Mismatch as e:
        s2 = str(e)
        res.update(status='violation', symptom=('silent: ' if 'loud' not in s2 else '') + s2, mech=mech, spec={'eqs': eqs})
    return res


def run_long_line_case(case, ctx):
    """Hand-written equations whose right-hand sides are long products of long identifiers and nested calls (each term longer than
    one source line of a fixed-width target language): the compiled vector field on the requested backend against direct numpy
    arithmetic.  Names of several lengths and coefficients of several widths move the places where a code printer has to wrap."""
    from pyrates import OperatorTemplate, NodeTemplate, CircuitTemplate
    import math
    rnd = random.Random(case['cseed'])
    b = case['backend']
    mech = {b + '_cases': 1}
    stems = ['gain', 'rate_const', 'coupling_strength', 'adaptation', 'synaptic_efficacy_exc', 'tau_membrane', 'scale', 'zbig']
    names_ = []
    for i in range(3):
        nm = rnd.choice(stems) + rnd.choice(['', '_a', '_pop', '_long_suffix', str(rnd.randint(0, 99))]) + f'_{i}'
        names_.append(nm)
    vals_ = {nm: round(rnd.uniform(0.3, 1.7), 4) for nm in names_}
    cf = [rnd.choice([84300.0, 2.5, 150300.0, 0.07, 1234.5678, 3.0]) for _ in range(3)]
    sm = [rnd.choice([1e-05, 2.173e-06, 0.001, 1.0]) for _ in range(3)]
    # (large coefficient x small scale: the products stay O(1), otherwise sin / cos of an argument of 1e5 amplify the rounding of
    # the argument beyond the comparison tolerance - seed 8 of the quick sweep: jax and numpy 4e-9 apart)
    sm = [1e-05 if c_ * s_ > 20 else s_ for c_, s_ in zip(cf, sm)]
    n1, n2, n3 = names_
    pad = ''.join(f" + {round(rnd.uniform(0.1, 0.9), 3)}*{rnd.choice(names_)}*z" for _ in range(rnd.randint(0, 3)))
    pw_, pe_ = rnd.choice(['**', '^']), rnd.choice([2, 3])
    # (several power terms after prefixes of different lengths: the wrap position relative to `**` varies from case to case)
    pterms = ''.join(f" - 0.001*{rnd.choice(names_)}*({rnd.choice(names_)}*x + {round(rnd.uniform(0.1, 0.9), rnd.randint(1, 4))}*z){pw_}{pe_}" for _ in range(rnd.randint(1, 3)))
    # a power followed by a long pure product (no + or - for more than a line): after a break in front of `**` the next break has
    # only `*` to choose from
    prodterm = f" - 0.001*(x*{n1} + z){pw_}{pe_}*{n1}*{n2}*{n3}*tanh({n1}*{n2}*{n3}*x*z*{n2}*{n1}*{n3}*{n2})"
    eqs = [f"x' = -x*{n1}{pad}{prodterm} + {cf[0]}*{sm[0]}*{n1}*sin({cf[1]}*{sm[1]}*x*{n2}*cos({cf[2]}*{sm[2]}*z*{n3})) - 0.01*({n2}*x + {n3}*z - tanh({n1}*x)){pw_}{pe_}*{n3}{pterms}",
           f"z' = -z*{n2} + {n3}*tanh({n1}*x*{n2} + {cf[0]}*{sm[0]}*z*{n3}*{n1})*{n2}"]
    x0, z0 = round(rnd.uniform(-1, 1), 3), round(rnd.uniform(-1, 1), 3)
    res = {'features': [b, 'long_lines'], 'risk': [], 'sig': stable_hash([eqs, b, x0, z0, vals_]), 'nontrivial': True}

    def rhs(x, z):
        v = vals_
        padv = 0.0
        for m_ in re.finditer(r" \+ ([0-9.]+)\*(\w+)\*z", pad):
            padv += float(m_.group(1)) * v[m_.group(2)] * z
        dx = -x * v[n1] + padv + cf[0] * sm[0] * v[n1] * math.sin(cf[1] * sm[1] * x * v[n2] * math.cos(cf[2] * sm[2] * z * v[n3])) \
            - 0.01 * (v[n2] * x + v[n3] * z - math.tanh(v[n1] * x)) ** pe_ * v[n3]
        dx -= 0.001 * (x * v[n1] + z) ** pe_ * v[n1] * v[n2] * v[n3] * math.tanh(v[n1] * v[n2] * v[n3] * x * z * v[n2] * v[n1] * v[n3] * v[n2])
        for m_ in re.finditer(r" - 0\.001\*(\w+)\*\((\w+)\*x \+ ([0-9.]+)\*z\)", pterms):
            dx -= 0.001 * v[m_.group(1)] * (v[m_.group(2)] * x + float(m_.group(3)) * z) ** pe_
        dz = -z * v[n2] + v[n3] * math.tanh(v[n1] * x * v[n2] + cf[0] * sm[0] * z * v[n3] * v[n1]) * v[n2]
        return {'x': dx, 'z': dz}
    try:
        # two nodes of one node type (scalar build): the second node's variables carry suffixes (name_v1), which lengthens its lines
        op = OperatorTemplate(name='long_op', equations=eqs, variables=dict({'x': f'output({x0})', 'z': f'variable({z0})'}, **vals_))
        node = NodeTemplate(name='long_node', operators=[op])
        c = CircuitTemplate(name='lng', nodes={'n': node, 'm': node})
        try:
            f, args, names, smap = c.get_run_func('vf', step_size=1e-3, backend=b, vectorize=False, verbose=False, clear=True,
                                                  float_precision='float64')
        except Exception as e:
            import traceback
            raise observe.Mismatch(f"loud: get_run_func(backend={b}) raised {type(e).__name__}: {str(e)[:300]} :: {traceback.format_exc()[-300:]}")
        obs = {'func': f, 'args': list(args), 'names': list(names), 'smap': dict(smap), 'backend': b}
        for _ in range(3):
            y = np.zeros(4)
            pt = {}
            for nd in ('n', 'm'):
                pt[nd] = (rnd.uniform(-1.5, 1.5), rnd.uniform(-1.5, 1.5))
                y[int(smap[f'{nd}/long_op/x'])], y[int(smap[f'{nd}/long_op/z'])] = pt[nd]
            got = observe.call_vf(obs, obs['args'], y.copy())
            for nd in ('n', 'm'):
                exp = rhs(*pt[nd])
                for v in ('x', 'z'):
                    g = float(got[int(smap[f'{nd}/long_op/{v}'])])
                    if not abs(g - exp[v]) <= 1e-9 * max(1.0, abs(exp[v])):
                        raise observe.Mismatch(f"backend {b}: derivative of {nd}/{v} for equations {eqs} at {pt[nd]!r} is {g!r}, arithmetic value {exp[v]!r}")
                    mech['long_line_values'] = mech.get('long_line_values', 0) + 1
        res.update(status='ok', symptom='', mech=mech, sample={'equations': eqs})
    except observe.Mismatch as e:
        s2 = str(e)
        res.update(status='violation', symptom=('silent: ' if 'loud' not in s2 else '') + s2, mech=mech, spec={'eqs': eqs, 'vals': vals_})
    return res


def run_case(case, ctx):
    if case.get('family') == 'rational_numbers':
        return run_rational_case(case, ctx)
    if case.get('family') == 'long_lines':
        return run_long_line_case(case, ctx)
    if case.get('family') == 'fortran_sequence':
        # several Fortran builds in ONE process (same file name): each build must be the model it was asked for, i.e. agree with the
        # reference like the other backends do (machinery shared with C13)
        from vp.props import c13
        res = c13.run_fortran_case(case, ctx)
        res.setdefault('mech', {})['fortran_cases'] = 1
        res['mech']['fortran_sequences'] = 1
        return res
    rnd = random.Random(case['cseed'])
    b, mode, prec = case['backend'], case['mode'], case['prec']
    want = case.get('want')
    mech = {b + '_cases': 1}
    risk = []
    if mode == 'interp_probe' and b == 'torch':
        risk.append('interp_torch')
    if mode == 'interp_probe' and b == 'fortran':
        risk.append('interp_fortran')
    if mode == 'run_adaptive' and b in ('torch', 'fortran'):
        risk.append('interp_' + b) if False else None
    inplace = not (want == 'inplace_false')
    if not inplace:
        risk.append('inplace_false')
    if prec == 'float32':
        mech['float32_cases'] = 1
    # ---- model -------------------------------------------------------------------------------------------------------------
    vec = b != 'fortran' and rnd.random() < 0.5 and not case.get('force_literals')
    for attempt in range(100):
        if vec:
            spec, feats, r0 = c04.make_spec({'cseed': rnd.randrange(1 << 30)}, ctx['excluded'])
            for o in spec['ops'].values():
                for v, d in o['vars'].items():
                    if d[0] == 'in':
                        d[1] = 0.0
        else:
            spec, feats, r0 = gen.gen_net(rnd, pool=gen.SAFE_POOL, n_nodes=rnd.choice([1, 2, 3]), max_types=2, depth=rnd.choice([0, 0, 1]),
                                          forbid=ctx['excluded'], funcs=FUNCS, edge_density=rnd.choice([0.3, 0.6]))
        if not vec and (case.get('force_literals') or rnd.random() < (0.5 if b == 'fortran' else 0.25)):
            if scale_literals(spec, rnd):
                feats = feats + ['literal_magnitudes']
                mech['literal_magnitude_models'] = 1
        if want == 'fortran_int_constant':
            # a constant declared with an integer default (k: 2), as YAML yields for `k: 2`
            cands_i = [(o, v) for o, od in spec['ops'].items() for v, d in od['vars'].items() if d[0] == 'const']
            if not cands_i:
                continue
            o_, v_ = rnd.choice(cands_i)
            spec['ops'][o_]['vars'][v_][1] = rnd.choice([1, 2, 3])
        ref = RefModel(spec)
        if len(ref.state_keys) <= 14:
            break
    if want == 'fortran_int_constant':
        risk.append('fortran_int_constant')
    res = {'features': [b, mode, prec, 'vec' if vec else 'novec'] + feats, 'risk': risk, 'sig': stable_hash([spec, b, mode, prec, vec, inplace]),
           'nontrivial': 'edges' in feats}
    dt = 1e-3
    kw = {'float_precision': prec}
    if not inplace:
        kw['inplace_vectorfield'] = False
    try:
        if mode == 'vf':
            try:
                obs = observe.compile_vf(spec, vectorize=vec, backend=b, step_size=dt, **kw)
            except Exception as e:
                import traceback
                raise observe.Mismatch(f"loud: get_run_func(backend={b}, {prec}, vectorize={vec}, inplace={inplace}) raised {type(e).__name__}: {e} :: "
                                       f"{traceback.format_exc()[-400:]}")
            if b == 'fortran':
                mech['fortran_builds_checked'] = 1
            if b == 'default' and inplace:
                # S-const: parameters are read-only during the probes
                for i, (nm, a) in enumerate(zip(obs['names'], obs['args'])):
                    if nm not in ('t', 'y', 'dy', 'hist') and isinstance(a, np.ndarray) and '_buffer' not in nm and a.dtype.kind == 'f' \
                            and ('/in_edge_' not in nm or 'weight' in nm):
                        a.flags.writeable = False
                mech['readonly_param_probes'] = 1
            if b == 'jax':
                try:
                    from jax.experimental import checkify
                    f0 = obs['func']
                    chk = checkify.checkify(getattr(f0, '__wrapped__', f0), errors=checkify.index_checks)

                    def guarded(t, y, *a, _chk=chk, _f0=f0):
                        err, out = _chk(t, y, *a)
                        err.throw()
                        return out
                    # one guarded evaluation at the initial state
                    guarded(0, obs['args'][1], *obs['args'][2:])
                    mech['jax_checkify_probes'] = 1
                except observe.Mismatch:
                    raise
                except Exception as e:
                    if 'checkify' in type(e).__module__ or 'out-of-bounds' in str(e).lower():
                        raise observe.Mismatch(f"S-jax: checkify reports {e}")
                    mech['jax_checkify_unavailable'] = 1
            observe.compare_vf(obs, ref, rnd, ctx['mp'], n_points=4, vectorized=vec, mech=mech, perturb=(prec == 'float64' and b != 'fortran'),
                               rtol=5e-4 if prec == 'float32' else 2e-10)
        elif mode == 'run_fixed':
            solvers = [s for s in backend_class(b).SUPPORTED_SOLVERS if s in ('euler', 'heun')]
            solver = rnd.choice(solvers)
            use_input = rnd.random() < 0.5 or case.get('force_sampling')
            keys = list(ref.state_keys)[:8]
            outputs = {f'o{i}': '/'.join(k) for i, k in enumerate(keys)}
            # sampling step = m * integration step: every backend has its own storage loop
            m_samp = rnd.choice([1, 1, 2, 3, 5]) if not case.get('force_sampling') else rnd.choice([2, 3, 5])
            steps = m_samp * rnd.randint(3, 7) if m_samp > 1 else 14
            # durations whose float quotient T/dt lies just BELOW the integer step count (0.029/0.001 = 28.999999999999996)
            below = [s_ for s_ in range(8, 180) if int(round(s_ * dt, 9) / dt) != s_ and s_ % m_samp == 0]
            T_run = steps * dt
            if below and (rnd.random() < 0.5 or case.get('force_below')):
                steps = rnd.choice(below)
                T_run = round(steps * dt, 9)        # the decimal literal a user writes (0.043)
                mech['durations_with_quotient_just_below_integer'] = 1
            inputs, input_fn = None, None
            in_keys = [k for k in ref.param_keys if ref.kind[k] == 'in']
            if use_input and in_keys:
                ik = rnd.choice(in_keys)
                arr = np.random.RandomState(case['cseed'] % (2 ** 31)).standard_normal(steps)
                inputs = {'/'.join(ik): arr}
                input_fn = lambda k, ik=ik, arr=arr: {ik: float(arr[min(k, steps - 1)])}
            try:
                df = observe.run_model(spec, T=T_run, dt=dt, solver=solver, outputs=outputs, backend=b, vectorize=vec, inputs=inputs,
                                       dts=m_samp * dt, **kw)
            except Exception as e:
                import traceback
                raise observe.Mismatch(f"loud: run(backend={b}, solver={solver}) raised {type(e).__name__}: {e} :: {traceback.format_exc()[-400:]}")
            if df.shape[0] != steps // m_samp:
                raise observe.Mismatch(f"run(backend={b}, solver={solver}, T={steps}*dt, sampling step {m_samp}*dt) returned {df.shape[0]} rows, "
                                       f"expected {steps // m_samp}")
            msgs = []
            # (both Heun stages of integration step k use input sample k, on every backend)
            for st2 in ['same']:
                try:
                    exp = observe.ref_trajectory(ref, keys, steps, dt, heun=(solver == 'heun'), input_fn=input_fn, stage2=st2)[::m_samp]
                except OverflowError:
                    res.update(status='discard', symptom='reference not finite', mech=mech)
                    return res
                msgs.append(observe.compare_traj(df.values, exp, rtol=1e-7))
            if 'discard' in msgs:
                res.update(status='discard', symptom='reference not finite', mech=mech)
                return res
            if all(msgs):
                raise observe.Mismatch(f"run(backend={b}, solver={solver}, vectorize={vec}, input={bool(inputs)}, sampling step "
                                       f"{m_samp}*dt): {msgs[0]}")
            mech['rows_compared'] = df.shape[0]
            if m_samp > 1:
                mech['runs_with_coarser_sampling'] = 1
            mech[f'{b}_{solver}'] = 1
        elif mode == 'run_adaptive':
            from scipy.integrate import solve_ivp
            solvers = [s for s in backend_class(b).SUPPORTED_SOLVERS if s in ('scipy', 'diffrax')]
            solver = rnd.choice(solvers)
            keys = list(ref.state_keys)[:8]
            outputs = {f'o{i}': '/'.join(k) for i, k in enumerate(keys)}
            steps = 20
            T = steps * dt
            dts_ = None
            skw = dict(kw)
            if case.get('oscillator'):
                # relaxation oscillators over several time units: the step-size controller rejects steps, every backend's
                # own scipy / diffrax wrapper is exercised beyond the first few steps
                spec = oscillator_spec(rnd)
                ref = RefModel(spec)
                vec = False
                keys = list(ref.state_keys)
                outputs = {f'o{i}': '/'.join(k) for i, k in enumerate(keys)}
                T, dts_ = rnd.choice([4.0, 6.0, 8.0]), 0.05
                mech['oscillator_runs'] = 1
            if case.get('oscillator'):
                # moderate tolerance: the controller really rejects steps; the result must still be within ~50*rtol of the solution
                if solver == 'scipy':
                    skw.update(method=rnd.choice(['RK45', 'RK45', 'RK23', 'DOP853']))
                skw.update(rtol=1e-6, atol=1e-9)
            elif solver == 'scipy':
                skw.update(method='RK45', rtol=1e-9, atol=1e-11)
            else:
                skw.update(rtol=1e-9, atol=1e-11)
            try:
                df = observe.run_model(spec, T=T, dt=dt, dts=dts_, solver=solver, outputs=outputs, backend=b, vectorize=vec, **skw)
            except Exception as e:
                import traceback
                raise observe.Mismatch(f"loud: run(backend={b}, solver={solver}) raised {type(e).__name__}: {e} :: {traceback.format_exc()[-400:]}")
            skeys = list(ref.state_keys)
            p0 = ref.p0()

            def f(t, y):
                d, _ = ref.rhs(dict(zip(skeys, y)), p0, t)
                return [d[k] for k in skeys]
            times = np.asarray(df.index, dtype=float)
            sol = solve_ivp(f, (0.0, T), [float(ref.val[k]) for k in skeys], method='DOP853', rtol=1e-12, atol=1e-14, t_eval=times)
            exp = sol.y.T[:, [skeys.index(k) for k in keys]]
            msg = observe.compare_traj(df.values, exp, rtol=5e-6 if not case.get('oscillator') else 5e-5)
            if msg == 'discard':
                res.update(status='discard', symptom='reference not finite', mech=mech)
                return res
            if msg:
                raise observe.Mismatch(f"run(backend={b}, solver={solver}, vectorize={vec}): {msg}")
            mech['adaptive_rows_compared'] = df.shape[0]
            mech[f'{b}_{solver}'] = 1
        else:   # interp_probe: adaptive build with an extrinsic input, RHS probed at chosen times
            in_keys = [k for k in ref.param_keys if ref.kind[k] == 'in']
            if not in_keys:
                res.update(status='discard', symptom='no input variable', mech=mech)
                return res
            ik = rnd.choice(in_keys)
            N = rnd.randint(12, 30)
            T = N * dt
            arr = np.random.RandomState(case['cseed'] % (2 ** 31)).standard_normal(N)
            try:
                obs = observe.compile_vf(spec, vectorize=vec, backend=b, step_size=dt, inputs={'/'.join(ik): arr}, solver='scipy', **kw)
            except Exception as e:
                import traceback
                raise observe.Mismatch(f"loud: get_run_func(backend={b}, inputs, adaptive) raised {type(e).__name__}: {e} :: {traceback.format_exc()[-400:]}")
            pos = observe.locate_states(obs, ref)
            grid = np.linspace(0.0, T, N)
            ts = [0.0, float(grid[1]), float(grid[N // 2]), float(grid[-1]), T * 1.2, float(0.5 * (grid[2] + grid[3])),
                  float(grid[3] + 0.25 * (grid[4] - grid[3])), rnd.uniform(0, T), rnd.uniform(0, T)]
            n = len(observe.to_np(obs['args'][1]))
            for t in ts:
                y = np.array([rnd.gauss(0, 1) for _ in range(n)])
                u = float(np.interp(t, grid, arr))
                exp, ill = observe.ref_rhs_checked(ref, {k: float(y[i]) for k, i in pos.items()}, ref.p0(), ctx['mp'], t=t, inputs={ik: u})
                if ill:
                    continue
                targ = t
                if b == 'torch':
                    import torch
                    targ = torch.as_tensor(t, dtype=torch.float64)
                got = observe.call_vf(obs, obs['args'], y.copy(), t=targ)
                for k, i in pos.items():
                    if not abs(got[i] - exp[k]) <= 1e-8 * max(1.0, abs(exp[k])):
                        raise observe.Mismatch(f"backend {b}: adaptive RHS at t={t!r} (grid spacing {grid[1]!r}): derivative of {'/'.join(k)} is "
                                               f"{got[i]!r}, reference with np.interp(t) = {u!r} gives {exp[k]!r}")
                mech['interp_probe_points'] = mech.get('interp_probe_points', 0) + 1
        res.update(status='ok', symptom='', mech=mech)
        from vp.props.c01 import summary
        res['sample'] = {'backend': b, 'mode': mode, 'precision': prec, 'vectorize': vec, 'spec_summary': summary(spec)}
    except observe.Mismatch as e:
        s = str(e)
        res.update(status='violation', symptom=('silent: ' if 'loud' not in s else '') + s, mech=mech, spec=spec)
    return res


# MANIFEST-BEGIN
MANIFEST = {
    'technique': 'reference-model monitor per backend configuration (each backend against the independent semantics) + sanitizers on generated code: gfortran -fcheck=all for f2py builds, jax checkify index checks, write-protected parameter arrays',
    'level_text': 'Generated models are compiled for NumPy, PyTorch, JAX and Fortran in float32/float64, vectorized where accepted; the vector field at random states with perturbed parameters, the returned argument values, fixed-step trajectories for every supported solver name (with white-noise inputs and ring-buffer delays where accepted), adaptive trajectories and the interpolation helpers probed at chosen times are each compared with the independent reference, so that agreement between backends follows and common-mode errors cannot hide. Generated Fortran runs under -fcheck=all (a run-time error aborts the case process and is reported), JAX probes run under checkify index checks, NumPy probes with read-only parameters. Fixed-step runs also use sampling steps that are 2-5 integration steps (each backend has its own storage loop), with extrinsic inputs. Further families: numeric literals of very small / large magnitude (float64 tolerance 2e-10, which resolves single-precision literals), relaxation oscillators integrated adaptively at rtol 1e-6 on every backend (rejected steps). Further: the sign function and probe points with states exactly 0.0; hand-written equations with rational numbers (x**(1/3), 2/3, ^ and **) on every backend against direct arithmetic; both Heun stages use the input sample of their step on every backend; probe family: a constant declared with an integer default on Fortran (recorded finding). Three or four Fortran builds in one process under one file name must each be the model they were asked for; long right-hand sides (products of long identifiers, nested calls) exercise the line wrapping of the Fortran printer on every backend against direct arithmetic. Probe points include states that are tiny but not zero (1e-9 .. 1e-120) next to states that are exactly zero. Held on observed models only.',
    'level_note': 'Trusted: vp/ref.py. float32 builds at rtol 5e-4 on well-conditioned points. Each case imports its backend inside the forked case process (no fork after torch/jax initialisation).',
}
# MANIFEST-END
