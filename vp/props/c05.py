"""C05 - Equation language means what its arithmetic says."""
import math
import random
import re

import numpy as np

from vp import gen, observe, monitors, expr as E
from vp.runner import open_risks, stable_hash

PID = 'C05'
LEVEL = 'exploration'
RULE = ("seeded random expression trees (depth <= 5) over the documented grammar: + - * / unary minus, integer powers, nested calls of "
        "sin cos tan tanh sinh cosh exp log sqrt sigmoid absv maxi mini arctan, constants pi and E, numeric literals in several "
        "spellings (int, float, exponent, leading dot), identifiers from a hostile pool (prefix/suffix pairs, generated-name "
        "look-alikes), index / index_2d / index_range / index_axis on vectors and matrices; each tree is printed in three spellings "
        "of the SAME tree (canonical; ^ with redundant parentheses and no spaces; commuted operands with random spacing) and "
        "evaluated through (1) ExpressionParser + ComputeGraph.eval_node and (2) the generated function of a one-equation operator "
        "(d/dt * x and x' notations); all must equal the independent AST evaluation (float64, cross-checked with 40-digit mpmath; "
        "ill-conditioned trees discarded); non-trivial = tree has >= 4 nodes; distinct = distinct tree hash")
DECIDING = ['eval_node_values', 'generated_function_values', 'spellings_compared', 'index_expressions', 'ddt_notation', 'prime_notation',
            'hostile_names', 'rewritten_variable_values', 'derived_label_neighbour_values', 'index_expressions_generated', 'literal_equations', 'shared_negated_sums', 'respelled_repeats', 'symbolic_power_values']
ASSUMPTIONS = ['sigmoid is the logistic function, maxi/mini are element-wise maximum/minimum', 'argument domains are kept safe by construction',
               'ill-conditioned expressions (float64 vs mpmath differ by more than 1e-11 relative) are discarded']
CASE_TIMEOUT = 240
FOCUS = ['direct_nested_same_function', 'call_on_literal', 'negated_index_helper']
NAMES = ['r', 'rr', 'r_in', 'r_in0', 'm_in2', 'x_v1', 'x_v2', 'weight', 'k', 'k1', 'k10', 'a_b', 'ab', 'tau', 'v', 'u', 'q', 'c0', 'xx']
F1 = ['sin', 'cos', 'tanh', 'sigmoid', 'absv', 'exp', 'log', 'sqrt', 'tan', 'sinh', 'cosh', 'arctan']
F2 = ['maxi', 'mini']


def plan(tier, seed):
    rnd = random.Random(f'{PID}-{seed}')
    n = 60 if tier == 'quick' else 2400
    cases = [{'family': 'main', 'cseed': rnd.randrange(1 << 30), 'n_exprs': 25} for _ in range(n)]
    opened = open_risks(PID)
    k = 4 if tier == 'quick' else 40
    for feat in FOCUS:
        fam = 'probe:' + feat if feat in opened else 'main'
        cases += [{'family': fam, 'cseed': rnd.randrange(1 << 30), 'want': feat, 'n_exprs': 6} for _ in range(k)]
    # rational literals (1/3, 5/2) through the generated code of a backend with typed literals
    for b, kk in (('fortran', 6), ('default', 2)):
        cases += [{'family': 'rational_literals', 'cseed': rnd.randrange(1 << 30), 'backend': b, 'n_exprs': 1} for _ in range(kk if tier == 'quick' else kk * 10)]
    return cases


def warmup(ctx):
    import pyrates  # noqa
    import mpmath
    mpmath.mp.dps = 40
    ctx['mp'] = mpmath
    ctx['open_risks'] = open_risks(PID)
    E.F64['arctan'] = math.atan
    monitors.install()


def lit(rnd):
    v = rnd.choice([2, 3, 5, 0.5, 1.5, 0.25, 2.5, 1e-1, 7e-2, 12.0])
    return ('num', float(v))


def bounded_arg(rnd, names, depth, flags):
    """expression with values roughly in [-3, 3]"""
    return ('call', 'tanh', gen_expr(rnd, names, depth - 1, flags)) if rnd.random() < 0.3 else \
        ('mul', ('num', round(rnd.uniform(0.2, 0.9), 2)), ('call', 'sin', gen_expr(rnd, names, depth - 1, flags))) if rnd.random() < 0.3 else \
        ('var', rnd.choice(names))


def gen_expr(rnd, names, depth, flags):
    if depth <= 0 or rnd.random() < 0.15:
        r = rnd.random()
        if r < 0.6:
            return ('var', rnd.choice(names))
        if r < 0.9:
            return lit(rnd)
        return ('const', rnd.choice(['pi', 'E']))
    if depth >= 2 and len(names) >= 2 and rnd.random() < 0.07:
        # a repeated sub-expression (a sum of variables) that occurs once negated and once more inside another factor or argument
        terms = [('var', n_) if rnd.random() < 0.6 else ('mul', lit(rnd), ('var', n_)) for n_ in rnd.sample(names, rnd.randint(2, min(3, len(names))))]
        S = terms[0]
        for t_ in terms[1:]:
            S = ('add', S, t_)
        other = gen_expr(rnd, names, depth - 2, flags)
        flags['shared_negated_sum'] = True
        shape = rnd.choice(['neg_times_sum', 'sum_times_neg', 'neg_times_call', 'zero_minus', 'neg_over_square'])
        if shape == 'neg_times_sum':
            return ('mul', ('neg', S), ('add', other, S))
        if shape == 'sum_times_neg':
            return ('mul', ('add', other, S), ('neg', S))
        if shape == 'neg_times_call':
            return ('mul', ('neg', S), ('call', rnd.choice(['sin', 'cos', 'tanh']), S))
        if shape == 'zero_minus':
            return ('mul', ('sub', ('num', 0.0), S), ('add', other, S))
        return ('div', ('neg', S), ('add', ('num', 2.0), ('pow', S, 2)))
    if depth >= 2 and rnd.random() < 0.05:
        # the same quantity written in two ways whose canonical forms differ only in the TYPE of a coefficient
        # ((2.0*v)**2 -> 4.0*v**2, (v + v)**2 -> 4*v**2), as factors / arguments of one operation
        v_ = ('var', rnd.choice(names))
        k_ = rnd.choice([2, 3])
        A = ('mul', ('num', float(k_)), v_)
        B = ('add', v_, v_) if k_ == 2 else ('add', ('add', v_, v_), v_)
        flags['respelled_repeat'] = True
        c_ = ('num', rnd.choice([2.0, 1.5, 3.0]))
        shape = rnd.choice(['prod_of_sums', 'quotients', 'call_times', 'sum_of_squares'])
        if shape == 'prod_of_sums':
            return ('mul', ('add', c_, ('pow', A, 2)), ('add', c_, ('pow', B, 2)))
        if shape == 'quotients':
            return ('mul', ('div', gen_expr(rnd, names, depth - 2, flags), ('add', c_, ('pow', A, 2))), ('div', ('var', rnd.choice(names)), ('add', c_, ('pow', B, 2))))
        if shape == 'call_times':
            return ('mul', ('call', rnd.choice(['sin', 'cos', 'tanh']), ('add', c_, ('pow', A, 2))), ('add', c_, ('pow', B, 2)))
        return ('mul', ('add', ('pow', A, 2), gen_expr(rnd, names, depth - 2, flags)), ('add', ('pow', B, 2), c_))
    r = rnd.random()
    if r < 0.22:
        return ('add', gen_expr(rnd, names, depth - 1, flags), gen_expr(rnd, names, depth - 1, flags))
    if r < 0.38:
        return ('sub', gen_expr(rnd, names, depth - 1, flags), gen_expr(rnd, names, depth - 1, flags))
    if r < 0.56:
        return ('mul', gen_expr(rnd, names, depth - 1, flags), gen_expr(rnd, names, depth - 1, flags))
    if r < 0.64:
        return ('div', gen_expr(rnd, names, depth - 1, flags), ('add', ('num', 2.0), ('pow', gen_expr(rnd, names, depth - 1, flags), 2)))
    if r < 0.70:
        return ('neg', gen_expr(rnd, names, depth - 1, flags))
    if r < 0.76:
        return ('pow', bounded_arg(rnd, names, depth, flags), rnd.choice([2, 3]))
    if r < 0.94:
        f = rnd.choice(F1)
        if f in ('exp', 'sinh', 'cosh', 'tan'):
            arg = ('mul', ('num', 0.5), ('call', 'tanh', gen_expr(rnd, names, depth - 1, flags)))
        elif f == 'log':
            arg = ('add', ('num', 1.5), ('pow', bounded_arg(rnd, names, depth, flags), 2))
        elif f == 'sqrt':
            arg = ('add', ('num', 2.0), ('pow', bounded_arg(rnd, names, depth, flags), 2))
        else:
            arg = gen_expr(rnd, names, depth - 1, flags)
        if arg[0] == 'call' and arg[1] == f:
            if flags.get('allow_nest'):
                flags['nested'] = True
            else:
                arg = ('mul', ('num', 0.75), arg)
        if not E.variables(arg) and not flags.get('allow_literal_call'):
            arg = ('add', arg, ('var', rnd.choice(names)))
        elif not E.variables(arg):
            flags['literal_call'] = True
        return ('call', f, arg)
    f = rnd.choice(F2)
    a, b = gen_expr(rnd, names, depth - 1, flags), gen_expr(rnd, names, depth - 1, flags)
    if not E.variables(a) and not E.variables(b):
        a = ('add', a, ('var', rnd.choice(names)))
    return ('call', f, a, b)


class _SympyTooSlow(Exception):
    pass


def _bounded_sympify(text, seconds=4):
    """sympy.sympify under an interval timer: pathological expressions (assumption queries on nested tan/tanh) can take
    minutes; such expressions are rejected by the generator (PyRates itself would spend the same time parsing them)."""
    import signal
    import sympy

    def _raise(signum, frame):
        raise _SympyTooSlow()
    old = signal.signal(signal.SIGALRM, _raise)
    signal.setitimer(signal.ITIMER_REAL, seconds)
    try:
        return sympy.sympify(text)
    finally:
        signal.setitimer(signal.ITIMER_REAL, 0)
        signal.signal(signal.SIGALRM, old)


def literal_after_simplify(e):
    """a call whose argument loses all variables under sympy's automatic simplification (x - x, 0*x): PyRates sees a
    call on a literal (same open finding as a syntactic literal call)"""
    import sympy
    k = e[0]
    if k in ('num', 'var', 'const'):
        return False
    if k == 'call':
        for a in e[2:]:
            if E.variables(a):
                try:
                    if not _bounded_sympify(E.to_str(a).replace('^', '**')).free_symbols:
                        return True
                except _SympyTooSlow:
                    raise
                except Exception:
                    pass
        return any(literal_after_simplify(a) for a in e[2:])
    if k == 'pow':
        return literal_after_simplify(e[1])
    return any(literal_after_simplify(a) for a in e[1:])


def nesting_after_simplify(e):
    """f(f(..)) that only appears after sympy's automatic simplification (e.g. mini(v - v + mini(a, b), c))"""
    import sympy
    try:
        ex = _bounded_sympify(E.to_str(e).replace('^', '**'))
    except _SympyTooSlow:
        raise
    except Exception:
        return False
    for node in sympy.preorder_traversal(ex):
        if isinstance(node, sympy.Function) or getattr(node, 'is_Function', False):
            for a in getattr(node, 'args', ()):
                if getattr(a, 'func', None) == node.func:
                    return True
    return False


def count_nodes(e):
    if e[0] in ('num', 'var', 'const'):
        return 1
    if e[0] == 'call':
        return 1 + sum(count_nodes(a) for a in e[2:])
    if e[0] == 'pow':
        return 1 + count_nodes(e[1])
    return 1 + sum(count_nodes(a) for a in e[1:])


def spellings(e, rnd):
    s1 = E.to_str(e)
    s2 = E.to_str(e, pow_sym='^', sp='', paren=True)
    s3 = E.to_str(E.commute(e, rnd), pow_sym=rnd.choice(['^', '**']), rnd=rnd)
    # literal spellings: 0.5 -> .5 ; 2.0 -> 2 ; 0.1 -> 1e-1
    s3 = s3.replace(' 0.5', ' .5').replace('(0.5', '(.5')
    s2 = s2.replace('12.0', '1.2e1').replace('0.25', '2.5E-1')
    return [s1, s2, s3]


def eval_node_path(expr_str, values):
    from pyrates.backend.computegraph import ComputeGraph
    from pyrates.backend.parser import ExpressionParser
    cg = ComputeGraph(backend='default', float_precision='float64')
    args = {}
    for k, v in values.items():
        if isinstance(v, np.ndarray):
            args[k] = {'vtype': 'constant', 'value': v, 'shape': v.shape, 'dtype': str(v.dtype)}
        elif isinstance(v, int):
            args[k] = {'vtype': 'constant', 'value': v, 'shape': (), 'dtype': 'int32'}
        else:
            args[k] = {'vtype': 'constant', 'value': float(v), 'shape': (), 'dtype': 'float64'}
    ExpressionParser(expr_str=expr_str, args=args, cg=cg).parse_expr()
    return cg.eval_node(cg.var_updates['non-DEs']['x'])


def generated_path(expr_str, values, notation):
    from pyrates import OperatorTemplate, NodeTemplate, CircuitTemplate
    lhs = "d/dt * zz_state" if notation == 'ddt' else "zz_state'"
    variables = {'zz_state': 'output(0.0)'}
    for k, v in values.items():
        variables[k] = float(v)
    op = OperatorTemplate(name='expr_op', equations=[f"{lhs} = {expr_str}"], variables=variables)
    c = CircuitTemplate(name='c', nodes={'n': NodeTemplate(name='nt', operators=[op])})
    f, args, names, smap = c.get_run_func('vf', step_size=1e-3, vectorize=False, verbose=False, clear=True, float_precision='float64')
    return float(np.asarray(f(0, np.array(args[1], dtype=float), *args[2:])).ravel()[0])


def generated_path_multi(expr_str, values, notation, uname):
    """same as generated_path, but variable `uname` is an operator input that two other operators of the node drive
    (each delivers half of its value), so that PyRates rewrites the variable inside the equation string"""
    from pyrates import OperatorTemplate, NodeTemplate, CircuitTemplate
    lhs = "d/dt * zz_state" if notation == 'ddt' else "zz_state'"
    variables = {'zz_state': 'output(0.0)'}
    for k, v in values.items():
        variables[k] = float(v) if k != uname else 'input(0.0)'
    srcs = []
    for tag in ('a', 'b'):
        srcs.append(OperatorTemplate(name=f'src_{tag}', equations=[f"{uname} = zzc{tag} * zzv{tag}", f"zzv{tag}' = -zzv{tag}"],
                                     variables={uname: 'output(0.0)', f'zzv{tag}': 'variable(0.5)', f'zzc{tag}': float(values[uname])}))
    op = OperatorTemplate(name='expr_op', equations=[f"{lhs} = {expr_str}"], variables=variables)
    c = CircuitTemplate(name='c', nodes={'n': NodeTemplate(name='nt', operators=srcs + [op])})
    f, args, names, smap = c.get_run_func('vf', step_size=1e-3, vectorize=False, verbose=False, clear=True, float_precision='float64')
    dy = np.asarray(f(0, np.array(args[1], dtype=float), *args[2:])).ravel()
    return float(dy[smap['n/expr_op/zz_state']])


def generated_path_neighbours(expr_str, values, notation, base):
    """same as generated_path, but the circuit also contains two other nodes that both own a state variable called `base`
    (so that PyRates derives the labels base_v1, ... for them) and are declared before the node with the expression, which
    uses a variable literally named base_v<k>"""
    from pyrates import OperatorTemplate, NodeTemplate, CircuitTemplate
    lhs = "d/dt * zz_state" if notation == 'ddt' else "zz_state'"
    variables = {'zz_state': 'output(0.0)'}
    for k, v in values.items():
        variables[k] = float(v)
    op = OperatorTemplate(name='expr_op', equations=[f"{lhs} = {expr_str}"], variables=variables)
    nb = []
    for tag, x0 in (('a', 0.7), ('b', 0.4)):
        nb.append(OperatorTemplate(name=f'nb_{tag}', equations=[f"{base}' = -zzk{tag}*{base}"],
                                   variables={base: f'output({x0})', f'zzk{tag}': 2.0}))
    c = CircuitTemplate(name='c', nodes={'p1': NodeTemplate(name='n1', operators=[nb[0]]), 'p2': NodeTemplate(name='n2', operators=[nb[1]]),
                                         'n': NodeTemplate(name='nt', operators=[op])})
    f, args, names, smap = c.get_run_func('vf', step_size=1e-3, vectorize=False, verbose=False, clear=True, float_precision='float64')
    y0 = np.array(args[1], dtype=float)
    dy = np.asarray(f(0, y0, *args[2:])).ravel()
    # the neighbours must keep their own dynamics too
    for tag, node, x0 in (('a', 'p1', 0.7), ('b', 'p2', 0.4)):
        i = smap[f'{node}/nb_{tag}/{base}']
        if abs(y0[i] - x0) > 1e-12 or abs(dy[i] + 2.0 * x0) > 1e-12:
            raise observe.Mismatch(f"neighbour node {node} (state variable {base}, initial value {x0}) has initial state {y0[i]!r} and "
                                   f"derivative {dy[i]!r} (expected {-2.0 * x0}) next to an operator that uses the name(s) "
                                   f"{[k for k in values if k.startswith(base + '_v')]}")
    return float(dy[smap['n/expr_op/zz_state']])


def run_case(case, ctx):
    if case.get('family') == 'rational_literals':
        # the generated-code path on a backend with typed literals (Fortran) and on the default backend: integer quotients written as
        # exponent, factor, stand-alone term, inside a call and as summand of an exponent (machinery of C02)
        from vp.props import c02
        res = c02.run_rational_case(case, ctx)
        res.setdefault('mech', {})['rational_literal_models'] = 1
        res['mech']['generated_function_values'] = res['mech'].get('rational_number_values', 0)
        return res
    rnd = random.Random(case['cseed'])
    mp = ctx['mp']
    mech = {}
    want = case.get('want')
    res = {'features': [], 'risk': [want] if want else [], 'nontrivial': True, 'sig': stable_hash(['c05', case['cseed']])}
    if want == 'negated_index_helper':
        msg = index_checks(rnd, mech, only_negated=True)
        if msg:
            res.update(status='violation', symptom=('silent: ' if 'loud' not in msg else '') + msg, mech=mech)
        else:
            res.update(status='ok', symptom='', mech=mech)
        return res
    samples = []
    try:
        for i in range(case['n_exprs']):
            names = rnd.sample(NAMES, rnd.randint(2, 5))
            flags = {'allow_nest': want == 'direct_nested_same_function', 'allow_literal_call': want == 'call_on_literal'}
            e = None
            for _ in range(3000):
                flags.pop('nested', None)
                flags.pop('literal_call', None)
                flags.pop('shared_negated_sum', None)
                flags.pop('respelled_repeat', None)
                e = gen_expr(rnd, names, rnd.randint(2, 5), flags)
                try:
                    nest = E.has_direct_nesting(e) or nesting_after_simplify(e)
                    litc = E.has_literal_call(e) or literal_after_simplify(e)
                except _SympyTooSlow:
                    mech['expressions_rejected_sympy_too_slow'] = mech.get('expressions_rejected_sympy_too_slow', 0) + 1
                    continue
                if (want == 'direct_nested_same_function') != nest:
                    continue
                if (want == 'call_on_literal') != litc:
                    continue
                if 4 <= count_nodes(e) <= 60 and E.variables(e):
                    break
            values = {n: round(rnd.uniform(-1.5, 1.5), 4) for n in names}
            try:
                v64 = E.ev(e, values)
                vmp = float(E.ev_mp(e, values, mp))
            except (OverflowError, ZeroDivisionError, ValueError):
                mech['discarded'] = mech.get('discarded', 0) + 1
                continue
            if not math.isfinite(v64) or abs(v64 - vmp) > 1e-11 * max(1.0, abs(vmp)) or abs(vmp) > 1e8:
                mech['discarded'] = mech.get('discarded', 0) + 1
                continue
            if flags.get('shared_negated_sum'):
                mech['shared_negated_sums'] = mech.get('shared_negated_sums', 0) + 1
            if flags.get('respelled_repeat'):
                mech['respelled_repeats'] = mech.get('respelled_repeats', 0) + 1
            if any(n in ('r_in0', 'm_in2', 'x_v1', 'x_v2', 'weight') for n in E.variables(e)):
                mech['hostile_names'] = mech.get('hostile_names', 0) + 1
            sp = spellings(e, rnd)
            tol = 1e-9 * max(1.0, abs(vmp))
            for si, s in enumerate(sp):
                try:
                    got = float(np.asarray(eval_node_path(s, values)).ravel()[0])
                except Exception as ex:
                    raise observe.Mismatch(f"loud: eval_node path raised {type(ex).__name__}: {ex} for spelling {si} {s!r} (values {values})")
                mech['eval_node_values'] = mech.get('eval_node_values', 0) + 1
                if not abs(got - vmp) <= tol:
                    raise observe.Mismatch(f"eval_node gives {got!r} for {s!r}, its arithmetic value is {vmp!r} (values {values}; canonical spelling {sp[0]!r})")
                notation = rnd.choice(['ddt', 'prime'])
                try:
                    got2 = generated_path(s, values, notation)
                except Exception as ex:
                    raise observe.Mismatch(f"loud: generated-code path raised {type(ex).__name__}: {ex} for spelling {si} {s!r} (values {values})")
                mech['generated_function_values'] = mech.get('generated_function_values', 0) + 1
                mech['ddt_notation' if notation == 'ddt' else 'prime_notation'] = mech.get('ddt_notation' if notation == 'ddt' else 'prime_notation', 0) + 1
                if not abs(got2 - vmp) <= tol:
                    raise observe.Mismatch(f"generated function gives {got2!r} for {s!r} ({notation} notation), its arithmetic value is {vmp!r} "
                                           f"(values {values}; canonical spelling {sp[0]!r})")
            # the same arithmetic when PyRates has to rewrite one of the variables (multiply driven operator input)
            if not want and rnd.random() < 0.5:
                uname = rnd.choice(sorted(E.variables(e)))
                si = rnd.randrange(len(sp))
                notation = rnd.choice(['ddt', 'prime'])
                try:
                    got3 = generated_path_multi(sp[si], values, notation, uname)
                except Exception as ex:
                    raise observe.Mismatch(f"loud: generated-code path with multiply driven input {uname} raised {type(ex).__name__}: {ex} "
                                           f"for spelling {si} {sp[si]!r} (values {values})")
                mech['rewritten_variable_values'] = mech.get('rewritten_variable_values', 0) + 1
                if not abs(got3 - vmp) <= tol:
                    raise observe.Mismatch(f"generated function gives {got3!r} for {sp[si]!r} when variable {uname} is an input driven by two "
                                           f"operators (each delivering half of {values[uname]!r}); its arithmetic value is {vmp!r} "
                                           f"(values {values}; canonical spelling {sp[0]!r})")
            # names that resemble generated labels (x_v1) inside a circuit in which PyRates really generates such labels
            derived_like = sorted(n for n in E.variables(e) if re.search(r'_v\d+$', n))
            if not want and derived_like and rnd.random() < 0.7:
                base = re.sub(r'_v\d+$', '', derived_like[0])
                if base not in E.variables(e):
                    si = rnd.randrange(len(sp))
                    notation = rnd.choice(['ddt', 'prime'])
                    try:
                        got4 = generated_path_neighbours(sp[si], values, notation, base)
                    except observe.Mismatch:
                        raise
                    except Exception as ex:
                        raise observe.Mismatch(f"loud: generated-code path next to two nodes with a variable {base} raised {type(ex).__name__}: "
                                               f"{ex} for spelling {si} {sp[si]!r} (values {values})")
                    mech['derived_label_neighbour_values'] = mech.get('derived_label_neighbour_values', 0) + 1
                    if not abs(got4 - vmp) <= tol:
                        raise observe.Mismatch(f"generated function gives {got4!r} for {sp[si]!r} in a circuit whose other nodes own a variable "
                                               f"{base}; its arithmetic value is {vmp!r} (values {values})")
            mech['spellings_compared'] = mech.get('spellings_compared', 0) + 1
            if len(samples) < 2:
                samples.append({'spellings': sp, 'values': values, 'value': vmp})
        # index helpers (eval_node path, arrays) and scalar-valued index expressions in generated code
        if not want:
            msg = index_checks(rnd, mech)
            if msg:
                raise observe.Mismatch(msg)
            for _ in range(4):
                msg = literal_equation_checks(rnd, mech)
                if msg:
                    raise observe.Mismatch(msg)
            msg = symbolic_power_sequence(rnd, mech)
            if msg:
                raise observe.Mismatch(msg)
        res.update(status='ok', symptom='', mech=mech, sample={'expressions': samples})
    except observe.Mismatch as ex:
        s = str(ex)
        res.update(status='violation', symptom=('silent: ' if 'loud' not in s else '') + s, mech=mech)
    return res


def index_checks(rnd, mech, only_negated=False):
    nrs = np.random.RandomState(rnd.randrange(1 << 30))
    A = nrs.standard_normal(7)
    M = nrs.standard_normal((5, 6))
    B = np.array(sorted(rnd.sample(range(7), 3)), dtype=np.int32)
    C = np.array(rnd.sample(range(5), 3), dtype=np.int32)
    D = np.array(rnd.sample(range(6), 3), dtype=np.int32)
    d = rnd.randrange(0, 4)
    b = round(rnd.uniform(0.5, 1.5), 3)
    vals = {'A': A, 'M': M, 'B': B, 'C': C, 'D': D, 'd': d, 'b': b}
    i, j, k = rnd.randrange(7), rnd.randrange(5), rnd.randrange(6)
    cases = [
        (f"index(A, {i})", A[i]), (f"index(A, B)", A[B]), (f"index(A, d)", A[d]),
        (f"index_range(A, {min(i, 4)}, {min(i, 4) + 2})", A[min(i, 4):min(i, 4) + 2]), (f"index_range(A, d, 6)", A[d:6]),
        (f"index_2d(M, {j}, {k})", M[j, k]), (f"index_2d(M, C, {k})", M[C, k]), (f"index_2d(M, C, D)", M[C, D]),
        (f"index_axis(M, {k}, 1)", M[:, k]), (f"index_axis(M, D, 1)", M[:, D]), (f"index(M, {j})", M[j]),
        (f"b * index(A, {i}) + index_2d(M, {j}, {k})", b * A[i] + M[j, k]),
        (f"index(A, {i})^2 - index(A, B) * b", A[i] ** 2 - A[B] * b),
        (f"sin(index_2d(M, {j}, {k})) / (2 + index(A, d)**2)", math.sin(M[j, k]) / (2 + A[d] ** 2)),
    ]
    for s, exp in ([] if only_negated else cases):
        try:
            got = np.asarray(eval_node_path(s, {kk: v for kk, v in vals.items() if kk in s}))
        except Exception as ex:
            return f"loud: eval_node path raised {type(ex).__name__}: {ex} for {s!r}"
        exp = np.asarray(exp)
        if got.shape != exp.shape or not np.allclose(got, exp, rtol=1e-9, atol=1e-12):
            return f"eval_node gives {got.tolist()} for {s!r}, numpy indexing gives {exp.tolist()}"
        mech['index_expressions'] = mech.get('index_expressions', 0) + 1
    # scalar-valued index expressions inside the generated code of a one-equation operator (vector / matrix constants in the
    # dict form that PyRates itself uses for such variables)
    neg_open = 'negated_index_helper' in open_risks(PID)
    gen_cases = [(f"b + index(A, {i})", b + A[i], False), (f"index_2d(M, {j}, {k}) * b + index(A, d)", M[j, k] * b + A[d], False),
                 (f"b * index(A, {i}) + sin(index_2d(M, {j}, {k}))", b * A[i] + math.sin(M[j, k]), False),
                 (f"b - index(A, {i})", b - A[i], True), (f"b - 2.0*index_2d(M, {j}, {k})", b - 2.0 * M[j, k], True),
                 (f"-index(A, {i})*b + b", -A[i] * b + b, True)]
    for s, exp, negated in gen_cases:
        if only_negated != negated and (only_negated or neg_open):
            continue            # negated index helpers: recorded finding, exercised by its probe family
        try:
            got = generated_path_arrays(s, {kk: v for kk, v in vals.items() if re.search(r'\b' + kk + r'\b', s)})
        except Exception as ex:
            return (f"loud: generated-code path raised {type(ex).__name__}: {ex} for index expression {s!r}"
                    + (' [negated index helper]' if negated else ''))
        if not abs(got - float(exp)) <= 1e-9 * max(1.0, abs(float(exp))):
            return f"generated function gives {got!r} for {s!r}, numpy indexing gives {float(exp)!r}"
        mech['index_expressions_generated'] = mech.get('index_expressions_generated', 0) + 1
    return None


def symbolic_power_sequence(rnd, mech):
    """Powers with a symbolic exponent (^ and **), written for several related equations that are evaluated one after the other
    in this process: the same base with exponents that are sums of different length, bases / exponents swapped, short and long
    variable names.  Both evaluation paths, each against direct arithmetic."""
    long_names = rnd.sample(['weight', 'r_in0', 'x_v1', 'm_in2', 'tau_x'], 2)
    short = rnd.sample(['a', 'b', 'c', 'k', 'r'], 3)
    A, L2 = long_names
    b, c, d = short
    vals = {A: round(rnd.uniform(1.1, 2.0), 4), L2: round(rnd.uniform(0.2, 0.9), 4), b: round(rnd.uniform(0.2, 0.9), 4),
            c: round(rnd.uniform(0.2, 0.9), 4), d: round(rnd.uniform(1.1, 1.9), 4)}
    v = vals
    eqs = [(f"{A}^({b}+{c})", v[A] ** (v[b] + v[c])),
           (f"{A}^({b}+{c}+{L2})", v[A] ** (v[b] + v[c] + v[L2])),
           (f"{d}**({b} + {L2})", v[d] ** (v[b] + v[L2])),
           (f"({b}+{c}+{L2})^{d}", (v[b] + v[c] + v[L2]) ** v[d]),
           (f"({b}+{c})**{A}", (v[b] + v[c]) ** v[A]),
           (f"{d}^{b} - {b}^{d}", v[d] ** v[b] - v[b] ** v[d]),
           (f"{A}**({c}*{L2}) + {L2}**({c}*{A})", v[A] ** (v[c] * v[L2]) + v[L2] ** (v[c] * v[A]))]
    rnd.shuffle(eqs)
    for text, exp in eqs:
        for path in ('eval_node', 'generated'):
            try:
                got = float(np.asarray(eval_node_path(text, vals)).ravel()[0]) if path == 'eval_node' else \
                    generated_path(text, vals, rnd.choice(['ddt', 'prime']))
            except Exception as ex:
                return f"loud: {path} path raised {type(ex).__name__}: {ex} for {text!r} (values {vals})"
            mech['symbolic_power_values'] = mech.get('symbolic_power_values', 0) + 1
            if not abs(got - exp) <= 1e-10 * max(1.0, abs(exp)):
                return (f"{path} path gives {got!r} for {text!r}, its arithmetic value is {exp!r} (values {vals}; evaluated after "
                        f"{[t_ for t_, _ in eqs[:eqs.index((text, exp))]]} in this process)")
    return None


def literal_equation_checks(rnd, mech):
    """equations whose whole right-hand side is a number: several of them in one model, with equal, nearly equal and clearly
    different values; every derivative must be exactly the number written"""
    from pyrates import OperatorTemplate, NodeTemplate, CircuitTemplate
    base = rnd.choice([0.0, 1.5, 6.2832, 1e-3, 250.0, 3.0])
    lits = [base, base + rnd.choice([2.5e-9, 1e-8, base * 3e-6 if base else 4e-9, 1e-7])]
    lits.append(rnd.choice([base, lits[1], base + 0.37, 2 * math.pi if abs(base - 6.2832) < 1 else base * 2 + 0.11]))
    texts = []
    for v in lits:
        style = rnd.choice(['repr', 'repr', 'sci'])
        texts.append(repr(v) if style == 'repr' else f"{v:.17e}")
    if abs(lits[2] - 2 * math.pi) < 1e-12:
        texts[2] = '2*pi'
    names = ['xa', 'xb', 'xc']
    eqs = [f"{n}' = {t}" if rnd.random() < 0.5 else f"d/dt * {n} = {t}" for n, t in zip(names, texts)]
    eqs.append("xd' = -xd + xa")
    variables = {'xa': 'output(0.1)', 'xb': 'variable(0.2)', 'xc': 'variable(0.3)', 'xd': 'variable(0.4)'}
    op = OperatorTemplate(name='lit_op', equations=eqs, variables=variables)
    c = CircuitTemplate(name='c', nodes={'n': NodeTemplate(name='nt', operators=[op])})
    try:
        f, args, nm, smap = c.get_run_func('vf', step_size=1e-3, vectorize=False, verbose=False, clear=True, float_precision='float64')
        dy = np.asarray(f(0, np.array(args[1], dtype=float), *args[2:])).ravel()
    except Exception as ex:
        return f"loud: model with literal-only equations {eqs} raised {type(ex).__name__}: {ex}"
    for n, v in zip(names, lits):
        got = float(dy[smap[f'n/lit_op/{n}']])
        if not abs(got - v) <= 1e-15 * max(1.0, abs(v)) + 0.0:
            return f"equation {n}' = {v!r} (one of {eqs[:3]}) evaluates to {got!r} in the generated function"
        mech['literal_equations'] = mech.get('literal_equations', 0) + 1
    return None


def generated_path_arrays(expr_str, values):
    from pyrates import OperatorTemplate, NodeTemplate, CircuitTemplate
    variables = {'zz_state': 'output(0.0)'}
    for k, v in values.items():
        if isinstance(v, np.ndarray):
            variables[k] = {'vtype': 'constant', 'value': v, 'shape': v.shape, 'dtype': 'int' if v.dtype.kind == 'i' else 'float'}
        elif isinstance(v, int):
            variables[k] = {'vtype': 'constant', 'value': v, 'shape': (), 'dtype': 'int'}
        else:
            variables[k] = float(v)
    op = OperatorTemplate(name='expr_op', equations=[f"zz_state' = {expr_str}"], variables=variables)
    c = CircuitTemplate(name='c', nodes={'n': NodeTemplate(name='nt', operators=[op])})
    f, args, names, smap = c.get_run_func('vf', step_size=1e-3, vectorize=False, verbose=False, clear=True, float_precision='float64')
    return float(np.asarray(f(0, np.array(args[1], dtype=float), *args[2:])).ravel()[0])


# MANIFEST-BEGIN
MANIFEST = {
    'technique': 'differential monitor: both evaluation paths of PyRates (eval_node on the parsed expression, generated function of a one-equation operator) vs an independent AST evaluator (float64 + mpmath), over random expression trees printed in several spellings',
    'level_text': 'Thousands of random expression trees over the documented grammar (operators, integer powers, nested calls of 14 functions, pi/E, literals in several spellings, hostile identifiers, index helpers on vectors and matrices) are printed in three spellings of the same tree and evaluated through ExpressionParser/eval_node and through the generated code of a one-equation operator in both derivative notations; every value must equal the independent AST evaluation within 1e-9 (ill-conditioned trees are discarded using a 40-digit evaluation). For half of the expressions one variable is additionally made an operator input driven by two other operators, so that PyRates rewrites the variable inside the equation string; the value must not change. Index helpers are also evaluated inside generated code (scalar-valued index expressions), names that resemble derived labels are used next to nodes for which PyRates really derives such labels, and models with several literal-only equations (equal, nearly equal, different values) must return exactly the numbers written. Expressions contain sums that occur once negated and once more inside another factor or argument. Expressions also contain the same quantity spelled twice so that the canonical forms differ only in the type of a coefficient ((2.0*v)**2 and (v + v)**2) as factors or arguments of one operation. A rational_literals family sends integer quotients (as exponent, factor, stand-alone term, inside a call, as summand of an exponent) through the generated code of the Fortran and the default backend. Held on observed expressions only.',
    'level_note': 'Trusted: vp/expr.py evaluator and printers (the three spellings are produced from one tree by precedence-aware printing). Index helpers are applied to variables, not to compound sub-expressions (DESIGN 4a).',
}
# MANIFEST-END
