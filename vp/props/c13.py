"""C13 - Results do not depend on what the process did before."""
import copy
import json
import os
import pickle
import random

import numpy as np

from vp import gen, observe, monitors, build
from vp.ref import RefModel
from vp.runner import open_risks, stable_hash

PID = 'C13'
LEVEL = 'exploration'
RULE = ("a probe model M is observed (argument names and values, state map, RHS at probe points, short Euler run) (a) as the "
        "first action of a pristine interpreter state (forked from a zygote that never called the PyRates API) and (b) in a "
        "second pristine process after a generated history of 1-8 public API calls on other models that share with M an "
        "operator NAME (different equations), template objects, an operator structure, or nothing; calls = construct, "
        "update_var, get_run_func / get_jacobian_func / run with clear True/False, in_place True/False, vectorize True/False, "
        "clear(), clear_frontend_caches(), a compile that raises half-way; both observations must be equal, and every "
        "function returned during the history must still return what it returned right after it was built; snapshots of the "
        "process-global caches are recorded; non-trivial = history contains >= 1 compile of a model related to M; distinct = "
        "distinct (M, history) hash")
DECIDING = ['observations_compared', 'earlier_functions_rechecked', 'hist_steps', 'hist_compiles', 'hist_no_clear_compiles',
            'hist_exceptions', 'hist_same_opname', 'hist_same_objects', 'shared_subcircuit_cases', 'hist_shared_update_var', 'input_history_cases', 'revectorize_cases', 'fortran_file_name_cases', 'large_array_cases', 'list_default_cases', 'probe_models_with_zero_override']
ASSUMPTIONS = ['the probe model is observed through fresh template objects built from its spec (the state carry-over of a '
               'template object is documented statefulness, DESIGN 4a)']
CASE_TIMEOUT = 300
FOCUS = ['no_clear_same_opname', 'no_clear_vectorized_same_structure', 'no_clear_any', 'after_exception']


def plan(tier, seed):
    rnd = random.Random(f'{PID}-{seed}')
    n = 100 if tier == 'quick' else 2500
    cases = [{'family': 'main', 'cseed': rnd.randrange(1 << 30)} for _ in range(n)]
    opened = open_risks(PID)
    k = 10 if tier == 'quick' else 100
    for feat in FOCUS:
        fam = 'probe:' + feat if feat in opened else 'main'
        cases += [{'family': fam, 'cseed': rnd.randrange(1 << 30), 'want': feat} for _ in range(k)]
    # circuits that share sub-circuit template OBJECTS over several hierarchy levels with the probe model
    cases += [{'family': 'shared_subcircuits', 'cseed': rnd.randrange(1 << 30)} for _ in range(30 if tier == 'quick' else 600)]
    # simulations with extrinsic inputs after earlier simulations with similar inputs (same variable, same shape, same first and
    # last samples, more than 1000 samples)
    cases += [{'family': 'input_history', 'cseed': rnd.randrange(1 << 30)} for _ in range(20 if tier == 'quick' else 400)]
    # the same template object compiled / simulated in vectorized form (clear=True) and then in scalar form, and vice versa
    cases += [{'family': 'revectorize', 'cseed': rnd.randrange(1 << 30)} for _ in range(24 if tier == 'quick' else 500)]
    # Fortran backend: models compiled one after the other under the same output file name
    cases += [{'family': 'fortran_file_name', 'cseed': rnd.randrange(1 << 30)} for _ in range(10 if tier == 'quick' else 150)]
    # operators that differ only in interior elements of a long constant vector
    cases += [{'family': 'large_array_constants', 'cseed': rnd.randrange(1 << 30)} for _ in range(8 if tier == 'quick' else 100)]
    cases += [{'family': 'list_valued_defaults', 'cseed': rnd.randrange(1 << 30)} for _ in range(8 if tier == 'quick' else 100)]
    # a circuit loaded from YAML, modified, and the same path loaded again
    fam = 'probe:from_yaml_cached_circuit_modified' if 'from_yaml_cached_circuit_modified' in opened else 'yaml_reload'
    cases += [{'family': fam, 'cseed': rnd.randrange(1 << 30)} for _ in range(8 if tier == 'quick' else 100)]
    return cases


def warmup(ctx):
    import pyrates  # noqa
    ctx['open_risks'] = open_risks(PID)
    ctx['excluded'] = open_risks('C01') | open_risks('C04')
    monitors.install()


def gen_models(rnd, ctx):
    """probe model M and related models"""
    from vp.props import c04
    for _ in range(200):
        M, feats, risk = gen.gen_net(rnd, pool=gen.SAFE_POOL, n_nodes=rnd.choice([2, 3, 4]), max_types=2, depth=rnd.choice([0, 0, 1]),
                                     same_type_bias=True, forbid=ctx['excluded'], edge_density=rnd.choice([0.2, 0.5]))
        if c04.vec_risks(M) & ctx['excluded'] or 'vec_partial_input_default' in risk:
            continue
        break
    if rnd.random() < 0.4:
        # a node-level value of exactly 0.0 (falsy) for a constant whose template default is not zero
        ntn = rnd.choice(sorted(M['node_types']))
        opn = rnd.choice(M['node_types'][ntn]['ops'])
        cs_ = [v for v, d in M['ops'][opn]['vars'].items() if d[0] == 'const']
        if cs_:
            M['node_types'][ntn].setdefault('over', {}).setdefault(opn, {})[rnd.choice(cs_)] = 0.0
            M['__zero_override'] = True
    models = {'M': M}
    # same operator names, different equations and defaults
    for _ in range(200):
        A, _, rA = gen.gen_net(rnd, pool=gen.SAFE_POOL, n_nodes=rnd.choice([1, 2, 3]), max_types=2, depth=0, forbid=ctx['excluded'],
                               edge_density=0.3)
        # history steps compile the related models vectorized as well: keep the recorded C04 findings out of them
        if not (c04.vec_risks(A) & ctx['excluded'] or 'vec_partial_input_default' in rA):
            break
    mnames = list(M['ops'])
    ren = {}
    for i, n in enumerate(list(A['ops'])):
        # collision-free: the first operators take the probe model's operator names, the others a fresh suffix
        ren[n] = mnames[i] if i < len(mnames) else n + '_a'
    A2 = copy.deepcopy(A)
    A2['ops'] = {ren.get(n, n): o for n, o in A['ops'].items()}
    for nt in A2['node_types'].values():
        nt['ops'] = [ren.get(n, n) for n in nt['ops']]
        nt['over'] = {ren.get(n, n): v for n, v in nt.get('over', {}).items()}

    def rename_paths(c):
        for e in c.get('edges', []):
            for i in (0, 1):
                parts = e[i].split('/')
                parts[-2] = ren.get(parts[-2], parts[-2])
                e[i] = '/'.join(parts)
        for s in c.get('subs', {}).values():
            rename_paths(s)
    rename_paths(A2['circ'])
    models['same_opname'] = A2
    # same structure as M (same equations), other names and values
    S = copy.deepcopy(M)
    S['ops'] = {n + '_s': copy.deepcopy(o) for n, o in M['ops'].items()}
    vals = gen.Vals(rnd)
    for o in S['ops'].values():
        for v, d in o['vars'].items():
            if d[0] != 'in' or d[1] != 0.0:
                d[1] = vals.new()
    for nt in S['node_types'].values():
        nt['ops'] = [n + '_s' for n in nt['ops']]
        nt['over'] = {}

    def rn2(c):
        for e in c.get('edges', []):
            for i in (0, 1):
                parts = e[i].split('/')
                parts[-2] = parts[-2] + '_s'
                e[i] = '/'.join(parts)
        for s in c.get('subs', {}).values():
            rn2(s)
    rn2(S['circ'])
    models['same_structure'] = S
    for _ in range(200):
        U, _, rU = gen.gen_net(rnd, pool=gen.SAFE_POOL, n_nodes=2, max_types=2, depth=0, forbid=ctx['excluded'], edge_density=0.3)
        if not (c04.vec_risks(U) & ctx['excluded'] or 'vec_partial_input_default' in rU):
            break
    U2 = copy.deepcopy(U)
    U2['ops'] = {n + '_u': o for n, o in U['ops'].items()}
    for nt in U2['node_types'].values():
        nt['ops'] = [n + '_u' for n in nt['ops']]
        nt['over'] = {n + '_u': v for n, v in nt.get('over', {}).items()}

    def rn3(c):
        for e in c.get('edges', []):
            for i in (0, 1):
                parts = e[i].split('/')
                parts[-2] = parts[-2] + '_u'
                e[i] = '/'.join(parts)
    rn3(U2['circ'])
    models['unrelated'] = U2
    return models


def gen_history(rnd, want, opened):
    for _ in range(500):
        steps = []
        n = rnd.randint(1, 8)
        for _i in range(n):
            op = rnd.choice(['get_run_func', 'get_run_func', 'run', 'get_jacobian_func', 'update_var', 'clear', 'clear_frontend_caches',
                             'construct', 'failing_compile'])
            model = rnd.choice(['same_opname', 'same_structure', 'unrelated', 'M_objects', 'M'])
            steps.append({'op': op, 'model': model, 'clear': rnd.random() < 0.5, 'in_place': rnd.random() < 0.5,
                          'vectorize': rnd.random() < 0.4})
        r = history_risks(steps)
        if want and want not in r:
            continue
        if (set(opened) - {want}) & r:
            continue
        return steps, r
    raise RuntimeError('generator could not satisfy the constraints')


def history_risks(steps):
    r = set()
    dirty = False        # a compile without clear happened and no clear since
    dirty_models = set()
    dirty_vec = False
    for s in steps:
        if s['op'] in ('get_run_func', 'run', 'get_jacobian_func'):
            if dirty:
                r.add('no_clear_any')
            if not s['clear']:
                dirty = True
                dirty_models.add(s['model'])
                dirty_vec = dirty_vec or s['vectorize']
            else:
                dirty = False
                dirty_models = set()
                dirty_vec = False
        elif s['op'] == 'clear':
            dirty = False
            dirty_models = set()
            dirty_vec = False
        elif s['op'] == 'clear_frontend_caches':
            pass
        elif s['op'] == 'failing_compile':
            r.add('after_exception')
            dirty = True
            dirty_models.add(s['model'])
    if dirty:
        r.add('no_clear_any')
        if 'same_opname' in dirty_models:
            r.add('no_clear_same_opname')
        if {'same_structure', 'M_objects', 'M'} & dirty_models:
            r.add('no_clear_vectorized_same_structure')
    return r


def observe_M(spec, seed, factory=None):
    """full observation of the probe model through fresh template objects (or through templates made by `factory`)"""
    rnd = random.Random(seed)
    out = {}
    for vec in (False, True):
        obs = observe.compile_vf(spec, vectorize=vec, clear=True, template=factory() if factory else None)
        n = len(np.asarray(obs['args'][1]))
        ys = [np.array([rnd.gauss(0, 1) for _ in range(n)]) for _ in range(3)]
        vals = [observe.call_vf(obs, obs['args'], y.copy()).tolist() for y in ys]
        out[f'vf_{vec}'] = {'names': list(obs['names']), 'smap': {k: (list(v) if isinstance(v, tuple) else int(v)) for k, v in obs['smap'].items()},
                            'args': [np.asarray(a, dtype=float).tolist() for a in obs['args'] if not callable(a)], 'rhs': vals}
    ref = RefModel(spec)
    keys = list(ref.state_keys)[:6]
    df = observe.run_model(spec, T=5e-3, dt=1e-3, outputs={f'o{i}': '/'.join(k) for i, k in enumerate(keys)}, vectorize=False,
                           template=factory() if factory else None)
    out['run'] = df.values.tolist()
    return out


def run_shared_case(case, ctx):
    """Probe model M = top{c: mid, d: mid}, mid{x: leaf, y: leaf} (three levels).  History: another circuit T1{a: mid, b: mid}
    built from the SAME mid/leaf template objects is modified through one branch (update_var with single paths and
    wildcards), compiled and run; then M is built from the same objects and observed.  A pristine process observes M built
    from fresh objects."""
    rnd = random.Random(case['cseed'])
    mech = {}
    if case.get('spec') is not None:
        M, steps = case['spec']['M'], case['steps']
    else:
        leaf, _, _ = gen.gen_net(rnd, pool=gen.SAFE_POOL, n_nodes=rnd.choice([1, 2]), max_types=2, depth=0, forbid=ctx['excluded'],
                                 edge_density=rnd.choice([0.0, 0.5]))
        lc = leaf['circ']
        lc['name'] = 'leaf'
        lc['__share'] = 'leaf'
        mid = {'name': 'mid', 'nodes': {}, 'subs': {'x': lc, 'y': copy.deepcopy(lc)}, 'edges': [], '__share': 'mid'}
        # an edge between the two leaves inside mid
        refl = RefModel(leaf)
        srcs = [k for k in refl.state_keys]
        tgts = [k for k in refl.param_keys if refl.kind[k] == 'in']
        if srcs and tgts and rnd.random() < 0.7:
            s_, t_ = rnd.choice(srcs), rnd.choice(tgts)
            mid['edges'].append([f"x/{'/'.join(s_)}", f"y/{'/'.join(t_)}", None, {'weight': 0.37}])
        M = {'ops': leaf['ops'], 'node_types': leaf['node_types'], 'edge_types': {},
             'circ': {'name': 'top', 'nodes': {}, 'subs': {'c': mid, 'd': copy.deepcopy(mid)}, 'edges': []}}
        consts = [k for k in refl.param_keys if refl.kind[k] == 'const'] + list(refl.state_keys)
        steps = []
        vflag = rnd.random() < 0.4      # one vectorize setting per template object (mixing them: C14 finding, documented state)
        for _ in range(rnd.randint(1, 4)):
            op = rnd.choice(['update_var', 'update_var', 'update_var', 'get_run_func', 'run'])
            k = rnd.choice(consts)
            br = rnd.choice(['a', 'b'])
            lf = rnd.choice(['x', 'y', 'all'])
            steps.append({'op': op, 'path': f"{br}/{lf}/{'/'.join(k)}", 'value': round(rnd.uniform(1.5, 2.5), 3),
                          'clear': rnd.random() < 0.7, 'vectorize': vflag})
        if not any(s_['op'] == 'update_var' for s_ in steps):
            steps[0]['op'] = 'update_var'
    res = {'features': ['shared_subcircuits'] + sorted({s_['op'] for s_ in steps}), 'risk': [], 'sig': stable_hash([M, steps]),
           'case_extra': {'steps': steps}, 'nontrivial': True}
    try:
        st, fresh = fresh_observation(M, case['cseed'])
        if st != 'ok':
            raise observe.Mismatch(f'loud: probe model fails in a pristine process: {fresh}')
        from pyrates import CircuitTemplate
        tM, objs = build.build_python(M)
        mid_t = tM.circuits['c']
        if tM.circuits['d'] is not mid_t or mid_t.circuits['x'] is not mid_t.circuits['y']:
            raise observe.Mismatch('harness: sub-circuit objects are not shared')
        T1 = CircuitTemplate(name='T1', circuits={'a': mid_t, 'b': mid_t})
        dt = 1e-3
        for i, s_ in enumerate(steps):
            try:
                if s_['op'] == 'update_var':
                    T1.update_var(node_vars={s_['path']: s_['value']})
                    mech['hist_shared_update_var'] = mech.get('hist_shared_update_var', 0) + 1
                elif s_['op'] == 'get_run_func':
                    T1.get_run_func(f'h{i}', step_size=dt, vectorize=s_['vectorize'], verbose=False, clear=s_['clear'], in_place=False,
                                    float_precision='float64', file_name=f'hist_{i}')
                    mech['hist_compiles'] = mech.get('hist_compiles', 0) + 1
                else:
                    k0 = RefModel(M).state_keys[0]
                    T1.run(simulation_time=4 * dt, step_size=dt, outputs={'o': 'a' + '/'.join(k0)[1:]}, vectorize=s_['vectorize'],
                           verbose=False, clear=True, in_place=False, float_precision='float64')
                    mech['hist_compiles'] = mech.get('hist_compiles', 0) + 1
            except Exception as e:
                import traceback
                raise observe.Mismatch(f"loud: history step {i} {s_} raised {type(e).__name__}: {e} :: {traceback.format_exc()[-300:]}")
        mech['hist_steps'] = len(steps)
        mech['hist_same_objects'] = 1
        try:
            after = observe_M(M, case['cseed'], factory=lambda: CircuitTemplate(name='top', circuits={'c': mid_t, 'd': mid_t}))
        except Exception as e:
            import traceback
            raise observe.Mismatch(f"loud: probe model built from the shared objects fails after history {steps}: "
                                   f"{type(e).__name__}: {e} :: {traceback.format_exc()[-300:]}")
        d = first_diff(fresh, after)
        mech['observations_compared'] = 1
        mech['shared_subcircuit_cases'] = 1
        if d:
            raise observe.Mismatch(f"probe model top{{c: mid, d: mid}} built from sub-circuit objects that another circuit T1{{a: mid, b: mid}} "
                                   f"also uses differs from the pristine observation at {d}; history on T1: "
                                   f"{[(s_['op'], s_['path'], s_['value']) for s_ in steps]}")
        res.update(status='ok', symptom='', mech=mech)
        res['sample'] = {'history': steps, 'probe_nodes': RefModel(M).node_order}
    except observe.Mismatch as e:
        s2 = str(e)
        res.update(status='violation', symptom=('silent: ' if 'loud' not in s2 else '') + s2, mech=mech, spec={'M': M})
    return res


def fresh_observation(spec, seed):
    """observe M in a pristine grand-child process (forked from this still-pristine process)"""
    r, w = os.pipe()
    pid = os.fork()
    if pid == 0:
        os.close(r)
        try:
            o = ('ok', observe_M(spec, seed))
        except BaseException as e:  # noqa
            o = ('err', f'{type(e).__name__}: {e}')
        with os.fdopen(w, 'wb') as f:
            pickle.dump(o, f)
        os._exit(0)
    os.close(w)
    with os.fdopen(r, 'rb') as f:
        data = f.read()
    os.waitpid(pid, 0)
    return pickle.loads(data)


def first_diff(a, b, path=''):
    if type(a) != type(b):
        return f'{path}: {a!r} vs {b!r}'
    if isinstance(a, dict):
        for k in sorted(set(a) | set(b), key=str):
            if k not in a or k not in b:
                return f'{path}/{k}: only in one observation'
            d = first_diff(a[k], b[k], f'{path}/{k}')
            if d:
                return d
        return None
    if isinstance(a, list):
        if len(a) != len(b):
            return f'{path}: length {len(a)} vs {len(b)}'
        for i, (x, y) in enumerate(zip(a, b)):
            d = first_diff(x, y, f'{path}[{i}]')
            if d:
                return d
        return None
    if isinstance(a, float):
        if not (a == b or abs(a - b) <= 1e-12 * max(1.0, abs(a))):
            return f'{path}: fresh {a!r} vs after-history {b!r}'
        return None
    if a != b:
        return f'{path}: fresh {a!r} vs after-history {b!r}'
    return None


def _run_with_input(spec, in_key, arr, keys, clear=True, template=None):
    df = observe.run_model(spec, T=len(arr) * 1e-3, dt=1e-3, dts=1e-2, outputs={f'o{i}': '/'.join(k) for i, k in enumerate(keys)},
                           vectorize=False, inputs={'/'.join(in_key): arr.copy()}, clear=clear, template=template)
    return df.values.tolist()


def _fresh_run_with_input(spec, in_key, arr, keys):
    r, w = os.pipe()
    pid = os.fork()
    if pid == 0:
        os.close(r)
        try:
            o = ('ok', _run_with_input(spec, in_key, arr, keys))
        except BaseException as e:  # noqa
            o = ('err', f'{type(e).__name__}: {e}')
        with os.fdopen(w, 'wb') as f:
            pickle.dump(o, f)
        os._exit(0)
    os.close(w)
    with os.fdopen(r, 'rb') as f:
        data = f.read()
    os.waitpid(pid, 0)
    return pickle.loads(data)


def run_input_case(case, ctx):
    """M is simulated with input array B in a pristine process, and in this process after 1-3 earlier simulations (of M or of
    another model with an input variable of the same name) whose input arrays have B's shape and B's first and last samples."""
    rnd = random.Random(case['cseed'])
    mech = {}
    for _ in range(200):
        M, feats, risk = gen.gen_net(rnd, pool=gen.SAFE_POOL, n_nodes=rnd.choice([1, 2]), max_types=2, depth=0, forbid=ctx['excluded'],
                                     edge_density=0.3)
        ref = RefModel(M)
        ins = [k for k in ref.param_keys if ref.kind[k] == 'in' and not ref._intra_sources(k)]
        if ins:
            break
    in_key = rnd.choice(ins)
    keys = list(ref.state_keys)[:4]
    N = 10 * rnd.randint(101, 115)
    nrs = np.random.RandomState(case['cseed'] % (2 ** 31))

    def pulse():
        a = nrs.standard_normal(N)
        a[:4] = 0.0
        a[-4:] = 0.0
        return a
    B = pulse()
    hist = [{'model': rnd.choice(['M', 'M', 'other']), 'clear': rnd.random() < 0.7} for _ in range(rnd.randint(1, 3))]
    res = {'features': ['input_history'] + sorted({h['model'] for h in hist}), 'risk': [], 'sig': stable_hash([M, hist, N]),
           'nontrivial': True}
    if any(not h['clear'] for h in hist):
        res['risk'] = ['no_clear_any']
    try:
        st, fresh = _fresh_run_with_input(M, in_key, B, keys)
        if st != 'ok':
            raise observe.Mismatch(f'loud: probe simulation fails in a pristine process: {fresh}')
        # another model with an input variable of the same operator/variable name
        other = copy.deepcopy(M)
        for o in other['ops'].values():
            for v, d in o['vars'].items():
                if d[0] == 'const':
                    d[1] = round(d[1] * 1.3 + 0.05, 4)
        for i, h in enumerate(hist):
            try:
                _run_with_input(M if h['model'] == 'M' else other, in_key, pulse(), keys, clear=h['clear'])
            except Exception as e:
                import traceback
                raise observe.Mismatch(f"loud: history simulation {i} {h} raised {type(e).__name__}: {e} :: {traceback.format_exc()[-300:]}")
            mech['hist_compiles'] = mech.get('hist_compiles', 0) + 1
            if not h['clear']:
                mech['hist_no_clear_compiles'] = mech.get('hist_no_clear_compiles', 0) + 1
        mech['hist_steps'] = len(hist)
        try:
            after = _run_with_input(M, in_key, B, keys)
        except Exception as e:
            import traceback
            raise observe.Mismatch(f"loud: probe simulation fails after history {hist}: {type(e).__name__}: {e} :: {traceback.format_exc()[-300:]}")
        d = first_diff(fresh, after)
        mech['observations_compared'] = 1
        mech['input_history_cases'] = 1
        if d:
            raise observe.Mismatch(f"simulation with a {N}-sample input differs from the pristine one at {d} after {len(hist)} earlier "
                                   f"simulation(s) {hist} with input arrays of the same shape and the same first/last samples")
        res.update(status='ok', symptom='', mech=mech, sample={'history': hist, 'N': N, 'input': '/'.join(in_key)})
    except observe.Mismatch as e:
        s2 = str(e)
        res.update(status='violation', symptom=('silent: ' if 'loud' not in s2 else '') + s2, mech=mech, spec={'M': M})
    return res


def run_revectorize_case(case, ctx):
    """One template object is compiled (or simulated) with one vectorize setting and clear=True, then with the other setting;
    the second function must be the one a pristine process obtains for that setting."""
    from vp.props import c04
    rnd = random.Random(case['cseed'])
    mech = {}
    for _ in range(200):
        M, feats, risk = c04.make_spec({'cseed': rnd.randrange(1 << 30)}, ctx['excluded'])
        if 'several_nodes_per_type' in feats and 'edges' in feats:
            break
    first_vec = rnd.random() < 0.7
    via = rnd.choice(['get_run_func', 'run'])
    res = {'features': ['revectorize', via, 'vec_first' if first_vec else 'scalar_first'], 'risk': [], 'sig': stable_hash([M, first_vec, via]),
           'nontrivial': True}
    try:
        st, fresh = fresh_observation(M, case['cseed'])
        if st != 'ok':
            raise observe.Mismatch(f'loud: probe model fails in a pristine process: {fresh}')
        tM, _ = build.build_python(M)
        ref = RefModel(M)
        try:
            if via == 'get_run_func':
                tM.get_run_func('first', step_size=1e-3, vectorize=first_vec, verbose=False, clear=True, float_precision='float64')
            else:
                tM.run(simulation_time=4e-3, step_size=1e-3, outputs={'o': '/'.join(ref.state_keys[0])}, vectorize=first_vec, verbose=False,
                       clear=True, float_precision='float64')
            from pyrates import clear as pr_clear
            pr_clear(tM)           # public reset of the template (forgets the remembered simulation state)
            obs = observe.compile_vf(M, vectorize=not first_vec, clear=True, template=tM, in_place=True)
        except Exception as e:
            import traceback
            raise observe.Mismatch(f"loud: compiling the same template with vectorize={not first_vec} after vectorize={first_vec} raised "
                                   f"{type(e).__name__}: {e} :: {traceback.format_exc()[-300:]}")
        mech['hist_compiles'] = 1
        mech['hist_steps'] = 1
        mech['hist_same_objects'] = 1
        # the same probe states observe_M uses (scalar build first, then vectorized build)
        r2 = random.Random(case['cseed'])
        n = len(np.asarray(obs['args'][1]))
        ys_scalar = [np.array([r2.gauss(0, 1) for _ in range(n)]) for _ in range(3)]
        ys_vec = [np.array([r2.gauss(0, 1) for _ in range(n)]) for _ in range(3)]
        ys = ys_vec if not first_vec else ys_scalar
        key = f'vf_{not first_vec}'
        rhs_vals = [observe.call_vf(obs, obs['args'], y.copy()).tolist() for y in ys]       # (same order as observe_M)
        after = {'names': list(obs['names']), 'smap': {k: (list(v) if isinstance(v, tuple) else int(v)) for k, v in obs['smap'].items()},
                 'args': [np.asarray(a, dtype=float).tolist() for a in obs['args'] if not callable(a)], 'rhs': rhs_vals}
        d = first_diff(fresh[key], after)
        mech['observations_compared'] = 1
        mech['revectorize_cases'] = 1
        if d:
            raise observe.Mismatch(f"get_run_func(vectorize={not first_vec}) on a template that was {via}-compiled with vectorize={first_vec} "
                                   f"(clear=True, then clear(template)) differs from the pristine observation at {d}")
        res.update(status='ok', symptom='', mech=mech, sample={'first_vectorize': first_vec, 'via': via, 'nodes': ref.node_order})
    except observe.Mismatch as e:
        s2 = str(e)
        res.update(status='violation', symptom=('silent: ' if 'loud' not in s2 else '') + s2, mech=mech, spec={'M': M})
    return res


def run_fortran_case(case, ctx):
    """1-3 other scalar models are compiled for the Fortran backend, then the probe model - all under the same file name (the
    default one, or an explicit one), with clear on/off; the probe's function must compute the probe model (reference RHS)."""
    import mpmath
    mpmath.mp.dps = 40
    rnd = random.Random(case['cseed'])
    mech = {}

    def small():
        return gen.gen_net(rnd, pool=gen.SAFE_POOL, n_nodes=rnd.choice([1, 2]), max_types=2, depth=0, forbid=ctx['excluded'],
                           edge_density=0.3, unique_types=True)[0]
    M = small()
    others = [small() for _ in range(case.get('n_others') or rnd.choice([1, 2, 2, 3]))]
    fname = rnd.choice([None, None, 'shared_mod'])
    # (earlier builds may use the other float precision: the helper functions of a build - sigmoid, sign, interp - carry it)
    hist = [{'clear': rnd.random() < 0.5, 'prec': rnd.choice(['float64', 'float32', 'float32'])} for _ in others]
    res = {'features': ['fortran_file_name', 'default_name' if fname is None else 'explicit_name'], 'risk': [],
           'sig': stable_hash([M, others, fname, hist]), 'nontrivial': True}
    kw = {'file_name': fname} if fname else {}
    try:
        for spec_i, h in zip(others, hist):
            try:
                observe.compile_vf(spec_i, vectorize=False, backend='fortran', clear=h['clear'], float_precision=h['prec'], **kw)
                if h['prec'] == 'float32':
                    mech['hist_other_precision'] = mech.get('hist_other_precision', 0) + 1
            except Exception as e:
                import traceback
                raise observe.Mismatch(f"loud: history compile (fortran) raised {type(e).__name__}: {e} :: {traceback.format_exc()[-300:]}")
            mech['hist_compiles'] = mech.get('hist_compiles', 0) + 1
            if not h['clear']:
                mech['hist_no_clear_compiles'] = mech.get('hist_no_clear_compiles', 0) + 1
        mech['hist_steps'] = len(others)
        ref = RefModel(M)
        try:
            obs = observe.compile_vf(M, vectorize=False, backend='fortran', clear=True, **kw)
        except Exception as e:
            import traceback
            raise observe.Mismatch(f"loud: probe model (fortran, file name {fname or 'default'}) raised {type(e).__name__}: {e} :: "
                                   f"{traceback.format_exc()[-300:]}")
        try:
            observe.compare_vf(obs, ref, rnd, mpmath, n_points=3, vectorized=False, mech=mech, perturb=False)
        except observe.Mismatch as e:
            raise observe.Mismatch(f"Fortran build of the probe model after {len(others)} earlier Fortran build(s) under the same file name "
                                   f"({fname or 'default'}; clear flags {[h['clear'] for h in hist]}): {e}")
        mech['observations_compared'] = 1
        mech['fortran_file_name_cases'] = 1
        res.update(status='ok', symptom='', mech=mech, sample={'file_name': fname, 'history': hist})
    except observe.Mismatch as e:
        s2 = str(e)
        res.update(status='violation', symptom=('silent: ' if 'loud' not in s2 else '') + s2, mech=mech, spec={'M': M})
    return res


def run_large_array_case(case, ctx):
    """Two operators with the same name and equations whose constant vector (more than 1000 elements, so that its repr is
    abbreviated) differs in a few interior elements, compiled one after the other without clear(): each function must read
    its own vector."""
    from pyrates import OperatorTemplate, NodeTemplate, CircuitTemplate
    rnd = random.Random(case['cseed'])
    nrs = np.random.RandomState(case['cseed'] % (2 ** 31))
    n = rnd.choice([1001, 1500, 2000, 5000])
    base = nrs.uniform(0.5, 1.5, n).round(4)
    idx = sorted(rnd.sample(range(4, n - 4), 3))
    variants = [base.copy()]
    for _ in range(rnd.randint(1, 2)):
        v = variants[-1].copy()
        v[idx] = nrs.uniform(2.0, 3.0, 3).round(4)
        variants.append(v)
    mech = {}
    res = {'features': ['large_array_constants', f'n{n}'], 'risk': [], 'sig': stable_hash([n, idx, case['cseed']]), 'nontrivial': True}
    try:
        for vi, arr in enumerate(variants):
            i0 = rnd.choice(idx)
            op = OperatorTemplate(name='big_op', equations=[f"x' = -x + index(w, {i0})"],
                                  variables={'x': 'output(0.0)', 'w': {'vtype': 'constant', 'value': arr.copy(), 'shape': (n,), 'dtype': 'float'}})
            c = CircuitTemplate(name='big', nodes={'a': NodeTemplate(name='big_node', operators=[op])})
            try:
                f, args, names, smap = c.get_run_func('vf', step_size=1e-3, vectorize=False, verbose=False, clear=False, in_place=False,
                                                      float_precision='float64')
                got = float(np.asarray(f(*args)).ravel()[0])
            except Exception as e:
                raise observe.Mismatch(f"loud: get_run_func raised {type(e).__name__}: {e}")
            mech['hist_steps'] = mech.get('hist_steps', 0) + 1
            mech['hist_compiles'] = mech.get('hist_compiles', 0) + 1
            mech['hist_no_clear_compiles'] = mech.get('hist_no_clear_compiles', 0) + 1
            if not abs(got - arr[i0]) <= 1e-12:
                raise observe.Mismatch(f"operator number {vi + 1} of the process with a constant vector of {n} elements (differs from the earlier one in "
                                       f"elements {idx}): index(w, {i0}) evaluates to {got!r}, the vector holds {arr[i0]!r}")
            mech['observations_compared'] = mech.get('observations_compared', 0) + 1
        mech['large_array_cases'] = 1
        res.update(status='ok', symptom='', mech=mech, sample={'n': n, 'differing_elements': idx})
    except observe.Mismatch as e:
        s2 = str(e)
        res.update(status='violation', symptom=('silent: ' if 'loud' not in s2 else '') + s2, mech=mech, spec={'n': n, 'idx': idx})
    return res


def run_list_default_case(case, ctx):
    """An operator whose constant is declared with a list-valued default (dict form, shape (1,)) sits on several nodes of one
    vectorized circuit; the same model is compiled two or three times in one process without clear(): every compilation must
    succeed and read the declared value on every node."""
    from pyrates import OperatorTemplate, NodeTemplate, CircuitTemplate
    rnd = random.Random(case['cseed'])
    n_nodes = rnd.choice([2, 3, 4])
    kval = round(rnd.uniform(0.5, 3.0), 4)
    x0 = round(rnd.uniform(0.1, 0.9), 4)
    name = f"lst_op{rnd.randrange(1000)}"
    mech = {}
    res = {'features': ['list_valued_defaults', f'n{n_nodes}'], 'risk': [], 'sig': stable_hash([n_nodes, kval, x0, case['cseed']]), 'nontrivial': True}

    def mk():
        op = OperatorTemplate(name=name, path='none', equations=["x' = -x + k"],
                              variables={'x': f'output({x0})', 'k': {'vtype': 'constant', 'value': [kval], 'shape': (1,), 'dtype': 'float'}})
        node = NodeTemplate(name='lst_node', path='none', operators=[op])
        return CircuitTemplate(name='lst', path='none', nodes={f'p{i}': node for i in range(n_nodes)})
    try:
        for vi in range(rnd.choice([2, 3])):
            try:
                f, args, names, smap = mk().get_run_func('vf', step_size=1e-3, vectorize=True, verbose=False, clear=False, in_place=False,
                                                      float_precision='float64')
                got = np.asarray(f(*args), dtype=float).ravel()
            except Exception as e:
                raise observe.Mismatch(f"loud: compilation number {vi + 1} of a model with a list-valued constant default on {n_nodes} nodes "
                                       f"raised {type(e).__name__}: {e}")
            mech['hist_steps'] = mech.get('hist_steps', 0) + 1
            mech['hist_compiles'] = mech.get('hist_compiles', 0) + 1
            mech['hist_no_clear_compiles'] = mech.get('hist_no_clear_compiles', 0) + 1
            want = np.full(n_nodes, -x0 + kval)
            if got.shape != want.shape or not np.allclose(got, want, rtol=1e-12, atol=1e-12):
                raise observe.Mismatch(f"compilation number {vi + 1} of a model with the list-valued constant default [{kval}] on {n_nodes} nodes: "
                                       f"vector field {got.tolist()}, declared model gives {want.tolist()}")
            mech['observations_compared'] = mech.get('observations_compared', 0) + 1
        mech['list_default_cases'] = 1
        res.update(status='ok', symptom='', mech=mech, sample={'nodes': n_nodes, 'k': kval})
    except observe.Mismatch as e:
        s2 = str(e)
        res.update(status='violation', symptom=('silent: ' if 'loud' not in s2 else '') + s2, mech=mech, spec={'n_nodes': n_nodes, 'k': kval})
    return res


def run_yaml_reload_case(case, ctx):
    """A YAML-defined circuit is loaded, the loaded circuit is modified (update_var / in-place edge addition) and possibly
    simulated; the SAME path is then loaded again: the second circuit must be the model the file defines."""
    import mpmath
    from pyrates import CircuitTemplate
    mpmath.mp.dps = 40
    rnd = random.Random(case['cseed'])
    mech = {}
    for attempt in range(200):
        M = gen.gen_net(rnd, pool=gen.SAFE_POOL, n_nodes=rnd.choice([1, 2, 3]), max_types=2, depth=0, forbid=ctx['excluded'],
                        edge_density=0.4, same_type_bias=True)[0]
        ref = RefModel(M)
        consts = [k for k in ref.param_keys if ref.kind[k] == 'const']
        if consts:
            break
    how = rnd.choice(['update_var', 'update_var', 'update_var_and_run'])
    res = {'features': ['yaml_reload', how], 'risk': ['from_yaml_cached_circuit_modified'],
           'sig': stable_hash([M, how]), 'nontrivial': True}
    cwd = os.getcwd()
    try:
        text, top = build.build_yaml_text(M)
        with open('reload_model.yaml', 'w') as f:
            f.write(text)
        path = f'{cwd}/reload_model/{top}'
        try:
            c1 = CircuitTemplate.from_yaml(path)
            k0 = rnd.choice(consts)
            c1.update_var(node_vars={'/'.join(k0): 9.125})
            if how == 'update_var_and_run':
                sk = list(ref.state_keys)[:2]
                c1.run(simulation_time=3e-3, step_size=1e-3, outputs={f'o{i}': '/'.join(k) for i, k in enumerate(sk)}, vectorize=False,
                       verbose=False, clear=True, in_place=False, float_precision='float64')
            mech['hist_steps'] = 2
            c2 = CircuitTemplate.from_yaml(path)
        except Exception as e:
            import traceback
            raise observe.Mismatch(f"loud: from_yaml / update_var raised {type(e).__name__}: {e} :: {traceback.format_exc()[-300:]}")
        try:
            obs = observe.compile_vf(M, vectorize=False, template=c2)
        except Exception as e:
            raise observe.Mismatch(f"loud: get_run_func of the re-loaded circuit raised {type(e).__name__}: {e}")
        try:
            observe.compare_vf(obs, ref, rnd, mpmath, n_points=3, vectorized=False, mech=mech, perturb=False)
        except observe.Mismatch as e:
            raise observe.Mismatch(f"circuit loaded from a path after an earlier circuit loaded from the same path was modified with update_var "
                                   f"({'/'.join(k0)} = 9.125): {e}")
        mech['observations_compared'] = 1
        mech['yaml_reload_cases'] = 1
        res.update(status='ok', symptom='', mech=mech, sample={'how': how})
    except observe.Mismatch as e:
        s2 = str(e)
        res.update(status='violation', symptom=('silent: ' if 'loud' not in s2 else '') + s2, mech=mech, spec={'M': M})
    return res


def run_case(case, ctx):
    if case.get('family') in ('yaml_reload', 'probe:from_yaml_cached_circuit_modified'):
        return run_yaml_reload_case(case, ctx)
    if case.get('family') == 'fortran_file_name':
        return run_fortran_case(case, ctx)
    if case.get('family') == 'large_array_constants':
        return run_large_array_case(case, ctx)
    if case.get('family') == 'list_valued_defaults':
        return run_list_default_case(case, ctx)
    if case.get('family') == 'revectorize':
        return run_revectorize_case(case, ctx)
    if case.get('family') == 'shared_subcircuits':
        return run_shared_case(case, ctx)
    if case.get('family') == 'input_history':
        return run_input_case(case, ctx)
    rnd = random.Random(case['cseed'])
    if case.get('spec') is not None:
        models, steps = case['spec'], case['steps']
        risk = sorted(history_risks(steps))
    else:
        models = gen_models(rnd, ctx)
        steps, r = gen_history(rnd, case.get('want'), ctx['open_risks'])
        risk = sorted(r)
    M = models['M']
    mech = {'hist_steps': len(steps)}
    if M.pop('__zero_override', None) or any(v_ == 0.0 for nt_ in M['node_types'].values() for ov_ in nt_.get('over', {}).values() for v_ in ov_.values()):
        mech['probe_models_with_zero_override'] = 1
    res = {'features': sorted({s['op'] for s in steps} | {s['model'] for s in steps}), 'risk': risk,
           'sig': stable_hash([M, steps]), 'case_extra': {'steps': steps},
           'nontrivial': any(s['op'] in ('get_run_func', 'run', 'get_jacobian_func') and s['model'] != 'unrelated' for s in steps)}
    try:
        st, fresh = fresh_observation(M, case['cseed'])
        if st != 'ok':
            raise observe.Mismatch(f'loud: probe model fails in a pristine process: {fresh}')
        # ---- the history, in this (so far pristine) process -------------------------------------------------------
        import pyrates
        from pyrates import clear as pr_clear, clear_frontend_caches
        built = {}
        built_vec = {}
        M_objs = None
        earlier = []
        dt = 1e-3
        for i, s in enumerate(steps):
            name = s['model']
            try:
                if name == 'M_objects':
                    if M_objs is None:
                        tM, M_objs = build.build_python(M)
                        built['M'] = tM
                    from vp.props.c07 import rebuild_from_objects
                    spec_i = M
                    compile_op = s['op'] in ('get_run_func', 'get_jacobian_func', 'run')
                    vflag = False if s['op'] == 'get_jacobian_func' else s['vectorize']
                    stale = compile_op and 'M_objects' in built and built_vec.get('M_objects', vflag) != vflag
                    tmpl = (None if stale else built.get('M_objects')) or rebuild_from_objects(M, M_objs)
                    built['M_objects'] = tmpl
                    if compile_op:
                        built_vec['M_objects'] = vflag
                else:
                    spec_i = models[name]
                    compile_op = s['op'] in ('get_run_func', 'get_jacobian_func', 'run')
                    vflag = False if s['op'] == 'get_jacobian_func' else s['vectorize']
                    # a template object that was compiled with another vectorize setting carries state keyed by backend
                    # names (documented statefulness, C14 finding): use a fresh object for such a step
                    stale = compile_op and name in built and built_vec.get(name, vflag) != vflag
                    if s['op'] == 'construct' or name not in built or stale:
                        tmpl, objs = build.build_python(spec_i)
                        built[name] = tmpl
                        if name == 'M':
                            M_objs = objs
                    tmpl = built[name]
                    if compile_op:
                        built_vec[name] = vflag
                if s['op'] == 'construct':
                    pass
                elif s['op'] == 'update_var':
                    refi = RefModel(spec_i)
                    ck = [k for k in refi.param_keys if refi.kind[k] == 'const']
                    if ck:
                        tmpl.update_var(node_vars={'/'.join(ck[0]): 0.4321})
                elif s['op'] in ('get_run_func', 'get_jacobian_func'):
                    mech['hist_compiles'] = mech.get('hist_compiles', 0) + 1
                    if not s['clear']:
                        mech['hist_no_clear_compiles'] = mech.get('hist_no_clear_compiles', 0) + 1
                    kw = dict(step_size=dt, vectorize=s['vectorize'], verbose=False, clear=s['clear'], in_place=s['in_place'],
                              float_precision='float64', file_name=f'hist_{i}')
                    if s['op'] == 'get_run_func':
                        f, a, nms, sm = tmpl.get_run_func(f'vf{i}', **kw)
                        y = np.asarray(a[1], dtype=float) * 0.9 + 0.05
                        v0 = np.array(f(0, y.copy(), *a[2:]), dtype=float, copy=True)
                        earlier.append((i, name, f, a, y, v0))
                    else:
                        tmpl.get_jacobian_func(f'jac{i}', **{**kw, 'vectorize': False})
                    if s['in_place']:
                        built.pop(name, None)        # an in-place compiled template is not re-used by the harness
                elif s['op'] == 'run':
                    mech['hist_compiles'] = mech.get('hist_compiles', 0) + 1
                    if not s['clear']:
                        mech['hist_no_clear_compiles'] = mech.get('hist_no_clear_compiles', 0) + 1
                    refi = RefModel(spec_i)
                    k0 = refi.state_keys[0]
                    tmpl.run(simulation_time=4 * dt, step_size=dt, outputs={'o': '/'.join(k0)}, vectorize=s['vectorize'],
                             verbose=False, clear=s['clear'], in_place=s['in_place'], float_precision='float64')
                    if s['in_place']:
                        built.pop(name, None)
                elif s['op'] == 'clear':
                    pr_clear(tmpl)
                elif s['op'] == 'clear_frontend_caches':
                    clear_frontend_caches()
                elif s['op'] == 'failing_compile':
                    mech['hist_exceptions'] = mech.get('hist_exceptions', 0) + 1
                    try:
                        tmpl.run(simulation_time=4 * dt, step_size=dt, outputs={'o': 'no_such_node/op/x'}, vectorize=s['vectorize'],
                                 verbose=False, clear=s['clear'], in_place=False, float_precision='float64')
                    except Exception:
                        pass
                if name == 'same_opname':
                    mech['hist_same_opname'] = mech.get('hist_same_opname', 0) + 1
                if name in ('M_objects', 'M'):
                    mech['hist_same_objects'] = mech.get('hist_same_objects', 0) + 1
            except Exception as e:
                # a history step that fails is itself a dependence on earlier steps (each step works in a fresh process)
                import traceback
                raise observe.Mismatch(f"loud: history step {i} {s} raised {type(e).__name__}: {e} :: {traceback.format_exc()[-300:]}")
        # ---- observe M after the history --------------------------------------------------------------------------
        try:
            after = observe_M(M, case['cseed'])
        except Exception as e:
            import traceback
            raise observe.Mismatch(f"loud: probe model fails after history {[(s['op'], s['model'], s['clear'], s['vectorize']) for s in steps]}: "
                                   f"{type(e).__name__}: {e} :: {traceback.format_exc()[-300:]}")
        d = first_diff(fresh, after)
        mech['observations_compared'] = 1
        if d:
            raise observe.Mismatch(f"observation of the probe model differs from the pristine one at {d}; history "
                                   f"{[(s['op'], s['model'], 'clear' if s['clear'] else 'noclear', 'vec' if s['vectorize'] else 'novec') for s in steps]}")
        for (i, name, f, a, y, v0) in earlier:
            try:
                v1 = np.array(f(0, y.copy(), *a[2:]), dtype=float, copy=True)
            except Exception as e:
                raise observe.Mismatch(f"loud: function returned by history step {i} ({name}) no longer callable: {type(e).__name__}: {e}")
            mech['earlier_functions_rechecked'] = mech.get('earlier_functions_rechecked', 0) + 1
            if not np.array_equal(v0, v1):
                raise observe.Mismatch(f"function returned by history step {i} ({name}) now returns {v1[:4].tolist()} instead of {v0[:4].tolist()}")
        res.update(status='ok', symptom='', mech=mech)
        res['sample'] = {'history': [(s['op'], s['model'], s['clear'], s['in_place'], s['vectorize']) for s in steps],
                         'probe_nodes': RefModel(M).node_order, 'caches_after': cache_snapshot()}
    except observe.Mismatch as e:
        s_ = str(e)
        res.update(status='violation', symptom=('silent: ' if 'loud' not in s_ else '') + s_, mech=mech, spec=models,
                   caches=cache_snapshot())
    return res


def cache_snapshot():
    """M-cache: sizes of the process-global caches (recorded in replay files / samples)"""
    out = {}
    try:
        from pyrates.frontend.template.operator import OperatorTemplate
        import pyrates.ir.node as irn
        import pyrates.ir.circuit as irc
        import pyrates.frontend.template.circuit as ftc
        import pyrates.backend.parser as prs
        import pyrates.backend.base.base_backend as bb
        import pyrates.frontend.template as ft
        import sys
        out = {'OperatorTemplate.cache': sorted(OperatorTemplate.cache), 'node_cache': len(irn.node_cache), 'op_cache': len(irn.op_cache),
               'node_labels': dict(irn.node_labels), 'in_edge_indices': dict(irc.in_edge_indices), 'in_edge_vars': len(irc.in_edge_vars),
               'input_labels': dict(ftc.input_labels), 'sympify_cache': len(prs._sympify_cache),
               'compiled_module_cache': len(bb._compiled_module_cache), 'template_cache': len(getattr(ft, 'template_cache', {})),
               'generated_modules': sorted(m for m in sys.modules if m.startswith('hist_') or m.startswith('pyrates_')),
               'cwd_files': sorted(os.listdir('.'))[:20]}
    except Exception as e:
        out['error'] = repr(e)
    return out


# MANIFEST-BEGIN
MANIFEST = {
    'technique': 'history monitor: observation of a probe model in a pristine forked process vs after a generated prefix of public API calls in another pristine process; re-evaluation of every function returned during the prefix; snapshots of the process-global caches',
    'level_text': 'For each case a probe model is observed (argument names and values, state map, RHS at probe points for vectorize on/off, a short run) in a pristine process and again after a generated history of API calls on models that share an operator name, template objects or the operator structure with it (compiles with clear True/False, in_place True/False, vectorize True/False, clear(), clear_frontend_caches(), failing compiles); the two observations must be identical and every function returned during the history must still return its original values. Histories whose risk class has an open finding run as probe families. A further family shares sub-circuit template objects over three hierarchy levels between the probe model and another circuit that is modified through one branch (update_var), compiled and run before the probe model is observed. Further families: simulations with long extrinsic inputs after earlier simulations with similar inputs; the same template object compiled vectorized and then scalar (and vice versa) with clear=True in between; Fortran builds one after the other under the same file name and with alternating float precision; operators that differ only in interior elements of constant vectors of more than 1000 elements; probe family: a circuit loaded from YAML, modified with update_var and loaded again from the same path (recorded finding). A family compiles a model with a list-valued constant default on several nodes two or three times in one process. Held on observed histories only.',
    'level_note': 'Trusted: fork() gives a pristine copy of a zygote that imported PyRates but never called it. Fresh template objects are used for the probe model (template state carry-over is documented statefulness).',
}
# MANIFEST-END
