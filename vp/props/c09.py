"""C09 - Discrete edge delays shift the source by round(delay/dt) steps."""
import random

import numpy as np

from vp import gen, observe, monitors
from vp.ref import RefModel
from vp.runner import open_risks, stable_hash
from vp.props import c04

PID = 'C09'
LEVEL = 'exploration'
RULE = ("seeded circuits (several nodes per type, hierarchy 0-2) in which a random subset of edges carries a delay that rounds "
        "to 2..9 steps (incl. non-integer multiples of dt away from rounding ties), mixed with undelayed edges, several delays "
        "per source variable, shared sources and targets, vectorize on/off; Euler trajectories of all state variables are "
        "compared with the reference recurrence that delivers source[k - round(d/dt)] (zero before the start) scaled by the "
        "weight; M-delay records the branch taken; family matrix: Population/Connectivity circuits with delayed matrix edges;  non-trivial = at least one delayed edge whose source is not constant; "
        "distinct = distinct spec hash")
DECIDING = ['rows_compared', 'delayed_edges', 'vectorized_runs', 'several_delays_per_source',     # ('mixed_delay_sources': counted, a few per quick run)
            'matrix_delayed_edges', 'matrix_delays_off_grid']
ASSUMPTIONS = ['main sweep: delays round to at least two steps; delays that round to ONE step are a probe family of the recorded finding F-C09-one-step-delay',
               'zero pre-history of the ring buffer', 'Euler solver (one RHS call per step)']
CASE_TIMEOUT = 240
FOCUS = ['one_step_delay', 'undelayed_shares_source_with_delayed', 'two_delayed_same_pair', 'delay_heun',
         'delayed_source_op_has_intra_consumer', 'two_delayed_source_vars_same_op']


def plan(tier, seed):
    rnd = random.Random(f'{PID}-{seed}')
    n = 200 if tier == 'quick' else 5000
    cases = [{'family': 'main', 'cseed': rnd.randrange(1 << 30)} for _ in range(n)]
    opened = open_risks(PID)
    k = 10 if tier == 'quick' else 100
    for feat in FOCUS:
        fam = 'probe:' + feat if feat in opened else 'main'
        cases += [{'family': fam, 'cseed': rnd.randrange(1 << 30), 'want': feat} for _ in range(k)]
    # matrix (Connectivity) edges with discrete delays on and off the step grid (machinery shared with C16)
    cases += [{'family': 'matrix', 'cseed': rnd.randrange(1 << 30)} for _ in range(40 if tier == 'quick' else 1000)]
    # all delayed edges of the model share one delay - the usual way delays are specified
    cases += [{'family': 'uniform_delay', 'cseed': rnd.randrange(1 << 30)} for _ in range(40 if tier == 'quick' else 1000)]
    # one source variable with delayed edges into three or four different target groups (vectorized: several edge groups share the
    # source's delay buffer)
    cases += [{'family': 'fan_out_groups', 'cseed': rnd.randrange(1 << 30)} for _ in range(24 if tier == 'quick' else 500)]
    return cases


def warmup(ctx):
    import pyrates  # noqa
    import mpmath
    mpmath.mp.dps = 40
    ctx['mp'] = mpmath
    ctx['open_risks'] = open_risks(PID)
    ctx['excluded'] = open_risks('C04') | open_risks('C01')
    monitors.install()


def delay_risks(spec, solver):
    from vp.ref import _walk
    risk = set()
    _, edges = _walk(spec['circ'])
    by_src = {}
    pairs = {}
    for s, t, et, a in edges:
        by_src.setdefault(s, []).append(bool(a.get('delay')))
        if a.get('delay'):
            pairs[(s, t)] = pairs.get((s, t), 0) + 1
    # vectorized merging: sources are merged per (group, op, var); be conservative and use the (op, var) name
    by_srcvar = {}
    for s, t, et, a in edges:
        by_srcvar.setdefault(tuple(s.rsplit('/', 2)[1:]), []).append(bool(a.get('delay')))
    if any(any(v) and not all(v) for v in by_srcvar.values()):
        risk.add('undelayed_shares_source_with_delayed')
    if any(v > 1 for v in pairs.values()):
        risk.add('two_delayed_same_pair')
    if solver == 'heun' and any(a.get('delay') for _, _, _, a in edges):
        risk.add('delay_heun')
    # the operator that owns a delayed source variable gets its `output` re-pointed to the buffered variable
    nodes = dict(_walk(spec['circ'])[0])
    dvars_per_op = {}
    for s, t, et, a in edges:
        if not a.get('delay'):
            continue
        sn, so, sv = s.rsplit('/', 2)
        dvars_per_op.setdefault(so, set()).add(sv)    # per operator NAME: vectorization merges nodes of one type
        ops = spec['node_types'][nodes[sn]]['ops']
        outv = [v for v, d in spec['ops'][so]['vars'].items() if d[0] == 'out'][0]
        consumers = [o for o in ops if o != so and spec['ops'][o]['vars'].get(outv, [None])[0] == 'in']
        if consumers:
            risk.add('delayed_source_op_has_intra_consumer')
    if any(len(v) > 1 for v in dvars_per_op.values()):
        risk.add('two_delayed_source_vars_same_op')
    # a delay that rounds to exactly ONE step (0.5 dt <= d < 1.5 dt)
    if any(a.get('delay') and round(float(a['delay']) / 1e-3) == 1 for _, _, _, a in edges):
        risk.add('one_step_delay')
    return risk


def make_case(case, ctx):
    if case.get('spec') is not None:
        spec = case['spec']
        solver = case.get('solver', 'euler')
        vec = case.get('vec', False)
    else:
        rnd = random.Random(case['cseed'])
        want = case.get('want')
        dt = 1e-3
        for attempt in range(400):
            if case.get('family') == 'fan_out_groups':
                # one (merged) source variable with delayed edges into three or four different target node types
                spec = gen.gen_fanout_net(rnd)
            else:
                spec, _, _ = c04.make_spec({'cseed': rnd.randrange(1 << 30)}, ctx['excluded'])
            from vp.ref import _walk
            edges = spec['circ'].get('edges', [])
            if not edges:
                continue
            pfrac = rnd.choice([0.3, 0.6, 1.0]) if case.get('family') != 'fan_out_groups' else 1.0
            nd = 0
            uniform = case.get('family') == 'uniform_delay'
            common = round((rnd.randint(2, 9) + rnd.choice([0.0, 0.0, 0.3, -0.3, 0.45])) * dt, 7)
            for e in edges:
                if rnd.random() < pfrac:
                    d = rnd.randint(2, 9)
                    frac = rnd.choice([0.0, 0.0, 0.3, -0.3, 0.45])
                    e[3]['delay'] = round((d + frac) * dt, 7) if not uniform else common
                    nd += 1
            if want == 'one_step_delay':
                # all delayed edges of the model are one-step delays (so that no other delay mechanism is involved)
                nd = 0
                for e in edges:
                    e[3].pop('delay', None)
                for e in rnd.sample(edges, rnd.randint(1, min(2, len(edges)))):
                    e[3]['delay'] = round(rnd.choice([0.6, 1.0, 1.0, 1.4]) * dt, 7)
                    nd += 1
            if want == 'two_delayed_same_pair' and edges:
                e = rnd.choice(edges)
                e[3]['delay'] = 3 * dt
                edges.append([e[0], e[1], None, {'weight': 0.77, 'delay': 5 * dt}])
                nd += 1
            if nd == 0:
                continue
            solver = 'heun' if want == 'delay_heun' else 'euler'
            vec = rnd.random() < 0.5 or case.get('family') == 'fan_out_groups'
            r2 = delay_risks(spec, solver) | c04.vec_risks(spec)
            f, r = gen.features(spec)
            r2 |= set(r) - {'vec_partial_input_default'}
            if want and want not in r2:
                continue
            if ((set(ctx['open_risks']) | ctx['excluded']) - {want}) & r2:
                continue
            break
        else:
            raise RuntimeError('generator could not satisfy the constraints')
    f, r = gen.features(spec)
    r = sorted((set(r) - {'vec_partial_input_default'}) | delay_risks(spec, solver) | c04.vec_risks(spec))
    return spec, f, r, solver, vec


def run_matrix_case(case, ctx):
    """PopulationTemplate/Connectivity circuit whose connections carry discrete delays (no spread, no coupling function):
    population outputs against the reference recurrence of the explicit network (vp/props/c16.py does the comparison)."""
    from vp.props import c16
    if case.get('spec') is not None:
        return c16.run_case(case, ctx)
    rnd = random.Random(case['cseed'])
    opened16 = open_risks('C16')
    # half of the cases: an undelayed and a delayed connection leave the SAME source variable (the undelayed one must keep reading the
    # current value)
    want_shared = rnd.random() < 0.5
    for attempt in range(600):
        plan_, risk = c16.gen_pop_case(rnd, 'conn_mixed_delay_same_source' if want_shared else 'conn_delay', opened16)
        dl = [c for c in plan_['conns'] if c.get('delay')]
        shared = any(tuple(c1['source']) == tuple(c2['source']) and c1.get('delay') and not c2.get('delay')
                     for c1 in plan_['conns'] for c2 in plan_['conns'])
        if want_shared and not shared and attempt < 500:
            continue
        if dl and not plan_.get('dde_approx') and not any(c.get('spread') or c['kind'] == 'coupling' for c in plan_['conns']):
            break
    else:
        raise RuntimeError('generator could not satisfy the constraints')
    res = c16.run_case({'cseed': case['cseed'], 'spec': plan_, 'case_risk': []}, ctx)
    res['risk'] = []
    res['case_extra'] = {'case_risk': []}
    m = res.setdefault('mech', {})
    m['matrix_delayed_edges'] = len(dl)
    if shared:
        m['undelayed_and_delayed_connection_share_source'] = 1
    m['matrix_delays_off_grid'] = sum(1 for c in dl if c.get('off_grid'))
    m['delayed_edges'] = m.get('delayed_edges', 0) + len(dl)
    res['features'] = list(res.get('features', [])) + ['matrix_delay']
    return res


def run_case(case, ctx):
    if case.get('family') == 'matrix':
        return run_matrix_case(case, ctx)
    spec, feats, risk, solver, vec = make_case(case, ctx)
    mech = {}
    res = {'features': feats + ['vec' if vec else 'novec', solver], 'risk': risk, 'sig': stable_hash([spec, vec, solver]),
           'case_extra': {'solver': solver, 'vec': vec}}
    try:
        ref = RefModel(spec)
        dl = [e for e in ref.edges if e['delay']]
        res['nontrivial'] = bool(dl)
        mech['delayed_edges'] = len(dl)
        srcs = {}
        for e in ref.edges:
            srcs.setdefault(e['src'], set()).add(round(float(e['delay']) / 1e-3) if e['delay'] else 0)
        if any(len(v) > 1 and 0 in v for v in srcs.values()):
            mech['mixed_delay_sources'] = 1
        if any(len(v - {0}) > 1 for v in srcs.values()):
            mech['several_delays_per_source'] = 1
        keys = list(ref.state_keys)[:12]
        outputs = {f'o{i}': '/'.join(k) for i, k in enumerate(keys)}
        dt, steps = 1e-3, 26
        monitors.reset()
        try:
            df = observe.run_model(spec, T=steps * dt, dt=dt, solver=solver, outputs=outputs, vectorize=vec)
        except Exception as e:
            import traceback
            raise observe.Mismatch(f"loud: run raised {type(e).__name__}: {e} :: {traceback.format_exc()[-600:]}")
        mon = monitors.collect()
        for k, v in mon['counters'].items():
            if k.startswith('mdelay') or k.startswith('medge'):
                mech[k] = mech.get(k, 0) + v
        exp = observe.ref_trajectory(ref, keys, steps, dt, heun=(solver == 'heun'))
        msg = observe.compare_traj(df.values, exp, rtol=1e-7)
        if msg == 'discard':
            res.update(status='discard', symptom='reference not finite', mech=mech)
            return res
        if msg:
            delays = sorted({round(float(e['delay']) / dt, 3) for e in dl})
            raise observe.Mismatch(f"{solver} trajectory with delayed edges (delays in steps {delays}, vectorize={vec}): {msg} "
                                   f"[columns {list(outputs.values())}]")
        mech['rows_compared'] = df.shape[0]
        if vec:
            mech['vectorized_runs'] = 1
        res.update(status='ok', symptom='', mech=mech)
        from vp.ref import _walk
        res['sample'] = {'edges': [[s, t, a] for s, t, _, a in _walk(spec['circ'])[1]], 'vectorize': vec, 'steps': steps}
    except observe.Mismatch as e:
        s = str(e)
        res.update(status='violation', symptom=('silent: ' if 'loud' not in s else '') + s, mech=mech, spec=spec)
    return res


# MANIFEST-BEGIN
MANIFEST = {
    'technique': 'reference-recurrence monitor on Euler trajectories of generated circuits with mixed delayed/undelayed edges',
    'level_text': 'Generated circuits with random subsets of delayed edges (2-9 steps, incl. delays that are not multiples of dt), shared sources and targets, vectorize on/off are simulated with Euler and every state variable trajectory is compared (1e-7) with the reference recurrence in which each edge delivers weight*source[k-round(d/dt)] with zero pre-history; an off-by-one in any buffer slot, a delay applied to the wrong edge or a shifted undelayed edge is an O(1) deviation because sources are non-constant. A uniform-delay family gives all delayed edges one common delay. Probe family: delays that round to exactly one step (recorded finding; the reference shifts by round(d/dt) for every delay). A matrix family runs Connectivity connections with delays through the machinery of C16. A fan_out_groups family lets one (merged) source variable project with delays into three or four different target node types. The matrix family asks in half of its cases for an undelayed and a delayed Connectivity that leave the same source variable. Held on observed circuits only.',
    'level_note': 'Trusted: vp/ref.py delay recurrence. Delays that round to one step are dropped by PyRates (recorded finding F-C09-one-step-delay, probe family); the main sweep uses 2-9 steps. Connectivity (matrix) delays: family `matrix` (population circuits with delayed weight-matrix / scalar-weight connections, delays on and off the step grid, compared unit by unit with the reference recurrence of the explicit network; generator and comparison shared with C16).',
}
# MANIFEST-END
