"""C20 - Unsupported requests fail loudly instead of returning numbers."""
import copy
import random
import warnings

import numpy as np

from vp import gen, observe, monitors, build
from vp.ref import RefModel
from vp.runner import open_risks, stable_hash

PID = 'C20'
LEVEL = 'exploration'
RULE = ("(i) the matrix backend in {default, torch, jax, fortran} x solver in {euler, heun, scipy, diffrax, bogus} x vectorize x "
        "delay kind in {none, discrete edge delay; plus shaped requests: discrete matrix delay, discrete next to gamma-kernel / undelayed connections, scalar and matrix edges, either declaration order} x sparse Jacobian, where 'unsupported' is DERIVED from the live classes "
        "(SUPPORTED_SOLVERS, SUPPORTS_EDGE_DELAY_BUFFER, SUPPORTS_SPARSE_JACOBIAN, _validate_backend_args); (ii) malformed variants "
        "of generated valid models: every declared variable removed in turn, every path component of every edge / output / input / "
        "update_var key misspelt in turn, reserved variable names, two outputs per operator, cyclic operator graph inside a node, "
        "node-level value for a missing operator or variable; oracle: unsupported or malformed => an exception is raised before any "
        "function or result is returned; for inputs and parameter updates addressed to a non-existent variable at least a warning; "
        "the check never asserts that a supported request succeeds; non-trivial = all; distinct = distinct (model, mutation) hash")
DECIDING = ['unsupported_combos', 'misspelt_edge_paths', 'misspelt_output_paths', 'misspelt_input_paths', 'misspelt_update_paths',
            'removed_variable', 'reserved_names', 'two_outputs', 'cyclic_node', 'missing_operator_value', 'shaped_delay_requests_refused', 'notices_after_earlier_compile']
ASSUMPTIONS = ['a supported combination that raises is not this property\'s business (C02)',
               'misspelling = appending "_zz" to one path component, which never names an existing object']
CASE_TIMEOUT = 300
FOCUS = ['misspelt_input_paths', 'misspelt_output_paths']


DELAY_SHAPES = ['matrix_discrete', 'matrix_discrete+matrix_gamma', 'edge_discrete+edge_gamma', 'matrix_discrete+matrix_undelayed',
                'edge_discrete+matrix_gamma']


def shaped_delay_circuit(shape, order):
    """network that needs a discrete-delay ring buffer (under a fixed-step solver) next to other connections; `order` decides
    whether the ring-buffer connection is declared first or last"""
    import numpy as np
    from pyrates import OperatorTemplate, NodeTemplate, CircuitTemplate
    from pyrates.frontend.template.population import PopulationTemplate, Connectivity
    first, second = shape.split('+') if '+' in shape else (shape, None)
    if first.startswith('matrix') and (second is None or second.startswith('matrix')):
        pops = {}
        for p in ('p1', 'p2'):
            op = OperatorTemplate(name=f'rate_{p}', equations=["r' = (-r + eta + s_in) / tau_r"],
                                  variables={'r': 'output(0.5)', 'eta': 2.0, 'tau_r': 0.1, 's_in': 'input(0.0)'})
            pops[p] = PopulationTemplate(name=p, node=NodeTemplate(name=f'node_{p}', operators=[op]), n=2,
                                         params={f'rate_{p}/r': [0.5, 1.5]})
        a, b = ('p1', 'p2') if order == 0 else ('p2', 'p1')
        conns = [Connectivity(source=f'{a}/rate_{a}/r', target=f'{b}/rate_{b}/s_in', weights=np.array([[0.0, 0.5], [0.7, 0.0]]),
                              delays=0.004)]
        if second == 'matrix_gamma':
            conns.append(Connectivity(source=f'{b}/rate_{b}/r', target=f'{a}/rate_{a}/s_in', weights=np.array([[0.2, 0.0], [0.0, 0.4]]),
                                      delays=0.005, spread=0.002))
        elif second == 'matrix_undelayed':
            conns.append(Connectivity(source=f'{b}/rate_{b}/r', target=f'{a}/rate_{a}/s_in', weights=np.array([[0.2, 0.0], [0.0, 0.4]])))
        if order == 1:
            conns = conns[::-1]
        return CircuitTemplate(name='shaped', populations=pops, connections=conns), {'x': f'{b}/rate_{b}/r'}
    if shape == 'edge_discrete+edge_gamma':
        src = OperatorTemplate(name='src', equations=["s' = -s + 0.1"], variables={'s': 'output(0.3)'})
        tgt = OperatorTemplate(name='tgt', equations=["x' = -x + u"], variables={'x': 'output(0.1)', 'u': 'input(0.0)'})
        # structurally different second pair, so that vectorization does not merge the two source variables (a merged source
        # with both kinds of delay is the recorded finding F-C11-discrete-and-gamma-same-source)
        src2 = OperatorTemplate(name='src2', equations=["s' = -0.5*s + 0.2"], variables={'s': 'output(0.4)'})
        tgt2 = OperatorTemplate(name='tgt2', equations=["x' = -2.0*x + u"], variables={'x': 'output(0.2)', 'u': 'input(0.0)'})
        nodes = {'a': NodeTemplate(name='na', operators=[src]), 'a2': NodeTemplate(name='na2', operators=[src2]),
                 'b': NodeTemplate(name='nb', operators=[tgt]), 'b2': NodeTemplate(name='nb2', operators=[tgt2])}
        edges = [('a/src/s', 'b/tgt/u', None, {'weight': 2.0, 'delay': 0.004}),
                 ('a2/src2/s', 'b2/tgt2/u', None, {'weight': 1.5, 'delay': 0.005, 'spread': 0.002})]
        if order == 1:
            edges = edges[::-1]
            nodes = dict(reversed(list(nodes.items())))
        return CircuitTemplate(name='shaped', nodes=nodes, edges=edges), {'x': 'b/tgt/x'}
    if shape == 'edge_discrete+matrix_gamma':
        op = OperatorTemplate(name='rate_p1', equations=["r' = (-r + eta + s_in) / tau_r"],
                              variables={'r': 'output(0.5)', 'eta': 2.0, 'tau_r': 0.1, 's_in': 'input(0.0)'})
        pops = {'p1': PopulationTemplate(name='p1', node=NodeTemplate(name='node_p1', operators=[op]), n=2, params={'rate_p1/r': [0.5, 1.5]})}
        conns = [Connectivity(source='p1/rate_p1/r', target='p1/rate_p1/s_in', weights=np.array([[0.2, 0.0], [0.0, 0.4]]),
                              delays=0.005, spread=0.002)]
        src = OperatorTemplate(name='src', equations=["s' = -s + 0.1"], variables={'s': 'output(0.3)'})
        tgt = OperatorTemplate(name='tgt', equations=["x' = -x + u"], variables={'x': 'output(0.1)', 'u': 'input(0.0)'})
        nodes = {'a': NodeTemplate(name='na', operators=[src]), 'b': NodeTemplate(name='nb', operators=[tgt])}
        edges = [('a/src/s', 'b/tgt/u', None, {'weight': 2.0, 'delay': 0.004})]
        return CircuitTemplate(name='shaped', nodes=nodes, edges=edges, populations=pops, connections=conns), {'x': 'b/tgt/x'}
    raise ValueError(shape)


def plan(tier, seed):
    rnd = random.Random(f'{PID}-{seed}')
    cases = []
    backends = ['default', 'torch', 'jax', 'fortran']
    combos = []
    for b in backends:
        for solver in ['euler', 'heun', 'scipy', 'diffrax', 'rk4_bogus']:
            for vec in (False, True):
                for delay in (False, True):
                    combos.append({'kind': 'combo', 'backend': b, 'solver': solver, 'vec': vec, 'delay': delay})
        combos.append({'kind': 'sparse_jac', 'backend': b})
        # richer shapes of "needs a discrete-delay ring buffer": other delayed connections in the same network, before or
        # after the ring-buffer connection, scalar or matrix (Connectivity) edges
        for solver in ['euler', 'heun']:
            for shape in DELAY_SHAPES:
                for order in (0, 1):
                    combos.append({'kind': 'combo', 'backend': b, 'solver': solver, 'vec': True, 'delay': True, 'shape': shape,
                                   'order': order})
    rnd.shuffle(combos)
    n_combo = 36 if tier == 'quick' else len(combos)
    if tier == 'quick':
        # always include the shaped ring-buffer requests (supported ones are skipped without compiling)
        combos.sort(key=lambda c: 0 if c.get('shape') else 1)
        n_combo += sum(1 for c in combos if c.get('shape'))
    for c in combos[:n_combo]:
        c.update(family='main', cseed=rnd.randrange(1 << 30))
        cases.append(c)
    # solver names that are NOT in the supported list but close to one that is (case, white space, method names)
    for b in backends:
        for solver in ['Euler', 'EULER', 'Heun', 'SciPy', 'Diffrax', 'euler ', 'rk45', 'RK45', '']:
            if tier == 'quick' and rnd.random() < 0.4:
                continue
            cases.append({'kind': 'combo', 'backend': b, 'solver': solver, 'vec': False, 'delay': False, 'family': 'main',
                          'cseed': rnd.randrange(1 << 30), 'near_miss': True})
    kinds = ['misspelt_edge_paths', 'misspelt_output_paths', 'misspelt_input_paths', 'misspelt_update_paths', 'removed_variable',
             'reserved_names', 'two_outputs', 'cyclic_node', 'missing_operator_value', 'population_param_missing_variable', 'edge_values_missing_edge', 'unknown_backend', 'overlong_path']
    opened = open_risks(PID)
    n = 24 if tier == 'quick' else 500
    for k in kinds:
        fam = 'probe:' + k if k in opened else 'main'
        for _ in range(n):
            cases.append({'family': fam, 'kind': k, 'cseed': rnd.randrange(1 << 30)})
    fam = 'probe:removed_variable_declared_elsewhere' if 'removed_variable_declared_elsewhere' in opened else 'main'
    for _ in range(n):
        cases.append({'family': fam, 'kind': 'removed_variable', 'shadowed': True, 'cseed': rnd.randrange(1 << 30)})
    return cases


def warmup(ctx):
    import pyrates  # noqa
    ctx['open_risks'] = open_risks(PID)
    ctx['excluded'] = open_risks('C01')
    monitors.install()


def backend_class(name):
    if name == 'torch':
        from pyrates.backend.torch import TorchBackend
        return TorchBackend
    if name == 'jax':
        from pyrates.backend.jax import JaxBackend
        return JaxBackend
    if name == 'fortran':
        from pyrates.backend.fortran import FortranBackend
        return FortranBackend
    from pyrates.backend.base import BaseBackend
    return BaseBackend


def small_model(rnd, ctx, n_nodes=None, want_edges=True):
    for _ in range(200):
        spec, feats, risk = gen.gen_net(rnd, pool=gen.SAFE_POOL, n_nodes=n_nodes or rnd.choice([2, 3]), max_types=2, depth=rnd.choice([0, 0, 1]),
                                        forbid=ctx['excluded'], edge_density=0.6)
        if want_edges and not spec['circ'].get('edges') and not any(s.get('edges') for s in spec['circ'].get('subs', {}).values()):
            continue
        return spec
    return spec


def run_case(case, ctx):
    rnd = random.Random(case['cseed'])
    kind = case['kind']
    mech = {}
    res = {'features': [kind], 'risk': [kind] if kind in FOCUS or kind.startswith('misspelt') else [], 'nontrivial': True,
           'sig': stable_hash({k: v for k, v in case.items() if k not in ('idx',)})}
    try:
        if kind == 'combo':
            msg = combo_case(case, ctx, rnd, mech, res)
        elif kind == 'sparse_jac':
            msg = sparse_case(case, ctx, rnd, mech, res)
        else:
            msg = malformed_case(case, ctx, rnd, mech, res)
    except observe.Mismatch as e:
        msg = str(e)
    if msg:
        res.update(status='violation', symptom='silent: ' + msg, mech=mech)
    else:
        res.update(status='ok', symptom='', mech=mech)
    return res


def combo_case(case, ctx, rnd, mech, res):
    from pyrates import OperatorTemplate, NodeTemplate, CircuitTemplate
    cls = backend_class(case['backend'])
    supported_solver = case['solver'] in cls.SUPPORTED_SOLVERS
    unsupported = []
    if not supported_solver:
        unsupported.append(f"solver {case['solver']} not in {cls.__name__}.SUPPORTED_SOLVERS {cls.SUPPORTED_SOLVERS}")
    try:
        CircuitTemplate._validate_backend_args(case['backend'], case['vec'], run=True)
    except Exception as e:
        unsupported.append(f"_validate_backend_args rejects (backend={case['backend']}, vectorize={case['vec']})")
    fixed_step = case['solver'] in ('euler', 'heun')
    if case['delay'] and fixed_step and not getattr(cls, 'SUPPORTS_EDGE_DELAY_BUFFER', True):
        unsupported.append(f"{cls.__name__}.SUPPORTS_EDGE_DELAY_BUFFER is False and a discrete delay ring buffer is needed")
    res['features'] += [case['backend'], case['solver'], 'vec' if case['vec'] else 'novec', 'delay' if case['delay'] else 'nodelay']
    res['sample'] = {'combo': {k: case.get(k) for k in ('backend', 'solver', 'vec', 'delay', 'shape', 'order')},
                     'unsupported_because': unsupported}
    if not unsupported:
        mech['supported_combos_skipped'] = 1
        return None
    src = OperatorTemplate(name='src', equations=["s' = -s + 0.1"], variables={'s': 'output(0.3)'})
    tgt = OperatorTemplate(name='tgt', equations=["x' = -x + u"], variables={'x': 'output(0.1)', 'u': 'input(0.0)'})
    attrs = {'weight': 2.0}
    if case['delay']:
        attrs['delay'] = 0.004
    outputs = {'x': 'b/tgt/x'}
    if case.get('shape'):
        res['features'].append('shape:' + case['shape'])
        mech['shaped_delay_requests'] = 1
        c, outputs = shaped_delay_circuit(case['shape'], case['order'])
    else:
        c = CircuitTemplate(name='c', nodes={'a': NodeTemplate(name='na', operators=[src]), 'b': NodeTemplate(name='nb', operators=[tgt])},
                            edges=[('a/src/s', 'b/tgt/u', None, attrs)])
    try:
        with warnings.catch_warnings():
            warnings.simplefilter('ignore')
            out = c.run(simulation_time=0.01, step_size=1e-3, solver=case['solver'], backend=case['backend'], vectorize=case['vec'],
                        outputs=outputs, verbose=False, float_precision='float64', clear=True)
    except BaseException as e:  # noqa
        if isinstance(e, (KeyboardInterrupt, SystemExit)):
            raise
        mech['unsupported_combos'] = 1
        if case.get('near_miss'):
            mech['near_miss_solver_names_refused'] = 1
        if case.get('shape'):
            mech['shaped_delay_requests_refused'] = 1
        res['sample']['raised'] = f'{type(e).__name__}: {str(e)[:120]}'
        return None
    return (f"unsupported request (backend={case['backend']}, solver={case['solver']}, vectorize={case['vec']}, "
            f"delay={case['delay']}) returned a result of shape {getattr(out, 'shape', None)} instead of raising; unsupported because: {unsupported}")


def sparse_case(case, ctx, rnd, mech, res):
    from pyrates import OperatorTemplate, NodeTemplate, CircuitTemplate
    cls = backend_class(case['backend'])
    res['features'] += [case['backend'], 'sparse']
    if getattr(cls, 'SUPPORTS_SPARSE_JACOBIAN', True):
        mech['supported_combos_skipped'] = 1
        return None
    op = OperatorTemplate(name='op', equations=["x' = -x + z", "z' = -z"], variables={'x': 'output(0.3)', 'z': 'variable(0.2)'})
    c = CircuitTemplate(name='c', nodes={'a': NodeTemplate(name='na', operators=[op])})
    try:
        with warnings.catch_warnings():
            warnings.simplefilter('ignore')
            c.get_jacobian_func('jac', step_size=1e-3, backend=case['backend'], vectorize=False, sparse=True, verbose=False)
    except Exception as e:
        mech['unsupported_combos'] = 1
        return None
    return f"sparse=True on backend {case['backend']} (SUPPORTS_SPARSE_JACOBIAN False) returned a function instead of raising"


def misspell(path, i):
    parts = path.split('/')
    parts[i] = parts[i] + '_zz'
    return '/'.join(parts)


def expect_raise(fn, what):
    """returns None if fn raises, message otherwise"""
    try:
        with warnings.catch_warnings(record=True) as w:
            warnings.simplefilter('always')
            out = fn()
    except Exception:
        return None
    return f"{what}: no exception was raised (returned {type(out).__name__})"


def expect_warn_or_raise(fn, what, prelude=None):
    """The notice must reach the user under the warning filters that are in force at that moment - also after earlier API calls
    (`prelude`: compile a valid model first) have installed their own filters; the check does not reset the filters."""
    try:
        with warnings.catch_warnings(record=True) as w:
            if prelude is None:
                warnings.simplefilter('always')
            else:
                warnings.resetwarnings()      # the interpreter's default filters (the harness itself silences warnings)
                prelude()                     # ... plus whatever the earlier API call installs
                del w[:]
            out = fn()
            if any('PyRates' in type(x.message).__name__ or 'not been found' in str(x.message) or 'not found' in str(x.message).lower()
                   or 'does not exist' in str(x.message).lower() for x in w):
                return None
    except Exception:
        return None
    return f"{what}: neither an exception nor a warning"


def malformed_case(case, ctx, rnd, mech, res):
    from pyrates import OperatorTemplate, NodeTemplate, CircuitTemplate
    kind = case['kind']
    spec = small_model(rnd, ctx)
    ref = RefModel(spec)
    dt = 1e-3
    okey = ref.state_keys[0]

    def run_with(spec_, outputs=None, inputs=None, pre=None):
        def f():
            t, _ = build.build_python(spec_)
            if pre:
                pre(t)
            return t.run(simulation_time=3 * dt, step_size=dt, solver='euler', outputs=outputs or {'o': '/'.join(okey)}, inputs=inputs,
                         vectorize=False, verbose=False, float_precision='float64', clear=True)
        return f
    res['sample'] = {'kind': kind}
    if kind == 'misspelt_edge_paths':
        from vp.ref import _walk
        # pick an edge in the top circuit or a sub circuit and misspell one component of source or target
        holders = []

        def walk(c):
            for i, e in enumerate(c.get('edges', [])):
                holders.append((c, i))
            for s in c.get('subs', {}).values():
                walk(s)
        s2 = copy.deepcopy(spec)
        walk(s2['circ'])
        c, i = rnd.choice(holders)
        which = rnd.choice([0, 1])
        comp = rnd.randrange(len(c['edges'][i][which].split('/')))
        c['edges'][i][which] = misspell(c['edges'][i][which], comp)
        res['sample']['mutation'] = c['edges'][i][:2]
        mech[kind] = 1
        return expect_raise(run_with(s2), f"edge with misspelt endpoint {c['edges'][i][:2]}")
    if kind == 'misspelt_output_paths':
        path = '/'.join(okey)
        comp = rnd.randrange(len(path.split('/')))
        bad = misspell(path, comp)
        form = rnd.choice(['dict', 'list'])
        res['sample']['mutation'] = bad
        mech[kind] = 1
        outs = {'o': bad} if form == 'dict' else [bad]
        # alone, or next to a valid output request (the valid one must not hide the invalid one)
        mixed = rnd.random() < 0.5
        if mixed:
            good = '/'.join(rnd.choice(ref.state_keys))
            outs = ({'g': good, 'o': bad} if rnd.random() < 0.5 else {'o': bad, 'g': good}) if form == 'dict' else \
                rnd.choice([[good, bad], [bad, good]])
            mech['misspelt_output_next_to_valid'] = 1
        return expect_raise(run_with(spec, outputs=outs), f"output request for non-existent variable {bad} ({form} form"
                                                           f"{', next to a valid output' if mixed else ''})")
    if kind == 'misspelt_input_paths':
        ins = [k for k in ref.param_keys if ref.kind[k] == 'in']
        if not ins:
            return None
        path = '/'.join(rnd.choice(ins))
        comp = rnd.randrange(len(path.split('/')))
        bad = misspell(path, comp)
        res['sample']['mutation'] = bad
        mech[kind] = 1
        pre = run_with(spec) if rnd.random() < 0.5 else None
        if pre:
            mech['notices_after_earlier_compile'] = mech.get('notices_after_earlier_compile', 0) + 1
        return expect_warn_or_raise(run_with(spec, inputs={bad: np.ones(3)}), f"extrinsic input addressed to non-existent variable {bad}"
                                    + (' (after an earlier valid run in the same process)' if pre else ''), prelude=pre)
    if kind == 'misspelt_update_paths':
        cs = [k for k in ref.param_keys if ref.kind[k] == 'const']
        path = '/'.join(rnd.choice(cs))
        comp = rnd.randrange(len(path.split('/')))
        bad = misspell(path, comp)
        res['sample']['mutation'] = bad
        mech[kind] = 1
        pre = run_with(spec) if rnd.random() < 0.5 else None
        if pre:
            mech['notices_after_earlier_compile'] = mech.get('notices_after_earlier_compile', 0) + 1
        return expect_warn_or_raise(run_with(spec, pre=lambda t: t.update_var(node_vars={bad: 0.5})),
                                    f"update_var addressed to non-existent variable {bad}"
                                    + (' (after an earlier valid run in the same process)' if pre else ''), prelude=pre)
    if kind == 'removed_variable':
        s2 = copy.deepcopy(spec)
        used_ops = sorted({o for n in ref.node_order for o in ref.nodes[n]['ops']})     # operators that are part of the model
        opn = rnd.choice(used_ops)
        from vp import expr as E
        used = set()
        for k, l, x in s2['ops'][opn]['eqs']:
            used |= E.variables(E.fromlist(x))
            used.add(l)
        cand = [v for v in s2['ops'][opn]['vars'] if v in used]
        elsewhere = {vv for o2 in used_ops if o2 != opn for vv in s2['ops'][o2]['vars']}
        shadowed = case.get('shadowed', False)
        cand2 = [v for v in cand if (v in elsewhere) == shadowed]
        if not cand2:
            return None
        v = rnd.choice(cand2)
        if shadowed:
            res['risk'] = ['removed_variable_declared_elsewhere']
        s2['ops'][opn]['vars'].pop(v)
        for nt in s2['node_types'].values():
            nt.get('over', {}).get(opn, {}).pop(v, None)
        # edges that touch the removed variable are removed too (the mutation under test is the undeclared name only)
        def strip(c):
            c['edges'] = [e for e in c.get('edges', []) if not (e[0].endswith(f'/{opn}/{v}') or e[1].endswith(f'/{opn}/{v}'))]
            for s_ in c.get('subs', {}).values():
                strip(s_)
        strip(s2['circ'])
        res['sample']['mutation'] = f'{opn}/{v} undeclared'
        mech[kind + ('_shadowed' if shadowed else '')] = 1
        ok = [k for k in RefModel(spec).state_keys if not (k[1] == opn and k[2] == v)]
        outs = {'o': '/'.join(ok[0])} if ok else None
        return expect_raise(run_with(s2, outputs=outs), f"equation of {opn} mentions undeclared variable {v}")
    if kind == 'reserved_names':
        name = rnd.choice(['y', 'dy', 'source_idx', 'target_idx', 'pi', 'E', 'I', 'exp', 'sin', 'sqrt', 'x_buffer', 'r_idx', 'u_hist'])
        op = OperatorTemplate(name='op', equations=[f"x' = -x + {name}"], variables={'x': 'output(0.3)', name: 0.5})
        # the reserved name as a plain declaration, or additionally carrying a node-level value (three routes)
        route = rnd.choice(['plain', 'plain', 'node_template', 'update_var', 'node_values'])
        nt = NodeTemplate(name='na', operators={op: {name: 0.75}}) if route == 'node_template' else NodeTemplate(name='na', operators=[op])
        nt2 = NodeTemplate(name='nb', operators=[op])
        c = CircuitTemplate(name='c', nodes={'a': nt, 'b': nt2})
        res['sample']['mutation'] = f'{name} ({route})'
        mech[kind] = 1
        mech['reserved_names_' + route] = 1

        def f():
            if route == 'update_var':
                c.update_var(node_vars={f'b/op/{name}': 0.75})
            kw = {'node_values': {f'b/op/{name}': 0.75}} if route == 'node_values' else {}
            return c.get_run_func('f', step_size=dt, vectorize=False, verbose=False, **kw)
        return expect_raise(f, f"reserved variable name {name} ({route})")
    if kind == 'two_outputs':
        op = OperatorTemplate(name='op', equations=["x' = -x + z", "z' = -z"], variables={'x': 'output(0.3)', 'z': 'output(0.2)'})
        c = CircuitTemplate(name='c', nodes={'a': NodeTemplate(name='na', operators=[op])})
        mech[kind] = 1
        return expect_raise(lambda: c.get_run_func('f', step_size=dt, vectorize=rnd.random() < 0.5, verbose=False), "operator with two outputs")
    if kind == 'cyclic_node':
        o1 = OperatorTemplate(name='o1', equations=["a = 0.5*b + x", "x' = -x"], variables={'a': 'output(0.0)', 'b': 'input(0.0)', 'x': 'variable(0.2)'})
        o2 = OperatorTemplate(name='o2', equations=["b = 0.5*a + z", "z' = -z"], variables={'b': 'output(0.0)', 'a': 'input(0.0)', 'z': 'variable(0.2)'})
        ops = [o1, o2]
        if rnd.random() < 0.5:
            o3 = OperatorTemplate(name='o3', equations=["q' = -q + a"], variables={'q': 'output(0.1)', 'a': 'input(0.0)'})
            ops.append(o3)
        c = CircuitTemplate(name='c', nodes={'n': NodeTemplate(name='nn', operators=ops)})
        mech[kind] = 1
        return expect_raise(lambda: c.get_run_func('f', step_size=dt, vectorize=rnd.random() < 0.5, verbose=False), "cyclic operator graph inside a node")
    if kind == 'unknown_backend':
        # a backend name that is none of the available ones (case variants, typos, white space)
        name = rnd.choice(['Fortran', 'FORTRAN', 'Torch', 'Jax', 'JAX', 'numpy ', 'nunpy', 'tensorflow', 'Default', 'fortran90', 'torch2'])
        vec = rnd.random() < 0.5
        res['sample']['mutation'] = name
        mech[kind] = 1

        def f():
            t, _ = build.build_python(spec)
            if rnd.random() < 0.5:
                return t.get_run_func('f', step_size=dt, vectorize=vec, verbose=False, backend=name)
            k0 = list(ref.state_keys)[0]
            return t.run(simulation_time=3 * dt, step_size=dt, outputs={'o': '/'.join(k0)}, vectorize=vec, verbose=False, backend=name)
        return expect_raise(f, f"backend name {name!r} is not an available backend")
    if kind == 'overlong_path':
        # an output / update path with one component too many (an extra wildcard or an extra name in front of the node)
        k0 = rnd.choice(list(ref.state_keys))
        parts = k0[0].split('/')
        how = rnd.choice(['extra_all', 'extra_all_wild', 'extra_name'])
        if how == 'extra_all':
            bad = '/'.join(['all'] + parts + [k0[1], k0[2]])
        elif how == 'extra_all_wild':
            bad = '/'.join(['all'] * (len(parts) + 1) + [k0[1], k0[2]])
        else:
            bad = '/'.join(parts + [parts[-1]] + [k0[1], k0[2]])
        res['sample']['mutation'] = bad
        mech[kind] = 1
        return expect_raise(run_with(spec, outputs={'o': bad}), f"output path {bad} is longer than the hierarchy (no such variable)")
    if kind == 'edge_values_missing_edge':
        # edge_values (apply / get_run_func / run) addressed to an edge that does not exist
        es = [e for e in ref.edges if not e.get('et')]
        if not es:
            return None
        e0 = rnd.choice(es)
        src, tgt = '/'.join(e0['src']), '/'.join(e0['tgt'])
        which = rnd.choice(['source', 'target', 'swapped'])
        key = (src + '_zz', tgt) if which == 'source' else (src, tgt + '_zz') if which == 'target' else (tgt, src)
        if which == 'swapped' and any(e['src'] == e0['tgt'] and e['tgt'] == e0['src'] for e in ref.edges):
            key = (src + '_zz', tgt)
        res['sample']['mutation'] = list(key)
        mech[kind] = 1

        def f():
            t, _ = build.build_python(spec)
            return t.get_run_func('f', step_size=dt, vectorize=False, verbose=False, edge_values={key: {'weight': 3.5}})
        return expect_warn_or_raise(f, f"edge_values addressed to a non-existent edge {key}")
    if kind == 'population_param_missing_variable':
        # a per-unit parameter of a PopulationTemplate addressed to a variable / operator that its node does not have
        from pyrates import OperatorTemplate, NodeTemplate, CircuitTemplate
        from pyrates.frontend.template import PopulationTemplate
        oname = rnd.choice(sorted(spec['ops']))
        ospec = spec['ops'][oname]
        cs_ = [v for v, d in ospec['vars'].items() if d[0] == 'const'] or list(ospec['vars'])
        v0 = rnd.choice(cs_)
        key = f'{oname}/{v0}_zz' if rnd.random() < 0.5 else f'{oname}_zz/{v0}'
        res['sample']['mutation'] = key
        mech[kind] = 1

        def f():
            node = NodeTemplate(name='pop_node', operators=[OperatorTemplate(**build.op_kwargs(oname, ospec))])
            n_ = rnd.choice([2, 3, 5])
            c = CircuitTemplate(name='popc', populations={'p': PopulationTemplate('p', node, n_, params={key: [0.5] * n_})})
            return c.get_run_func('f', step_size=dt, verbose=False)
        return expect_warn_or_raise(f, f"population parameter addressed to a non-existent variable ({key})")
    if kind == 'missing_operator_value':
        cs = [k for k in ref.param_keys if ref.kind[k] == 'const']
        k = rnd.choice(cs)
        which = rnd.choice(['op', 'var', 'node'])
        key = f'{k[0]}/{k[1]}_zz/{k[2]}' if which == 'op' else f'{k[0]}/{k[1]}/{k[2]}_zz' if which == 'var' else \
            misspell('/'.join(k), rnd.randrange(len(k[0].split('/'))))
        res['sample']['mutation'] = key
        mech[kind] = 1

        def f():
            t, _ = build.build_python(spec)
            return t.get_run_func('f', step_size=dt, vectorize=False, verbose=False, node_values={key: 0.5})
        if which == 'node':
            # a parameter value addressed to a node that does not exist: "at least reported by a warning, never silently dropped"
            mech['missing_node_value'] = 1
            pre = run_with(spec) if rnd.random() < 0.5 else None
            if pre:
                mech['notices_after_earlier_compile'] = mech.get('notices_after_earlier_compile', 0) + 1
            return expect_warn_or_raise(f, f"node-level value addressed to a non-existent node ({key})"
                                        + (' (after an earlier valid run in the same process)' if pre else ''), prelude=pre)
        return expect_raise(f, f"node-level value for non-existent {'operator' if which == 'op' else 'variable'} {key}")
    return None


# MANIFEST-BEGIN
MANIFEST = {
    'technique': 'fault-injection monitor: unsupported option combinations derived from the live backend classes and single-fault mutations of generated valid models; oracle observes exception / warning / return of each request',
    'level_text': 'The full backend x solver x vectorize x delay matrix (unsupported derived from SUPPORTED_SOLVERS, SUPPORTS_* flags and _validate_backend_args of the live classes) and single-fault mutations of generated valid models (each path component of edges, outputs, inputs and update_var keys misspelt, declared variables removed, reserved names, two outputs, cyclic node, node-level values for missing operators/variables/nodes; invalid outputs alone and next to valid ones; reserved names with and without node-level values) are submitted; an unsupported or malformed request must raise before anything is returned, inputs and parameter updates to non-existent variables must at least warn. Ring-buffer requests come in several shapes (scalar and matrix edges, next to gamma-kernel or undelayed connections, either declaration order). Invalid outputs are also requested next to valid ones, reserved names also carry node-level values, and notices must still reach the user under the default warning filters after an earlier valid run in the same process. Also: PopulationTemplate params and edge_values addressed to a variable / edge that does not exist (at least a warning). Unknown backend names, near-miss solver names and node paths that are longer than the hierarchy must raise. Held on observed requests only.',
    'level_note': 'The check never asserts that a supported combination succeeds. Torch / JAX / Fortran are imported inside the forked case process.',
}
# MANIFEST-END
