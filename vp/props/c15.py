"""C15 - YAML, Python and inherited definitions of a model are equivalent."""
import copy
import os
import random
import re

import numpy as np

from vp import gen, observe, monitors, build, expr as E
from vp.ref import RefModel
from vp.runner import open_risks, stable_hash

PID = 'C15'
LEVEL = 'exploration'
RULE = ("(A) the same generated spec (hierarchy 0-2, shared operators, per-node overrides, edge attributes) is built with the "
        "Python classes and from emitted YAML text: both must have the reference dynamics; (B) the Python-built template is "
        "written with to_yaml and loaded again: reference dynamics again; (C) a derived operator template (base: + edit dict "
        "with replace / remove / add / append / prepend and variable overrides, via YAML and via update_template) must contain "
        "exactly the equations produced by an independent tokenizer-based whole-identifier rewrite and have the dynamics of the "
        "edited spec; (D) parser.replace is compared with the tokenizer oracle on random equations over identifier sets that "
        "contain one another; non-trivial = model has an edge or an override (A, B) / edit hits an identifier that is part of a "
        "longer one (C, D); distinct = distinct (spec, mode) hash")
DECIDING = ['yaml_text_models', 'roundtrip_models', 'derived_templates', 'replace_calls', 'replace_nontrivial', 'derivatives_compared', 'two_variant_roundtrips', 'edit_dictionary_reused', 'three_or_more_variant_roundtrips', 'yaml_shared_update_models', 'rewritten_path_loads']
ASSUMPTIONS = ['equation edits address whole identifiers on right-hand sides (the left-hand side form x\' is a separate finding)']
CASE_TIMEOUT = 180
FOCUS = ['roundtrip_with_overrides', 'roundtrip_after_update_var', 'replace_lhs_prime', 'roundtrip_same_named_templates']
IDS = ['r', 'rr', 'r_in', 'r_in0', 'm_in2', 'm', 'x', 'xx', 'x_v1', 'k', 'k1', 'k10', 'a_b', 'ab', 'a', 'b', 'tau', 'tau_x', 'u', 'v']


def plan(tier, seed):
    rnd = random.Random(f'{PID}-{seed}')
    n = 150 if tier == 'quick' else 4000
    cases = []
    for _ in range(n):
        r = rnd.random()
        mode = 'yaml_text' if r < 0.35 else 'roundtrip' if r < 0.6 else 'derived' if r < 0.85 else 'replace'
        cases.append({'family': 'main', 'cseed': rnd.randrange(1 << 30), 'mode': mode})
    opened = open_risks(PID)
    k = 10 if tier == 'quick' else 100
    for feat in FOCUS:
        fam = 'probe:' + feat if feat in opened else 'main'
        mode = 'replace' if feat == 'replace_lhs_prime' else 'roundtrip'
        cases += [{'family': fam, 'cseed': rnd.randrange(1 << 30), 'want': feat, 'mode': mode} for _ in range(k)]
    # the part of "per-node overrides + shared operators" that works on the pinned tree: exactly two nodes that use the same
    # operators with different per-node values, no edges; the reloaded circuit is compared by value (operator names may change)
    cases += [{'family': 'two_variants', 'cseed': rnd.randrange(1 << 30), 'mode': 'two_variants'} for _ in range(30 if tier == 'quick' else 600)]
    cases += [{'family': 'yaml_shared_update', 'cseed': rnd.randrange(1 << 30), 'mode': 'yaml_shared_update'} for _ in range(20 if tier == 'quick' else 300)]
    cases += [{'family': 'rewrite', 'cseed': rnd.randrange(1 << 30), 'mode': 'rewrite'} for _ in range(16 if tier == 'quick' else 250)]
    cases += [{'family': 'circuit_derivation', 'cseed': rnd.randrange(1 << 30), 'mode': 'circuit_derivation'} for _ in range(16 if tier == 'quick' else 250)]
    return cases


def warmup(ctx):
    import pyrates  # noqa
    import mpmath
    mpmath.mp.dps = 40
    ctx['mp'] = mpmath
    ctx['open_risks'] = open_risks(PID)
    ctx['excluded'] = open_risks('C01')
    monitors.install()


# ---------------------------------------------------------------------------------------------------------------------
# tokenizer oracle for equation edits
# ---------------------------------------------------------------------------------------------------------------------
TOKEN = re.compile(r"[A-Za-z_][A-Za-z_0-9]*|\d+\.\d*(?:[eE][-+]?\d+)?|\.\d+(?:[eE][-+]?\d+)?|\d+(?:[eE][-+]?\d+)?|d/dt|\s+|.")


def tok_replace(eq, term, repl):
    """replace whole-identifier occurrences of `term` (an identifier) in eq"""
    out = []
    for t in TOKEN.findall(eq):
        out.append(repl if t == term else t)
    return ''.join(out)


def run_case(case, ctx):
    mode = case['mode']
    rnd = random.Random(case['cseed'])
    mech = {}
    res = {'features': [mode], 'risk': [], 'sig': None, 'nontrivial': True}
    try:
        if mode == 'replace':
            return case_replace(case, ctx, rnd, mech, res)
        if mode == 'derived':
            return case_derived(case, ctx, rnd, mech, res)
        if mode == 'two_variants':
            return case_two_variants(case, ctx, rnd, mech, res)
        if mode == 'yaml_shared_update':
            return case_yaml_shared_update(case, ctx, rnd, mech, res)
        if mode == 'rewrite':
            return case_rewrite(case, ctx, rnd, mech, res)
        if mode == 'circuit_derivation':
            return case_circuit_derivation(case, ctx, rnd, mech, res)
        return case_models(case, ctx, rnd, mech, res)
    except observe.Mismatch as e:
        s = str(e)
        res.update(status='violation', symptom=('silent: ' if 'loud' not in s else '') + s, mech=mech)
        return res


def case_replace(case, ctx, rnd, mech, res):
    """(D) parser.replace vs tokenizer oracle"""
    from pyrates.backend.parser import replace
    want = case.get('want')
    n_bad = 0
    first = None
    for i in range(60):
        ids = rnd.sample(IDS, rnd.randint(3, 7))
        terms = []
        for _ in range(rnd.randint(2, 6)):
            t = rnd.choice(ids)
            if rnd.random() < 0.3:
                t = f"{rnd.choice(['sin', 'tanh', 'sigmoid'])}({t})"
            if rnd.random() < 0.5:
                t = f"{round(rnd.uniform(0.1, 3), 2)}*{t}"
            if rnd.random() < 0.2:
                t = f"{t}^2"
            terms.append(t)
        rhs = terms[0]
        for t in terms[1:]:
            rhs += rnd.choice([' + ', ' - ', '+', '-', ' * ', '/']) + t
        lhs_var = rnd.choice(ids)
        lhs_style = rnd.choice(['d/dt * {}', "{}'", '{}'])
        if want != 'replace_lhs_prime' and 'replace_lhs_prime' in ctx['open_risks']:
            lhs_style = rnd.choice(['d/dt * {}', '{}'])
        eq = f"{lhs_style.format(lhs_var)} = {rhs}"
        term = rnd.choice(ids)
        repl = rnd.choice(['(q+1)', 'z9', f'({term}_new*2)', '0.5'])
        got = replace(eq, term, repl)
        exp = tok_replace(eq, term, repl)
        mech['replace_calls'] = mech.get('replace_calls', 0) + 1
        if any(term != o and term in o for o in ids):
            mech['replace_nontrivial'] = mech.get('replace_nontrivial', 0) + 1
        if got != exp:
            n_bad += 1
            first = first or f"replace({eq!r}, {term!r}, {repl!r}) = {got!r}, whole-identifier rewrite gives {exp!r}"
    res['sig'] = stable_hash(['replace', case['cseed']])
    if case.get('want') == 'replace_lhs_prime':
        res['risk'] = ['replace_lhs_prime']
    if first:
        raise observe.Mismatch(first + f" ({n_bad} of 60 differ)")
    res.update(status='ok', symptom='', mech=mech, sample={'mode': 'replace', 'calls': 60})
    return res


def check_dynamics(tmpl, spec, ctx, rnd, mech, label):
    ref = RefModel(spec)
    try:
        obs = observe.compile_vf(spec, vectorize=False, template=tmpl)
    except Exception as e:
        import traceback
        raise observe.Mismatch(f"loud: {label}: get_run_func raised {type(e).__name__}: {e} :: {traceback.format_exc()[-400:]}")
    try:
        observe.compare_vf(obs, ref, rnd, ctx['mp'], n_points=3, vectorized=False, mech=mech)
    except observe.Mismatch as e:
        raise observe.Mismatch(f"{label}: {e}")


def case_yaml_shared_update(case, ctx, rnd, mech, res):
    """(A') a YAML hierarchy of depth 2 in which one mid-level circuit template is referenced under two keys (the loader hands
    out one object for both); update_var on the loaded circuit addresses a variable below ONE key; the dynamics must be those of
    the definition with that single override."""
    from pyrates import CircuitTemplate, clear_frontend_caches
    if case.get('spec') is not None:
        spec = case['spec']
    else:
        for attempt in range(300):
            spec, feats, risk = gen.gen_net(rnd, pool=gen.SAFE_POOL, n_nodes=rnd.choice([3, 4, 5]), max_types=2, depth=2,
                                            same_type_bias=True, forbid=ctx['excluded'], edge_density=rnd.choice([0.0, 0.2]))
            subs = spec['circ']['subs']
            if not subs:
                continue
            first = list(subs)[0]
            if not subs[first].get('subs'):
                continue
            subs[first]['__share'] = 'shared0'
            subs[first + '_twin'] = subs[first]
            ref0 = RefModel(spec)
            cands = [k for k in ref0.kind if k[0].startswith(first + '/') and ref0.kind[k] == 'const']
            if not cands:
                continue
            n, op, v = rnd.choice(cands)
            spec['updates'] = [[f'{n}/{op}/{v}', round(rnd.uniform(1.5, 2.5), 4)]]
            break
        else:
            raise RuntimeError('generator could not satisfy the constraints')
    res['sig'] = stable_hash([spec, 'yaml_shared_update'])
    res['features'] += ['yaml_shared_update']
    res['nontrivial'] = True
    cwd = os.getcwd()
    base = {k: v for k, v in spec.items() if k != 'updates'}
    text, top = build.build_yaml_text(base)
    with open('model_su.yaml', 'w') as f:
        f.write(text)
    try:
        clear_frontend_caches()
        t_yaml = CircuitTemplate.from_yaml(f'{cwd}/model_su/{top}')
        for path, val in spec['updates']:
            t_yaml.update_var(node_vars={path: val})
    except Exception as e:
        res['spec'] = spec
        raise observe.Mismatch(f"loud: from_yaml / update_var of a hierarchy with a twice-referenced circuit raised {type(e).__name__}: {e}")
    try:
        check_dynamics(t_yaml, spec, ctx, rnd, mech, f"YAML hierarchy with a twice-referenced circuit after update_var({spec['updates'][0][0]})")
    except observe.Mismatch:
        res['spec'] = spec
        raise
    mech['yaml_shared_update_models'] = 1
    res.update(status='ok', symptom='', mech=mech, sample={'mode': 'yaml_shared_update', 'update': spec['updates']})
    return res


def case_circuit_derivation(case, ctx, rnd, mech, res):
    """(C') circuits derived from a CIRCUIT: `base: <circuit>` with additional edges in YAML, or update_template(edges=...) in Python.
    Two derived circuits (each adds its own edge) and the base are loaded / used in a random order: each must have its own dynamics
    (base: the emitted model; derived: the model plus its own extra edge)."""
    from pyrates import CircuitTemplate
    import copy as _copy
    if case.get('spec') is not None:
        spec, extra = case['spec']['base'], case['spec']['extra']
    else:
        for _ in range(400):
            spec, feats, risk = gen.gen_net(rnd, pool=gen.SAFE_POOL, n_nodes=rnd.choice([2, 3]), max_types=2, depth=0, forbid=ctx['excluded'],
                                            edge_density=rnd.choice([0.0, 0.3]), unique_types=True)
            ref0 = RefModel(spec)
            outs = [k for k in ref0.state_keys if ref0.kind.get(k) == 'state' and spec['ops'][k[1]]['vars'][k[2]][0] == 'out']
            ins = [k for k in ref0.param_keys if ref0.kind[k] == 'in']
            have = {(e[0], e[1]) for e in spec['circ']['edges']}
            cand = [(f"{a[0]}/{a[1]}/{a[2]}", f"{b[0]}/{b[1]}/{b[2]}") for a in outs for b in ins]
            cand = [c_ for c_ in cand if c_ not in have]
            rnd.shuffle(cand)
            extra = []
            vals = gen.Vals(rnd)
            for c_ in cand:
                if len(extra) == 2:
                    break
                if any(c_[1] == x[1] for x in extra):
                    continue
                trial = _copy.deepcopy(spec)
                trial['circ']['edges'].append([c_[0], c_[1], None, {'weight': round(vals.new() * 2, 4)}])
                try:
                    f_, r_ = gen.features(trial)
                    RefModel(trial)
                except Exception:
                    continue
                if set(r_) & ctx['excluded']:
                    continue
                extra.append(trial['circ']['edges'][-1])
            if len(extra) == 2:
                break
        else:
            raise RuntimeError('generator could not satisfy the constraints')
    res['sig'] = stable_hash([spec, extra, 'circuit_derivation'])
    res['features'] += ['circuit_derived_from_circuit']
    res['spec'] = {'base': spec, 'extra': extra}
    top = spec['circ']['name']
    variants = {top: spec}
    for i, e in enumerate(extra):
        v = _copy.deepcopy(spec)
        v['circ']['edges'].append(e)
        variants[f'Derived{i}'] = v
    order = list(variants)
    rnd.shuffle(order)
    via = rnd.choice(['yaml', 'yaml', 'python'])
    mech['circuit_derivations_' + via] = 1
    cwd = os.getcwd()
    try:
        if via == 'yaml':
            text, _ = build.build_yaml_text(spec)
            for i, e in enumerate(extra):
                text += f"\nDerived{i}:\n  base: {top}\n  edges:\n    - [{e[0]}, {e[1]}, null, {{weight: {e[3]['weight']!r}}}]\n"
            with open('model_cd.yaml', 'w') as f:
                f.write(text)
            loaded = {name: CircuitTemplate.from_yaml(f'{cwd}/model_cd/{name}') for name in order}
        else:
            base_t, _ = build.build_python(spec)
            loaded = {}
            for name in order:
                if name == top:
                    loaded[name] = base_t
                else:
                    e = extra[int(name[-1])]
                    loaded[name] = base_t.update_template(edges=[(e[0], e[1], None, dict(e[3]))])
    except Exception as e:
        import traceback
        raise observe.Mismatch(f"loud: deriving circuits from a circuit ({via}) raised {type(e).__name__}: {e} :: {traceback.format_exc()[-300:]}")
    for name in order:
        check_dynamics(loaded[name], variants[name], ctx, rnd, mech,
                       f"circuit `{name}` of a family [base + two circuits derived from it with one extra edge each] ({via}, used in the order {order})")
    mech['derived_circuits_checked'] = mech.get('derived_circuits_checked', 0) + len(order)
    res.pop('spec', None)
    res.update(status='ok', symptom='', mech=mech, sample={'mode': 'circuit_derivation', 'via': via, 'order': order})
    return res


def case_rewrite(case, ctx, rnd, mech, res):
    """(B'') a model is written with to_yaml and loaded; then a second model with the same template names but other values is
    written to the SAME path and loaded again (no cache clearing in between): the second load must be the second model."""
    from pyrates import CircuitTemplate
    import copy as _copy
    if case.get('spec') is not None:
        spec_a, spec_b = case['spec']['a'], case['spec']['b']
    else:
        for _ in range(300):
            spec_a, feats, risk = gen.gen_net(rnd, pool=gen.SAFE_POOL, n_nodes=rnd.choice([1, 2, 3]), max_types=2, depth=rnd.choice([0, 0, 1]),
                                              forbid=ctx['excluded'], edge_density=rnd.choice([0.0, 0.4]), unique_types=True)
            if 'node_type_overrides' in feats or same_named_subcircuits(spec_a):
                continue
            break
        spec_b = _copy.deepcopy(spec_a)
        vals = gen.Vals(rnd)
        for o in spec_b['ops'].values():
            for v, d in o['vars'].items():
                if d[0] in ('const', 'out', 'var') and isinstance(d[1], float) and d[1] != 0.0:
                    d[1] = vals.new()
    res['sig'] = stable_hash([spec_a, spec_b, 'rewrite'])
    res['features'] += ['rewrite_same_path']
    res['nontrivial'] = True
    cwd = os.getcwd()
    top = spec_a['circ']['name']
    fname = rnd.choice(['model_rw.yaml', 'model_rw.yml'])         # both spellings of the extension are accepted
    mech['rewrite_' + fname.rsplit('.', 1)[1]] = 1
    writer = rnd.choice(['to_yaml', 'to_yaml', 'save'])               # template.to_yaml(path) or pyrates.save(template, path, filetype='yaml')
    mech['rewrite_via_' + writer] = 1
    for tag, sp in (('first', spec_a), ('second', spec_b)):
        t_py, _ = build.build_python(sp)
        try:
            if writer == 'save':
                import contextlib, io
                from pyrates import save
                with contextlib.redirect_stdout(io.StringIO()):
                    save(t_py, fname, filetype='yaml')
            else:
                t_py.to_yaml(fname)
            t_l = CircuitTemplate.from_yaml(f'{cwd}/model_rw/{top}')
        except Exception as e:
            res['spec'] = {'a': spec_a, 'b': spec_b}
            raise observe.Mismatch(f"loud: to_yaml / from_yaml ({tag} model written to the path) raised {type(e).__name__}: {e}")
        try:
            check_dynamics(t_l, sp, ctx, rnd, mech, f"{tag} model written to and loaded from one and the same path")
        except observe.Mismatch:
            res['spec'] = {'a': spec_a, 'b': spec_b}
            raise
    mech['rewritten_path_loads'] = 1
    res.update(status='ok', symptom='', mech=mech, sample={'mode': 'rewrite'})
    return res


def same_named_subcircuits(spec):
    """two different (sub-)circuit templates that carry the same template name"""
    seen = {}

    def walk(c):
        key = stable_hash({k: v for k, v in c.items() if k != 'name'})
        seen.setdefault(c['name'], set()).add(key)
        for s_ in c.get('subs', {}).values():
            walk(s_)
    walk(spec['circ'])
    return any(len(v) > 1 for v in seen.values())


def case_models(case, ctx, rnd, mech, res):
    """(A) YAML text vs Python, (B) to_yaml/from_yaml round trip"""
    from pyrates import CircuitTemplate
    want = case.get('want')
    opened = set(ctx['open_risks'])
    if case.get('spec') is not None:
        spec = case['spec']
    else:
        for attempt in range(300):
            spec, feats, risk = gen.gen_net(rnd, pool=gen.MAIN_POOL, n_nodes=rnd.choice([1, 2, 3, 4]), max_types=2,
                                            depth=rnd.choice([0, 0, 1, 2]), same_type_bias=True, forbid=ctx['excluded'],
                                            edge_density=rnd.choice([0.0, 0.3, 0.6]))
            r = set()
            if case['mode'] == 'roundtrip':
                if 'node_type_overrides' in feats:
                    r.add('roundtrip_with_overrides')
                if want == 'roundtrip_after_update_var' or ('roundtrip_after_update_var' not in opened and rnd.random() < 0.3):
                    ref0 = RefModel(spec)
                    ck = [k for k in ref0.param_keys if ref0.kind[k] == 'const']
                    if ck:
                        spec['updates'] = [['/'.join(rnd.choice(ck)), 0.4321]]
                        r.add('roundtrip_after_update_var')
            if case['mode'] == 'roundtrip' and same_named_subcircuits(spec):
                r.add('roundtrip_same_named_templates')
            if want and want not in r:
                continue
            if (opened - {want}) & r:
                continue
            res['risk'] = sorted(r)
            break
        else:
            raise RuntimeError('generator could not satisfy the constraints')
    feats, risk0 = gen.features(spec)
    res['features'] += feats
    res['sig'] = stable_hash([spec, case['mode']])
    res['nontrivial'] = bool({'edges', 'node_type_overrides'} & set(feats))
    res['spec'] = None
    cwd = os.getcwd()
    try:
        if case['mode'] == 'yaml_text':
            style = {'de': rnd.choice(['ddt', 'prime']), 'pow': rnd.choice(['**', '^'])}
            text, top = build.build_yaml_text(spec, style=style)
            with open('model_a.yaml', 'w') as f:
                f.write(text)
            try:
                t_yaml = CircuitTemplate.from_yaml(f'{cwd}/model_a/{top}')
            except Exception as e:
                raise observe.Mismatch(f"loud: from_yaml of emitted YAML raised {type(e).__name__}: {e}")
            check_dynamics(t_yaml, spec, ctx, rnd, mech, 'YAML-defined model')
            t_py, _ = build.build_python(spec, style=style)
            check_dynamics(t_py, spec, ctx, rnd, mech, 'Python-defined model')
            mech['yaml_text_models'] = 1
        else:
            t_py, _ = build.build_python(spec)
            try:
                t_py.to_yaml('model_rt.yaml')
                from pyrates import clear_frontend_caches
                clear_frontend_caches()
                t_rt = CircuitTemplate.from_yaml(f'{cwd}/model_rt/{spec["circ"]["name"]}')
            except Exception as e:
                import traceback
                raise observe.Mismatch(f"loud: to_yaml/from_yaml round trip raised {type(e).__name__}: {e} :: {traceback.format_exc()[-300:]}")
            check_dynamics(t_rt, spec, ctx, rnd, mech, 'round-tripped model')
            mech['roundtrip_models'] = 1
        res.update(status='ok', symptom='', mech=mech)
        from vp.props.c01 import summary
        res['sample'] = {'mode': case['mode'], 'spec_summary': summary(spec), 'features': feats}
    except observe.Mismatch as e:
        res['spec'] = spec
        raise
    return res


def case_two_variants(case, ctx, rnd, mech, res):
    """(B') round trip of two nodes sharing their operators with different per-node values; dynamics compared by value"""
    from pyrates import CircuitTemplate, clear_frontend_caches
    if case.get('spec') is not None:
        spec = case['spec']
    else:
        for _ in range(300):
            base, feats, risk = gen.gen_net(rnd, pool=gen.SAFE_POOL, n_nodes=rnd.choice([2, 3, 3, 4]), max_types=1, depth=0, n_edges=0,
                                            forbid=ctx['excluded'])
            # one operator per node: with several operators the renamed dump entries also break the node-internal links
            # (part of the recorded finding F-C15-roundtrip-overrides)
            if all(len(nt['ops']) == 1 for nt in base['node_types'].values()):
                break
        for nt in base['node_types'].values():
            nt['over'] = {}
        spec = gen.individualize(base, rnd, params='different')
    res['sig'] = stable_hash([spec, 'two_variants'])
    res['features'] += ['two_variants']
    res['nontrivial'] = True
    cwd = os.getcwd()
    t_py, _ = build.build_python(spec)
    try:
        t_py.to_yaml('model_tv.yaml')
        clear_frontend_caches()
        t_rt = CircuitTemplate.from_yaml(f'{cwd}/model_tv/{spec["circ"]["name"]}')
        f, args, names, smap = t_rt.get_run_func('vf', step_size=1e-3, vectorize=False, verbose=False, clear=True, in_place=False,
                                                 float_precision='float64')
    except Exception as e:
        import traceback
        res['spec'] = spec
        raise observe.Mismatch(f"loud: two-variant round trip raised {type(e).__name__}: {e} :: {traceback.format_exc()[-300:]}")
    ref = RefModel(spec)
    y0 = np.asarray(args[1], dtype=float)
    pos = {}
    for k in ref.state_keys:
        hits = np.nonzero(y0 == float(ref.val[k]))[0]
        if len(hits) != 1:
            res['spec'] = spec
            raise observe.Mismatch(f"two-variant round trip: initial value {ref.val[k]} of {'/'.join(k)} occurs {len(hits)} times in the reloaded "
                                   f"circuit's initial state {y0.tolist()}")
        pos[k] = int(hits[0])
    for _ in range(3):
        y = np.array([rnd.gauss(0, 1) for _ in range(len(y0))])
        exp, ill = observe.ref_rhs_checked(ref, {k: float(y[i]) for k, i in pos.items()}, ref.p0(), ctx['mp'])
        if ill:
            continue
        got = np.asarray(f(0, y.copy(), *args[2:]), dtype=float).ravel()
        for k, i in pos.items():
            mech['derivatives_compared'] = mech.get('derivatives_compared', 0) + 1
            if not abs(got[i] - exp[k]) <= 1e-8 * max(1.0, abs(exp[k])):
                res['spec'] = spec
                raise observe.Mismatch(f"two-variant round trip: derivative of {'/'.join(k)} (located by its initial value) is {got[i]!r} in the "
                                       f"reloaded circuit, reference {exp[k]!r}")
    mech['two_variant_roundtrips'] = 1
    if len(RefModel(spec).node_order) >= 3:
        mech['three_or_more_variant_roundtrips'] = 1
    res.update(status='ok', symptom='', mech=mech, sample={'mode': 'two_variants', 'nodes': RefModel(spec).node_order})
    return res


def case_derived(case, ctx, rnd, mech, res):
    """(C) derived operator template with an edit dict"""
    from pyrates import OperatorTemplate, NodeTemplate, CircuitTemplate
    # base operator over identifiers that contain one another
    ids = rnd.sample(IDS, 6)
    state, consts, inp = ids[0], ids[1:5], ids[5]
    vals = gen.Vals(rnd)
    base_vars = {state: ['out', vals.new()], inp: ['in', vals.new()]}
    for c in consts:
        base_vars[c] = ['const', vals.new()]
    ex = E.neg(E.mul(E.var(consts[0]), E.var(state)))
    for c in consts[1:]:
        ex = E.add(ex, E.mul(E.var(c), E.safe_call(rnd, rnd.choice(['tanh', 'sin']), E.mul(E.num(abs(E.rnd_coef(rnd))), E.var(state)))))
    ex = E.add(ex, E.mul(E.num(abs(E.rnd_coef(rnd))), E.var(inp)))
    base_op = {'eqs': [['de', state, E.tolist(ex)]], 'vars': base_vars}
    # edit: replace one constant by another identifier / expression, override a value, append a term
    target = rnd.choice(consts)
    newc = 'znew'
    kind = rnd.choice(['rename', 'expr', 'append', 'prepend_add', 'rename_add', 'append_add'])
    edit = {}
    new_vars = copy.deepcopy(base_vars)
    new_ex = ex
    if kind == 'rename':
        edit['replace'] = {target: newc}
        new_vars.pop(target)
        new_vars[newc] = ['const', vals.new()]
        new_ex = E.subst(ex, {target: newc})
        var_updates = {newc: new_vars[newc][1]}
    elif kind == 'expr':
        other = rnd.choice([c for c in consts if c != target])
        edit['replace'] = {target: f"({other}+{newc})"}
        new_vars.pop(target)
        new_vars[newc] = ['const', vals.new()]
        new_ex = E.subst(ex, {target: E.add(E.var(other), E.var(newc))})
        var_updates = {newc: new_vars[newc][1]}
    elif kind == 'append':
        edit['append'] = f"+ {newc} * {state}"
        new_vars[newc] = ['const', vals.new()]
        new_ex = E.add(ex, E.mul(E.var(newc), E.var(state)))
        var_updates = {newc: new_vars[newc][1]}
    elif kind == 'rename_add':
        # the edit applies to the inherited equation; the added equation is taken as written (it still uses `target`)
        v2 = 'zz2'
        edit['replace'] = {target: newc}
        edit['add'] = [f"d/dt * {v2} = -{v2} + {target}*{state}"]
        new_vars[newc] = ['const', vals.new()]
        new_vars[v2] = ['var', vals.new()]
        new_ex = E.subst(ex, {target: newc})
        var_updates = {newc: new_vars[newc][1], v2: f'variable({new_vars[v2][1]!r})'}
    elif kind == 'append_add':
        v2 = 'zz2'
        edit['append'] = f"+ {newc} * {state}"
        edit['add'] = [f"d/dt * {v2} = -{v2} + {state}"]
        new_vars[newc] = ['const', vals.new()]
        new_vars[v2] = ['var', vals.new()]
        new_ex = E.add(ex, E.mul(E.var(newc), E.var(state)))
        var_updates = {newc: new_vars[newc][1], v2: f'variable({new_vars[v2][1]!r})'}
    else:
        v2 = 'zz2'
        edit['add'] = [f"d/dt * {v2} = -{v2} + {state}"]
        new_vars[v2] = ['var', vals.new()]
        var_updates = {v2: f'variable({new_vars[v2][1]!r})'}
    # value override of an existing constant
    keep = rnd.choice([c for c in consts if c != target])
    new_vars[keep] = ['const', vals.new()]
    var_updates[keep] = new_vars[keep][1]
    new_eqs = [['de', state, E.tolist(new_ex)]]
    if kind in ('prepend_add', 'append_add'):
        new_eqs.append(['de', 'zz2', E.tolist(E.add(E.neg(E.var('zz2')), E.var(state)))])
    if kind == 'rename_add':
        new_eqs.append(['de', 'zz2', E.tolist(E.add(E.neg(E.var('zz2')), E.mul(E.var(target), E.var(state))))])
    spec = {'ops': {'dop': {'eqs': new_eqs, 'vars': new_vars}}, 'node_types': {'nt': {'ops': ['dop'], 'over': {}}}, 'edge_types': {},
            'circ': {'name': 'c', 'nodes': {'n0': 'nt'}, 'subs': {}, 'edges': []}}
    res['sig'] = stable_hash([spec, edit])
    res['features'].append(kind)
    res['nontrivial'] = any(target != o and target in o for o in ids) or kind != 'rename'
    kw = build.op_kwargs('bop', base_op)
    via = rnd.choice(['python', 'yaml'])
    res['features'].append(via)
    try:
        if via == 'python':
            b = OperatorTemplate(**kw)
            edit_obj = copy.deepcopy(edit)
            d = b.update_template(name='dop', equations=edit_obj, variables=dict(var_updates))
            if b.equations != kw['equations'] or any(v not in b.variables for v in kw['variables']):
                raise observe.Mismatch(f"update_template changed the base operator: {b.equations} {b.variables}")
            # the same edit dictionary object applied once more (to derive a second template from the same base): same result
            d_again = b.update_template(name='dop2', equations=edit_obj, variables=dict(var_updates))
            mech['edit_dictionary_reused'] = 1
            if list(d_again.equations) != list(d.equations):
                raise observe.Mismatch(f"the edit dictionary {edit} applied a second time to the same base gives equations {d_again.equations}, "
                                       f"the first time {d.equations} (dictionary now {edit_obj})")
        else:
            lines = ["%YAML 1.2", "---", "bop:", "  base: OperatorTemplate", "  equations:"]
            for eq in kw['equations']:
                lines.append(f'    - "{eq}"')
            lines.append("  variables:")
            for v, dd in kw['variables'].items():
                lines.append(f"    {v}: {dd}")
            lines += ["", "dop:", "  base: bop", "  equations:"]
            for k, v in edit.items():
                if k == 'replace':
                    lines.append("    replace:")
                    for o, n in v.items():
                        lines.append(f'      {o}: "{n}"')
                elif k == 'add':
                    lines.append("    add:")
                    for eq in v:
                        lines.append(f'      - "{eq}"')
                else:
                    lines.append(f'    {k}: "{v}"')
            lines.append("  variables:")
            for v, dd in var_updates.items():
                lines.append(f"    {v}: {dd}")
            with open('derived.yaml', 'w') as f:
                f.write('\n'.join(lines) + '\n')
            d = OperatorTemplate.from_yaml(f'{os.getcwd()}/derived/dop')
            b = OperatorTemplate.from_yaml(f'{os.getcwd()}/derived/bop')
            if list(b.equations) != kw['equations']:
                raise observe.Mismatch(f"loading the derived template changed the base operator: {b.equations}")
    except observe.Mismatch:
        raise
    except Exception as e:
        import traceback
        raise observe.Mismatch(f"loud: deriving the operator ({via}, edit {edit}) raised {type(e).__name__}: {e} :: {traceback.format_exc()[-300:]}")
    # equations: whole-identifier rewrite oracle
    exp_eqs = []
    for eq in kw['equations']:
        for o, n in edit.get('replace', {}).items():
            eq = tok_replace(eq, o, n)
        if 'append' in edit:
            eq = f"{eq} {edit['append']}"
        if 'prepend' in edit:
            eq = f"{edit['prepend']} {eq}"
        exp_eqs.append(eq)
    exp_eqs += edit.get('add', [])
    if [e_.replace(' ', '') for e_ in d.equations] != [e_.replace(' ', '') for e_ in exp_eqs]:
        raise observe.Mismatch(f"derived operator equations {list(d.equations)} != whole-identifier rewrite {exp_eqs} (edit {edit}, via {via})")
    mech['derived_templates'] = 1
    tmpl = CircuitTemplate(name='c', nodes={'n0': NodeTemplate(name='nt', operators=[d])})
    check_dynamics(tmpl, spec, ctx, rnd, mech, f'derived operator ({via}, edit {edit})')
    res.update(status='ok', symptom='', mech=mech, sample={'mode': 'derived', 'base_equations': kw['equations'], 'edit': edit,
                                                          'derived_equations': list(d.equations), 'via': via})
    return res


# MANIFEST-BEGIN
MANIFEST = {
    'technique': 'reference-model monitor on YAML-defined, Python-defined, round-tripped and derived templates + differential monitor of parser.replace / update_template against a tokenizer-based whole-identifier rewrite',
    'level_text': 'Generated specs are built from emitted YAML text and with the Python classes, dumped with to_yaml and re-loaded, and derived through base: with edit dictionaries (replace, append, add, variable overrides; via YAML and update_template); every variant must have the reference dynamics at random states (1e-8), derived equations must equal an independent tokenizer rewrite, base templates must be unchanged, and parser.replace is compared with the tokenizer oracle on thousands of random equations over identifier sets that contain one another (r, rr, r_in, r_in0, m_in2, ...). Edit dictionaries also combine add with replace / append; circuits of two nodes that share their operators with different per-node values are round-tripped and compared by value. The same edit dictionary object is applied a second time to the same base; circuits of 2-4 nodes that share their operators with different per-node values are round-tripped. A yaml_shared_update family dumps circuits whose sub-circuits are one shared template object after update_var on one of them. The rewrite family also uses the .yml spelling and pyrates.save(..., filetype=yaml) as writer. A circuit_derivation family loads a base circuit and two circuits derived from it (YAML base: <circuit>, or update_template(edges=...)) in random order; each must have its own dynamics. Held on observed models and edits only.',
    'level_note': 'Trusted: vp/ref.py, the 6-line tokenizer, vp/build.py YAML emitter (validated by the fact that YAML- and Python-built models agree with the reference). Edge templates in YAML are covered as far as vp/build emits them (plain edges with attributes).',
}
# MANIFEST-END
