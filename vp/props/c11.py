"""C11 - Distributed delays are unit-gain gamma kernels with the stated mean."""
import math
import random

import numpy as np

from vp import gen, observe, monitors
from vp.ref import RefModel
from vp.runner import open_risks, stable_hash
from vp.props import c04, c09

PID = 'C11'
LEVEL = 'exploration'
RULE = ("seeded circuits in which a random subset of edges carries (delay, spread) with (d/s)^2 in [1, 6.3] at least 0.2 away "
        "from a rounding tie, incl. pairs that round to the same and to different orders, edges sharing sources/targets, "
        "vectorize on/off; Euler (and scipy) trajectories of all user state variables are compared with the explicitly "
        "written augmented ODE (chain of n=round((d/s)^2) stages of rate n/d per edge) integrated by the reference; M-delay "
        "reads the emitted chain orders and rates and asserts mean delay n/rate = d (unit DC gain is structural for the "
        "recorded chain equations); non-trivial = at least one gamma-kernel edge; distinct = distinct spec hash")
DECIDING = ['matrix_kernel_connections', 'matrix_kernel_order_rounds_up', 'uniform_kernel_models', 'rows_compared', 'kernel_edges', 'mdelay_chains', 'vectorized_runs', 'scipy_runs', 'orders_seen_2plus', 'dde_approx_models']
ASSUMPTIONS = ['(d/s)^2 >= 1 and away from rounding ties', 'chain states start at zero']
CASE_TIMEOUT = 240
FOCUS = ['gamma_delay_within_one_step', 'undelayed_shares_source_with_delayed', 'two_delayed_same_pair', 'delayed_source_op_has_intra_consumer',
         'two_delayed_source_vars_same_op']


def plan(tier, seed):
    rnd = random.Random(f'{PID}-{seed}')
    n = 180 if tier == 'quick' else 4000
    cases = [{'family': 'main', 'cseed': rnd.randrange(1 << 30)} for _ in range(n)]
    opened = open_risks(PID)
    k = 8 if tier == 'quick' else 80
    for feat in FOCUS:
        fam = 'probe:' + feat if feat in opened else 'main'
        cases += [{'family': fam, 'cseed': rnd.randrange(1 << 30), 'want': feat} for _ in range(k)]
    # models that mix discrete-delay edges and gamma-kernel edges
    cases += [{'family': 'mixed_kinds', 'cseed': rnd.randrange(1 << 30)} for _ in range(40 if tier == 'quick' else 1000)]
    fam = 'probe:bundle_mixes_discrete_and_gamma' if 'bundle_mixes_discrete_and_gamma' in opened else 'mixed_kinds'
    cases += [{'family': fam, 'cseed': rnd.randrange(1 << 30), 'want': 'bundle_mixes_discrete_and_gamma'} for _ in range(k)]
    fam = 'probe:several_kernels_one_merged_source' if 'several_kernels_one_merged_source' in opened else 'few_kernels'
    cases += [{'family': fam, 'cseed': rnd.randrange(1 << 30), 'want': 'several_kernels_one_merged_source', 'kernels': 'few'}
              for _ in range(2 * k)]
    # Connectivity (matrix / scalar-weight) connections with delays and spread (machinery shared with C16)
    cases += [{'family': 'matrix', 'cseed': rnd.randrange(1 << 30)} for _ in range(40 if tier == 'quick' else 900)]
    # all delayed edges of the model share one (delay, spread) pair - the usual way delays are specified
    cases += [{'family': 'uniform_kernel', 'cseed': rnd.randrange(1 << 30)} for _ in range(40 if tier == 'quick' else 900)]
    # delays without spread, the order given as dde_approx=n to run (fixed-step and adaptive solvers)
    cases += [{'family': 'dde_approx', 'cseed': rnd.randrange(1 << 30)} for _ in range(30 if tier == 'quick' else 600)]
    # two or three (delay, spread) pairs shared by the delayed edges of the model: several edges per delay chain, several chains
    cases += [{'family': 'few_kernels', 'cseed': rnd.randrange(1 << 30)} for _ in range(50 if tier == 'quick' else 1000)]
    return cases


def warmup(ctx):
    import pyrates  # noqa
    import scipy.integrate  # noqa
    import mpmath
    mpmath.mp.dps = 40
    ctx['mp'] = mpmath
    ctx['open_risks'] = open_risks(PID)
    ctx['excluded'] = open_risks('C04') | open_risks('C01')
    monitors.install()
    monitors.install_delay()


def make_case(case, ctx):
    if case.get('spec') is not None:
        spec, solver, vec = case['spec'], case.get('solver', 'euler'), case.get('vec', False)
    else:
        rnd = random.Random(case['cseed'])
        want = case.get('want')
        dt = 1e-3
        for attempt in range(600):
            spec, _, _ = c04.make_spec({'cseed': rnd.randrange(1 << 30)}, ctx['excluded'])
            edges = spec['circ'].get('edges', [])
            if not edges:
                continue
            pfrac = rnd.choice([0.3, 0.6, 1.0])
            nd = 0
            mixed = case.get('family') == 'mixed_kinds' or want == 'bundle_mixes_discrete_and_gamma'
            uniform = case.get('family') in ('uniform_kernel', 'few_kernels') or case.get('kernels') == 'few'
            dde_family = case.get('family') == 'dde_approx'
            if dde_family:
                # all delayed edges get the order n handed to run as dde_approx=n (their delays differ); no edge carries a spread
                uniform = True
                n_dde = rnd.choice([1, 2, 2, 3, 4])
                kernels = []
                for _k in range(rnd.choice([1, 2, 3])):
                    d = rnd.uniform(max(2.0, 1.4 * n_dde), max(9.0, 1.4 * n_dde + 4.0)) * dt
                    kernels.append((round(d, 7), round(d, 7) / math.sqrt(n_dde)))
                spec['dde_approx'] = n_dde
            if uniform and not dde_family:
                kernels = []
                for _k in range(1 if case.get('family') == 'uniform_kernel' else rnd.choice([2, 2, 3])):
                    n = rnd.choice([1, 2, 2, 3, 4])
                    d = rnd.uniform(max(2.0, 1.4 * n), max(9.0, 1.4 * n + 4.0)) * dt
                    delta = rnd.uniform(0.02, 0.3) if n == 1 else rnd.uniform(-0.3, 0.3)
                    kernels.append((round(d, 7), round(round(d, 7) / math.sqrt(n + delta), 9)))
                    if case.get('family') != 'uniform_kernel' and rnd.random() < 0.5:
                        # a near twin: same order, a rate that differs by a fraction of 1 (two chains all the same)
                        d2 = round(d + rnd.uniform(0.05, 0.45) * d * d / n, 7)
                        if d2 != round(d, 7):
                            kernels.append((d2, round(d2 / math.sqrt(n + delta), 9)))
            for e in edges:
                if uniform:
                    if rnd.random() < pfrac or pfrac == 1.0:
                        e[3]['delay'], e[3]['spread'] = rnd.choice(kernels)
                        nd += 1
                    continue
                if mixed and rnd.random() < 0.45:
                    # a discrete delay (no spread) next to gamma-kernel edges
                    if rnd.random() < pfrac:
                        e[3]['delay'] = round(rnd.randint(2, 9) * dt, 7)
                        nd += 1
                    continue
                if rnd.random() < pfrac:
                    n = rnd.choice([1, 1, 2, 2, 3, 4, 6])
                    # keep the chain rate n/d below 1/dt: explicit Euler on a stiffer chain is unstable and the
                    # comparison would measure amplified rounding noise, not the kernel
                    d = rnd.uniform(max(2.0, 1.4 * n), max(9.0, 1.4 * n + 4.0)) * dt
                    delta = rnd.uniform(0.02, 0.3) if n == 1 else rnd.uniform(-0.3, 0.3)
                    e[3]['delay'] = round(d, 7)
                    e[3]['spread'] = round(e[3]['delay'] / math.sqrt(n + delta), 9)
                    nd += 1
            if want == 'gamma_delay_within_one_step':
                # gamma kernels whose MEAN delay does not exceed the step size handed to run (meaningful under an adaptive solver)
                nd = 0
                for e in edges:
                    e[3].pop('delay', None)
                    e[3].pop('spread', None)
                for e in rnd.sample(edges, rnd.randint(1, min(2, len(edges)))):
                    n = rnd.choice([1, 2])
                    e[3]['delay'] = round(rnd.choice([0.5, 0.8, 1.0]) * dt, 7)
                    e[3]['spread'] = round(e[3]['delay'] / math.sqrt(n + (0.2 if n == 1 else 0.0)), 9)
                    nd += 1
            if want == 'two_delayed_same_pair':
                e = rnd.choice(edges)
                e[3]['delay'], e[3]['spread'] = 4 * dt, 4 * dt / math.sqrt(2.1)
                edges.append([e[0], e[1], None, {'weight': 0.77, 'delay': 6 * dt, 'spread': 6 * dt / math.sqrt(3.1)}])
                nd += 1
            if nd == 0:
                continue
            solver = rnd.choice(['euler', 'euler', 'euler', 'scipy']) if not mixed else 'euler'
            if want == 'gamma_delay_within_one_step':
                solver = 'scipy'
            vec = rnd.random() < 0.5 or want == 'several_kernels_one_merged_source'
            r2 = c09.delay_risks(spec, solver) | c04.vec_risks(spec) | mixed_risks(spec) | kernel_risks(spec, vec)
            if mixed and not any(e[3].get('delay') and not e[3].get('spread') for e in edges):
                continue
            f, r = gen.features(spec)
            r2 |= set(r) - {'vec_partial_input_default'}
            if want and want not in r2:
                continue
            if ((set(ctx['open_risks']) | ctx['excluded']) - {want}) & r2:
                continue
            break
        else:
            raise RuntimeError('generator could not satisfy the constraints')
    f, r = gen.features(spec)
    r = sorted((set(r) - {'vec_partial_input_default'}) | c09.delay_risks(spec, solver) | c04.vec_risks(spec) | mixed_risks(spec)
               | kernel_risks(spec, vec))
    return spec, f, r, solver, vec


def mixed_risks(spec):
    """a vectorized edge bundle (merged source variable -> merged target variable) that contains discrete-delay edges and
    gamma-kernel edges"""
    _, edge_list, group, node_group = c04.groups_of(spec)
    kinds = {}
    for s_, t_, et, a in edge_list:
        if not a.get('delay'):
            continue
        sn, so, sv = s_.rsplit('/', 2)
        tn, to, tv = t_.rsplit('/', 2)
        kinds.setdefault((node_group[sn], so, sv), set()).add('gamma' if a.get('spread') else 'discrete')
    out = {'bundle_mixes_discrete_and_gamma'} if any(len(v) > 1 for v in kinds.values()) else set()
    if any(a.get('delay') and a.get('spread') and float(a['delay']) <= 1e-3 for s_, t_, et, a in edge_list):
        out.add('gamma_delay_within_one_step')
    return out


def kernel_risks(spec, vec):
    """vectorized build: a source variable whose gamma-kernel edges use more than one (delay, spread) pair and whose delay buffer has
    several slots - the source is a merged variable, or its delayed edges reach a merged target group (thorough run #8: one source
    node, four structurally identical targets, two kernels)"""
    if not vec:
        return set()
    _, edge_list, group, node_group = c04.groups_of(spec)
    ks, wide = {}, set()
    for s_, t_, et, a in edge_list:
        if a.get('delay') and a.get('spread'):
            sn, so, sv = s_.rsplit('/', 2)
            tn = t_.rsplit('/', 2)[0]
            key = (node_group[sn], so, sv)
            ks.setdefault(key, set()).add((a['delay'], a['spread']))
            if len(group[node_group[sn]]) > 1 or len(group[node_group[tn]]) > 1:
                wide.add(key)
    return {'several_kernels_one_merged_source'} if any(len(v) > 1 and k in wide for k, v in ks.items()) else set()


def run_matrix_case(case, ctx):
    """PopulationTemplate/Connectivity circuit whose connections carry gamma-kernel delays: population outputs against the
    explicit chain model of the equivalent node-and-edge network (vp/props/c16.py does the comparison)."""
    from vp.props import c16
    if case.get('spec') is not None:
        return c16.run_case(case, ctx)
    rnd = random.Random(case['cseed'])
    opened16 = open_risks('C16')
    for attempt in range(400):
        plan_, risk = c16.gen_pop_case(rnd, 'conn_delay', opened16)
        kc = [c for c in plan_['conns'] if c.get('spread')]
        if kc and not any(c['kind'] == 'coupling' for c in plan_['conns']) and all(c.get('spread') for c in plan_['conns'] if c.get('delay')):
            break
        if plan_.get('dde_approx'):
            # delayed connections without spread, compiled with dde_approx=n: chains of order n and rate n/d
            kc = [c for c in plan_['conns'] if c.get('delay')]
            break
    else:
        raise RuntimeError('generator could not satisfy the constraints')
    res = c16.run_case({'cseed': case['cseed'], 'spec': plan_, 'case_risk': []}, ctx)
    res['risk'] = []
    res['case_extra'] = {'case_risk': []}
    m = res.setdefault('mech', {})
    m['matrix_kernel_connections'] = len(kc)
    if plan_.get('dde_approx'):
        m['matrix_dde_approx_models'] = 1
        res['features'] = list(res.get('features', [])) + ['dde_approx']
        kc = []
    m['kernel_edges'] = m.get('kernel_edges', 0) + len(kc)
    if any(int(round((c['delay'] / c['spread']) ** 2)) != int((c['delay'] / c['spread']) ** 2) for c in kc):
        m['matrix_kernel_order_rounds_up'] = 1
    res['features'] = list(res.get('features', [])) + ['matrix_kernel']
    return res


def run_case(case, ctx):
    if case.get('family') == 'matrix':
        return run_matrix_case(case, ctx)
    spec, feats, risk, solver, vec = make_case(case, ctx)
    mech = {}
    res = {'features': feats + ['vec' if vec else 'novec', solver], 'risk': risk, 'sig': stable_hash([spec, vec, solver]),
           'case_extra': {'solver': solver, 'vec': vec}}
    try:
        ref = RefModel(spec)
        ke = [e for e in ref.edges if e.get('chain_keys') is not None]
        res['nontrivial'] = bool(ke)
        if case.get('family') in ('uniform_kernel', 'few_kernels'):
            mech['uniform_kernel_models'] = 1
        mech['kernel_edges'] = len(ke)
        if any(e['chain_n'] >= 2 for e in ke):
            mech['orders_seen_2plus'] = 1
        keys = list(ref.state_keys)[:12]
        outputs = {f'o{i}': '/'.join(k) for i, k in enumerate(keys)}
        dt, steps = 1e-3, 24
        monitors.reset()
        kw = {}
        if solver == 'scipy':
            kw = dict(method='RK45', rtol=1e-9, atol=1e-11)
        spec_py = spec
        if spec.get('dde_approx'):
            import copy as _copy
            spec_py = _copy.deepcopy(spec)
            from vp.ref import _walk as _w

            def _strip(c_):
                for e_ in c_.get('edges', []):
                    e_[3].pop('spread', None)
                for s_ in c_.get('subs', {}).values():
                    _strip(s_)
            _strip(spec_py['circ'])
            kw['dde_approx'] = spec['dde_approx']
            mech['dde_approx_models'] = 1
        try:
            df = observe.run_model(spec_py, T=steps * dt, dt=dt, solver=solver, outputs=outputs, vectorize=vec, **kw)
        except Exception as e:
            import traceback
            raise observe.Mismatch(f"loud: run raised {type(e).__name__}: {e} :: {traceback.format_exc()[-600:]}")
        mon = monitors.collect()
        for k, v in mon['counters'].items():
            if k.startswith('mdelay'):
                mech[k] = mech.get(k, 0) + v
        if mon['violations']:
            raise observe.Mismatch('monitor: ' + mon['violations'][0])
        if solver == 'euler':
            exp = observe.ref_trajectory(ref, keys, steps, dt)
            msg = observe.compare_traj(df.values, exp, rtol=1e-7)
        else:
            from scipy.integrate import solve_ivp
            ykeys = list(ref.state_keys) + list(ref.chain_states)
            p0 = ref.p0()

            def f(t, y):
                d, _ = ref.rhs(dict(zip(ykeys, y)), p0, t)
                return [d[k] for k in ykeys]
            y0 = ref.y0()
            sol = solve_ivp(f, (0.0, steps * dt), [y0[k] for k in ykeys], method='DOP853', rtol=1e-11, atol=1e-13,
                            t_eval=np.asarray(df.index, dtype=float))
            exp = sol.y.T[:, [ykeys.index(k) for k in keys]]
            msg = observe.compare_traj(df.values, exp, rtol=2e-6)
            mech['scipy_runs'] = 1
        if msg == 'discard':
            res.update(status='discard', symptom='reference not finite', mech=mech)
            return res
        if msg:
            ds = sorted({(round(float(e['delay']) / dt, 2), e['chain_n']) for e in ke})
            raise observe.Mismatch(f"{solver} trajectory with gamma-kernel edges (delay in steps, order) {ds}, vectorize={vec}: {msg} "
                                   f"[columns {list(outputs.values())}]")
        mech['rows_compared'] = df.shape[0]
        if vec:
            mech['vectorized_runs'] = 1
        res.update(status='ok', symptom='', mech=mech)
        from vp.ref import _walk
        res['sample'] = {'edges': [[s, t, a] for s, t, _, a in _walk(spec['circ'])[1]], 'vectorize': vec, 'solver': solver,
                         'orders': [e['chain_n'] for e in ke]}
    except observe.Mismatch as e:
        s = str(e)
        res.update(status='violation', symptom=('silent: ' if 'loud' not in s else '') + s, mech=mech, spec=spec)
    return res


# MANIFEST-BEGIN
MANIFEST = {
    'technique': 'reference monitor: trajectories vs the explicitly written linear-chain ODE + hook on _add_edge_buffer reading the emitted chain orders and rates',
    'level_text': 'Generated circuits with random (delay, spread) edges are simulated (Euler, scipy) and every user state variable is compared with the reference that integrates the explicit chain of n=round((d/s)^2) first-order stages of rate n/d per edge (1e-7 Euler, 2e-6 adaptive); a hook on the emitting function asserts per edge that order and rate are as defined and that the mean delay order/rate equals d; vectorized and non-vectorized forms both run. A mixed family combines discrete-delay edges and gamma-kernel edges in one model. Further families: Connectivity connections with (delay, spread), one common kernel for all edges, two or three kernels shared by the edges (several edges per chain, several chains per source). Kernel families contain near twins (same order, rates that differ by a fraction of 1); probe family: kernels whose mean delay does not exceed the step size (recorded finding). A dde_approx family gives delays without spread and the order through run(dde_approx=n), fixed-step and adaptive. Held on observed circuits only.',
    'level_note': 'Trusted: vp/ref.py chain model. Connectivity(delays, spread) form is covered under C16. Structural risk features shared with C09 are excluded from the main sweep (open findings).',
}
# MANIFEST-END
