"""C01 - Generated vector field equals the model the user wrote."""
import random

from vp import gen, observe, monitors
from vp.ref import RefModel
from vp.runner import open_risks, stable_hash

LEVEL = 'exploration'
RULE = ("seeded random networks (1-8 nodes of 1-3 node types, 1-3 operators per node incl. intra-node chains and fan-in, "
        "hierarchy depth 0-3, hostile identifier pool, permuted declaration order, fan-in/fan-out, weight classes "
        "1.0/+-O(1)/1e-6/integers) compiled with get_run_func(vectorize=False, float64) - and, for models with several nodes per type, also through the default vectorized build - and evaluated at 6 probe points "
        "with parameters perturbed through the returned argument arrays; oracle = independent reference semantics "
        "(float64 + 40-digit mpmath); non-trivial = at least one edge or intra-node link or node-type override; distinct = "
        "distinct spec hash")
DECIDING = ['derivatives_compared', 'derivatives_compared_vectorized', 'layout_checks', 'arg_value_checks', 'perturbed_param_slots', 'medge_connections',
            'mlabel_checks']
ASSUMPTIONS = ['well-formed models only (see DESIGN 4a)', 'reference semantics vp/ref.py is the meaning of the model',
               'ill-conditioned probe points (float64 vs mpmath differ > 1e-11) are discarded and counted']
CASE_TIMEOUT = 120
PID = 'C01'

FOCUS = ['parallel_edges', 'fanin_two_vars_same_node', 'op_two_inputs_one_multi_driven', 'user_name_like_generated',
         'edge_same_name_src_tgt', 'name_like_edge_local', 'derived_label_name_with_multi_driven_input']


ET_FOCUS = ['parallel_templated_edges']
CONTAINING_POOL = ['r', 'rr', 'x', 'xx', 'k', 'kk', 'k1', 'k10', 'a', 'aa', 'ab', 'a_b', 'q', 'qq', 'u', 'uu', 'v', 'vv']


def plan(tier, seed):
    rnd = random.Random(f'{PID}-{seed}')
    n = 260 if tier == 'quick' else 9000
    cases = [{'family': 'main', 'cseed': rnd.randrange(1 << 30)} for _ in range(n)]
    opened = open_risks(PID)
    k = 12 if tier == 'quick' else 150
    for feat in FOCUS:
        fam = 'probe:' + feat if feat in opened else 'main'
        cases += [{'family': fam, 'cseed': rnd.randrange(1 << 30), 'want': feat} for _ in range(k)]
    # identifiers that are heads/tails of one another (r/rr, x/xx, k1/k10) around multiply driven inputs, which PyRates
    # rewrites textually (parser.replace)
    cases += [{'family': 'containing_names', 'cseed': rnd.randrange(1 << 30)} for _ in range(40 if tier == 'quick' else 1200)]
    # an operator that declares X before X_v1 next to another operator with an X (chained renaming of generated labels)
    cases += [{'family': 'chained_names', 'cseed': rnd.randrange(1 << 30)} for _ in range(12 if tier == 'quick' else 200)]
    # edges through EdgeTemplates (algebraic edge operators with per-edge constants)
    cases += [{'family': 'edge_templates', 'cseed': rnd.randrange(1 << 30)} for _ in range(50 if tier == 'quick' else 1500)]
    # wide groups (11-16 structurally identical nodes, also with a single-node type): default vectorized build included
    cases += [{'family': 'wide', 'cseed': rnd.randrange(1 << 30)} for _ in range(30 if tier == 'quick' else 600)]
    # update_var overrides (arrays over nodes that share a node template object, wildcards)
    cases += [{'family': 'overrides', 'cseed': rnd.randrange(1 << 30)} for _ in range(30 if tier == 'quick' else 600)]
    for feat in ET_FOCUS:
        fam = 'probe:' + feat if feat in opened else 'edge_templates'
        cases += [{'family': fam, 'cseed': rnd.randrange(1 << 30), 'want': feat} for _ in range(k)]
    return cases


def warmup(ctx):
    import pyrates  # noqa
    import mpmath
    mpmath.mp.dps = 40
    ctx['mp'] = mpmath
    ctx['open_risks'] = open_risks(PID)
    monitors.install()


def make_spec(case, opened):
    if case.get('spec') is not None:
        f, r = gen.features(case['spec'])
        return case['spec'], f, r
    rnd = random.Random(case['cseed'])
    want = case.get('want')
    fam = case.get('family')
    if fam == 'wide':
        from vp.props import c04
        return c04.make_spec({'cseed': case['cseed'], 'family': 'wide'}, set(opened) | open_risks('C04'))
    if fam == 'chained_names':
        spec = gen.gen_chained_names_net(rnd)
        f, r = gen.features(spec)
        return spec, sorted(set(f) | {'declares_x_before_x_v1'}), [x for x in r if x != 'user_name_like_generated' or x in opened]
    if fam == 'containing_names':
        return gen.gen_net(rnd, pool=CONTAINING_POOL, forbid=opened, n_nodes=rnd.choice([1, 2, 3]),
                           edge_density=rnd.choice([0.6, 1.0]),
                           allow=lambda s, f, r: 'multi_driven_input' in f and 'names_contain_one_another' in f)
    if fam == 'edge_templates' or want in ET_FOCUS:
        others = set(opened) - {want}
        for attempt in range(400):
            spec, f, r = gen.gen_net(rnd, pool=gen.SAFE_POOL if rnd.random() < 0.5 else gen.MAIN_POOL, forbid=others,
                                     edge_density=rnd.choice([0.3, 0.6, 1.0, 1.0]), n_nodes=rnd.choice([2, 3, 4, 5]),
                                     allow=lambda s, f, r: 'edges' in f)
            spec = gen.add_edge_templates(spec, rnd, frac=rnd.choice([0.3, 0.6, 1.0]), mixed_overrides=rnd.random() < 0.3,
                                          names=rnd.choice(['plain', 'plain', 'shared']))
            f, r = gen.features(spec)
            # mixed overrides only matter for vectorized builds (finding recorded under C04)
            r = [x for x in r if x != 'mixed_template_overrides']
            if 'edge_template' not in f or (want and want not in r) or others & set(r):
                continue
            return spec, f, r
        raise RuntimeError('generator could not satisfy the constraints')
    if want:
        pool = {'user_name_like_generated': gen.DERIVED_POOL, 'derived_label_name_with_multi_driven_input': gen.DERIVED_POOL,
                'name_like_edge_local': gen.EDGE_LOCAL_POOL}.get(want, gen.SAFE_POOL)
        others = set(opened) - {want}
        return gen.gen_net(rnd, pool=pool, allow=lambda s, f, r: want in r, forbid=others,
                           edge_density=rnd.choice([0.3, 0.6, 1.0]), n_nodes=rnd.choice([2, 3, 4, 5]))
    pool = gen.VAR_POOL if 'name_like_edge_local' not in opened else gen.MAIN_POOL
    spec, f, r = gen.gen_net(rnd, pool=pool, forbid=opened)
    if fam == 'overrides' or rnd.random() < 0.12:
        add_overrides(spec, rnd)
        f, r = gen.features(spec)
        f = sorted(set(f) | ({'update_var_overrides'} if spec.get('updates') else set()) | ({'node_values_overrides'} if spec.get('node_values') else set()))
    return spec, f, r


def add_overrides(spec, rnd):
    """update_var overrides (scalars and per-node arrays, single paths and wildcards) on constants and initial values: the returned
    argument values must be the overridden ones"""
    from vp.ref import RefModel as _R, match_nodes
    ref0 = _R(spec)
    vals = gen.Vals(rnd)
    for o in spec['ops'].values():
        for v, d in o['vars'].items():
            vals.used.add(d[1])
    cands = [k for k in ref0.kind if ref0.kind[k] in ('const', 'state')]
    ups = []
    for _ in range(rnd.randint(1, 3)):
        n, op, v = rnd.choice(cands)
        parts = n.split('/')
        if rnd.random() < 0.6:
            parts = ['all'] * len(parts) if rnd.random() < 0.5 else parts[:-1] + ['all']
        targets = [t for t in match_nodes(ref0.node_order, parts) if (t, op, v) in ref0.kind]
        if not targets or any(u[0] == '/'.join(parts + [op, v]) for u in ups):
            continue
        if len(targets) > 1 and rnd.random() < 0.7:
            ups.append(['/'.join(parts + [op, v]), [vals.new() for _ in targets]])
        else:
            ups.append(['/'.join(parts + [op, v]), vals.new()])
    if ups:
        spec['updates'] = ups
    # values handed to the compile itself (node_values of get_run_func / apply): they take precedence over declared defaults, over the
    # variations of a node template and over earlier update_var calls; drawn preferably for variables that carry such a node-level value
    if rnd.random() < 0.6:
        varied = set()
        for nt in spec['node_types'].values():
            for key in nt.get('over', {}):
                varied.add(tuple(key.split('/')[-2:]))
        for u in ups:
            varied.add(tuple(u[0].split('/')[-2:]))
        consts = [k for k in cands if ref0.kind[k] == 'const']
        pref = [k for k in consts if (k[1], k[2]) in varied]
        nv = {}
        for _ in range(rnd.randint(1, 2)):
            pool_ = pref if pref and rnd.random() < 0.8 else consts
            if not pool_:
                break
            n, op, v = rnd.choice(pool_)
            nv[f'{n}/{op}/{v}'] = vals.new()
        if nv:
            spec['node_values'] = nv


def run_case(case, ctx):
    opened = ctx['open_risks']
    spec, feats, risk = make_spec(case, opened)
    rnd = random.Random(case['cseed'] + 1)
    mech = {}
    monitors.reset()
    res = {'features': feats, 'risk': risk, 'sig': stable_hash(spec),
           'nontrivial': bool({'edges', 'intra_node_link', 'node_type_overrides'} & set(feats))}
    try:
        ref = RefModel(spec)
        style = {'de': rnd.choice(['ddt', 'prime']), 'pow': rnd.choice(['**', '^']), 'sp': rnd.choice(['', ' '])}
        try:
            obs = observe.compile_vf(spec, vectorize=False, style=style)
        except Exception as e:
            import traceback
            res.update(status='violation', symptom=f'loud: get_run_func raised {type(e).__name__}: {e}',
                       detail=traceback.format_exc()[-2500:])
            res['spec'] = spec
            return res
        pos, worst = observe.compare_vf(obs, ref, rnd, ctx['mp'], n_points=6, vectorized=False, mech=mech)
        # get_run_func vectorizes by default: the same model through the default path (structurally identical nodes merged),
        # unless it carries the risk feature of a recorded C04 finding
        from vp.props import c04
        c04_open = open_risks('C04')
        vrisk = c04.vec_risks(spec) | (set(risk) & {'vec_partial_input_default'})
        if 'several_nodes_per_type' in feats and not (vrisk & c04_open) and 'edge_template' not in feats and not spec.get('updates') \
                and (case.get('family') == 'wide' or rnd.random() < 0.4):
            # merged variables are located by value fingerprinting: give every node its own initial values / constants
            spec_v = gen.individualize(spec, random.Random(case['cseed'] + 3), params=rnd.choice(['different', 'equal']))
            ref_v = RefModel(spec_v)
            try:
                obs_v = observe.compile_vf(spec_v, vectorize=True, style=style)
            except Exception as e:
                import traceback
                raise observe.Mismatch(f"loud: get_run_func(vectorize=True) raised {type(e).__name__}: {e} :: {traceback.format_exc()[-600:]}")
            m2 = {}
            try:
                observe.compare_vf(obs_v, ref_v, rnd, ctx['mp'], n_points=4, vectorized=True, mech=m2)
            except observe.Mismatch as e:
                raise observe.Mismatch(f"default (vectorized) build: {e}")
            mech['derivatives_compared_vectorized'] = mech.get('derivatives_compared_vectorized', 0) + m2.get('derivatives_compared', 0)
        mon = monitors.collect()
        for k, v in mon['counters'].items():
            mech[k] = mech.get(k, 0) + v
        if mon['violations']:
            raise observe.Mismatch('monitor: ' + mon['violations'][0])
        res.update(status='ok', symptom='', mech=mech)
        res['sample'] = {'spec_summary': summary(spec), 'state_positions': {'/'.join(k): v for k, v in pos.items()},
                         'max_abs_err': worst, 'features': feats}
    except observe.Mismatch as e:
        mon = monitors.collect()
        res.update(status='violation', symptom='silent: ' + str(e), mech=mech, spec=spec,
                   monitor_events=mon.get('events', [])[-20:])
    return res


def summary(spec):
    from vp.build import eq_text
    from vp.ref import _walk
    nodes, edges = _walk(spec['circ'])
    return {'operators': {n: [eq_text(k, l, x) for k, l, x in o['eqs']] for n, o in spec['ops'].items()},
            'nodes': dict(nodes), 'edges': [[s, t, a.get('weight')] for s, t, _, a in edges]}


# MANIFEST-BEGIN
MANIFEST = {
    'technique': 'reference-model monitor at the get_run_func boundary over generated networks + exactly-once edge accounting and label-uniqueness hooks inside the compile pipeline',
    'level_text': 'Each generated network is compiled by the real pipeline and its returned function is evaluated at random states with parameters perturbed through the returned arguments; every state derivative is compared (1e-8 relative) with an independent float64/mpmath reference semantics, the returned layout and argument values are checked by value fingerprinting, and hooks inside the compile assert that every frontend connection reaches _generate_edge_equation exactly once and that no two compute-graph variables share a label. Further families: edges through EdgeTemplates (algebraic edge operators, one or two operators, per-edge constants, plain or node-like variable names) and identifiers that are heads/tails of one another around multiply driven inputs. The default vectorized build of the same model (individualized copy) is compared as well for models with several nodes per type, incl. wide groups with one-to-one (permutation) wiring; update_var overrides (arrays over nodes sharing a node template, wildcards) are part of the returned-argument-values clause. Overrides are also handed to the compile itself (node_values), preferably on variables that already carry a node-level value. Held on the observed models only.',
    'level_note': 'Trusted: vp/ref.py + vp/expr.py (independent semantics), numpy/mpmath arithmetic. Models are restricted to the well-formed class of DESIGN 4a; risk features of open known findings are excluded from the main sweep and exercised by probe families.',
}
# MANIFEST-END
