"""C01 - Generated vector field equals the model the user wrote."""
import random

from vp import gen, observe, monitors
from vp.ref import RefModel
from vp.runner import open_risks, stable_hash

LEVEL = 'exploration'
RULE = ("seeded random networks (1-8 nodes of 1-3 node types, 1-3 operators per node incl. intra-node chains and fan-in, "
        "hierarchy depth 0-3, hostile identifier pool, permuted declaration order, fan-in/fan-out, weight classes "
        "1.0/+-O(1)/1e-6/integers) compiled with get_run_func(vectorize=False, float64) and evaluated at 6 probe points "
        "with parameters perturbed through the returned argument arrays; oracle = independent reference semantics "
        "(float64 + 40-digit mpmath); non-trivial = at least one edge or intra-node link or node-type override; distinct = "
        "distinct spec hash")
DECIDING = ['derivatives_compared', 'layout_checks', 'arg_value_checks', 'perturbed_param_slots', 'medge_connections',
            'mlabel_checks']
ASSUMPTIONS = ['well-formed models only (see DESIGN 4a)', 'reference semantics vp/ref.py is the meaning of the model',
               'ill-conditioned probe points (float64 vs mpmath differ > 1e-11) are discarded and counted']
CASE_TIMEOUT = 120
PID = 'C01'

FOCUS = ['parallel_edges', 'fanin_two_vars_same_node', 'op_two_inputs_one_multi_driven', 'user_name_like_generated',
         'edge_same_name_src_tgt', 'name_like_edge_local', 'derived_label_name_with_multi_driven_input']


def plan(tier, seed):
    rnd = random.Random(f'{PID}-{seed}')
    n = 260 if tier == 'quick' else 9000
    cases = [{'family': 'main', 'cseed': rnd.randrange(1 << 30)} for _ in range(n)]
    opened = open_risks(PID)
    k = 12 if tier == 'quick' else 150
    for feat in FOCUS:
        fam = 'probe:' + feat if feat in opened else 'main'
        cases += [{'family': fam, 'cseed': rnd.randrange(1 << 30), 'want': feat} for _ in range(k)]
    return cases


def warmup(ctx):
    import pyrates  # noqa
    import mpmath
    mpmath.mp.dps = 40
    ctx['mp'] = mpmath
    ctx['open_risks'] = open_risks(PID)
    monitors.install()


def make_spec(case, opened):
    if case.get('spec') is not None:
        f, r = gen.features(case['spec'])
        return case['spec'], f, r
    rnd = random.Random(case['cseed'])
    want = case.get('want')
    if want:
        pool = {'user_name_like_generated': gen.DERIVED_POOL, 'derived_label_name_with_multi_driven_input': gen.DERIVED_POOL,
                'name_like_edge_local': gen.EDGE_LOCAL_POOL}.get(want, gen.SAFE_POOL)
        others = set(opened) - {want}
        return gen.gen_net(rnd, pool=pool, allow=lambda s, f, r: want in r, forbid=others,
                           edge_density=rnd.choice([0.3, 0.6, 1.0]), n_nodes=rnd.choice([2, 3, 4, 5]))
    pool = gen.VAR_POOL if 'name_like_edge_local' not in opened else gen.MAIN_POOL
    return gen.gen_net(rnd, pool=pool, forbid=opened)


def run_case(case, ctx):
    opened = ctx['open_risks']
    spec, feats, risk = make_spec(case, opened)
    rnd = random.Random(case['cseed'] + 1)
    mech = {}
    monitors.reset()
    res = {'features': feats, 'risk': risk, 'sig': stable_hash(spec),
           'nontrivial': bool({'edges', 'intra_node_link', 'node_type_overrides'} & set(feats))}
    try:
        ref = RefModel(spec)
        style = {'de': rnd.choice(['ddt', 'prime']), 'pow': rnd.choice(['**', '^']), 'sp': rnd.choice(['', ' '])}
        try:
            obs = observe.compile_vf(spec, vectorize=False, style=style)
        except Exception as e:
            import traceback
            res.update(status='violation', symptom=f'loud: get_run_func raised {type(e).__name__}: {e}',
                       detail=traceback.format_exc()[-2500:])
            res['spec'] = spec
            return res
        pos, worst = observe.compare_vf(obs, ref, rnd, ctx['mp'], n_points=6, vectorized=False, mech=mech)
        mon = monitors.collect()
        for k, v in mon['counters'].items():
            mech[k] = mech.get(k, 0) + v
        if mon['violations']:
            raise observe.Mismatch('monitor: ' + mon['violations'][0])
        res.update(status='ok', symptom='', mech=mech)
        res['sample'] = {'spec_summary': summary(spec), 'state_positions': {'/'.join(k): v for k, v in pos.items()},
                         'max_abs_err': worst, 'features': feats}
    except observe.Mismatch as e:
        mon = monitors.collect()
        res.update(status='violation', symptom='silent: ' + str(e), mech=mech, spec=spec,
                   monitor_events=mon.get('events', [])[-20:])
    return res


def summary(spec):
    from vp.build import eq_text
    from vp.ref import _walk
    nodes, edges = _walk(spec['circ'])
    return {'operators': {n: [eq_text(k, l, x) for k, l, x in o['eqs']] for n, o in spec['ops'].items()},
            'nodes': dict(nodes), 'edges': [[s, t, a.get('weight')] for s, t, _, a in edges]}


# MANIFEST-BEGIN
MANIFEST = {
    'technique': 'reference-model monitor at the get_run_func boundary over generated networks + exactly-once edge accounting and label-uniqueness hooks inside the compile pipeline',
    'level_text': 'Each generated network is compiled by the real pipeline and its returned function is evaluated at random states with parameters perturbed through the returned arguments; every state derivative is compared (1e-8 relative) with an independent float64/mpmath reference semantics, the returned layout and argument values are checked by value fingerprinting, and hooks inside the compile assert that every frontend connection reaches _generate_edge_equation exactly once and that no two compute-graph variables share a label. Held on the observed models only.',
    'level_note': 'Trusted: vp/ref.py + vp/expr.py (independent semantics), numpy/mpmath arithmetic. Models are restricted to the well-formed class of DESIGN 4a; risk features of open known findings are excluded from the main sweep and exercised by probe families.',
}
# MANIFEST-END
