"""C03 - run() returns the numerical solution of the compiled system."""
import math
import random

import numpy as np

from vp import gen, observe, monitors
from vp.ref import RefModel
from vp.runner import open_risks, stable_hash

PID = 'C03'
LEVEL = 'exploration'
RULE = ("seeded small smooth models (1-3 nodes, one node per type so that initial values fingerprint) x random "
        "(T, dt, dts=m*dt, cutoff; T and dts as exact binary values, as products, or as the decimal literals a user writes, "
        "preferring durations whose float quotient T/dt falls just below the integer step count) x solver in euler/heun/scipy(RK45,DOP853,Radau,LSODA) on the default backend, with and "
        "without a white-noise extrinsic input; monitors: online trace specification on the RHS call sequence recorded "
        "inside BaseBackend.run (stepping protocol, storage cadence) and offline comparison of the DataFrame (values, "
        "index, shape, cutoff) with the reference Euler/Heun iterates of the independent reference RHS, or a tight-tolerance "
        "reference solution for adaptive solvers; non-trivial = at least 2 state variables or an input; distinct = distinct "
        "(spec hash, run settings)")
DECIDING = ['trace_calls_checked', 'rows_compared', 'index_checks', 'cutoff_checks', 'adaptive_points_compared',
            'heun_runs', 'euler_runs', 'scipy_runs', 'order_checks', 'durations_with_quotient_just_below_integer', 'oscillator_runs',
            'explicit_time_rows', 'other_backend_rows']
ASSUMPTIONS = ['main sweep: sampling step is an integer multiple of the step, T an integer multiple of the sampling step (other durations: probe family of the recorded finding F-C03-duration-not-multiple-of-sampling-step)',
               'cutoff is either 0, a half-way point between samples or exactly representable',
               'Heun on a time-dependent RHS: either stage-time convention accepted']
CASE_TIMEOUT = 300


def plan(tier, seed):
    rnd = random.Random(f'{PID}-{seed}')
    n = 150 if tier == 'quick' else 4000
    cases = []
    for i in range(n):
        r = rnd.random()
        solver = 'euler' if r < 0.4 else 'heun' if r < 0.7 else 'scipy'
        cases.append({'family': 'main', 'cseed': rnd.randrange(1 << 30), 'solver': solver})
    k = 8 if tier == 'quick' else 80
    cases += [{'family': 'main', 'cseed': rnd.randrange(1 << 30), 'solver': 'order'} for _ in range(k)]
    # relaxation oscillators over several time units with adaptive solvers at moderate tolerance (steps get rejected)
    cases += [{'family': 'oscillator', 'cseed': rnd.randrange(1 << 30), 'solver': 'oscillator'} for _ in range(10 if tier == 'quick' else 200)]
    # the stepping / storage loops of the other backends (sampling step = 2-5 steps, extrinsic input)
    for b in ('jax', 'torch', 'fortran'):
        cases += [{'family': 'other_backends', 'cseed': rnd.randrange(1 << 30), 'solver': 'fixed', 'backend': b, 'mode': 'run_fixed', 'prec': 'float64',
                   'force_sampling': True} for _ in range(6 if tier == 'quick' else 80)]
    # equations that refer to the time t explicitly: adaptive solvers (main sweep) and fixed-step solvers (recorded finding)
    cases += [{'family': 'explicit_time', 'cseed': rnd.randrange(1 << 30), 'solver': 'scipy'} for _ in range(6 if tier == 'quick' else 80)]
    fam = 'probe:duration_not_multiple_of_sampling_step' if 'duration_not_multiple_of_sampling_step' in open_risks(PID) else 'duration'
    cases += [{'family': fam, 'cseed': rnd.randrange(1 << 30), 'solver': sv} for sv in ('euler', 'scipy') for _ in range(3 if tier == 'quick' else 30)]
    fam = 'probe:explicit_time_fixed_step' if 'explicit_time_fixed_step' in open_risks(PID) else 'explicit_time'
    cases += [{'family': fam, 'cseed': rnd.randrange(1 << 30), 'solver': sv} for sv in ('euler', 'heun') for _ in range(4 if tier == 'quick' else 40)]
    # delayed terms (x(t-tau) syntax): runs that are longer than the initial capacity of the history buffer (1024 records)
    cases += [{'family': 'long_dde', 'cseed': rnd.randrange(1 << 30), 'solver': 'euler'} for _ in range(6 if tier == 'quick' else 100)]
    return cases


def run_long_dde_case(case, ctx):
    """x' = c*x + k*x(t-tau), tau = lag*dt, Euler for 1100-2600 steps, sampling every 1, 2 or 5 steps: every returned row must be
    the Euler iterate of the delayed recurrence (constant pre-history) - also after the history buffer has grown."""
    from pyrates import OperatorTemplate, NodeTemplate, CircuitTemplate
    rnd = random.Random(case['cseed'])
    x0, k = round(rnd.uniform(0.2, 0.9), 3), round(rnd.uniform(-0.9, 0.9), 3)
    c = -round(rnd.uniform(0.1, 0.9), 3)
    dt, m = 1e-3, rnd.choice([1, 1, 2, 5])
    lag = rnd.randint(5, 400)
    tau = round(lag * dt, 6)
    steps = rnd.randint(1100 // m, 2600 // m) * m
    mech = {'long_dde_runs': 1}
    res = {'features': ['long_dde', f'm{m}'], 'risk': [], 'sig': stable_hash([x0, c, k, lag, steps, m]), 'nontrivial': True}
    ref = np.empty(steps + 1)
    ref[0] = x0
    for i in range(steps):
        ref[i + 1] = ref[i] + dt * (c * ref[i] + k * (ref[i - lag] if i >= lag else x0))
    ref = ref[:steps:m]
    try:
        op = OperatorTemplate(name='op', equations=[f"d/dt * x = c*x + k*x(t-{tau!r})"], variables={'x': f'output({x0})', 'c': c, 'k': k})
        net = CircuitTemplate(name='net', nodes={'p': NodeTemplate(name='n', operators=[op])})
        out = net.run(simulation_time=steps * dt, step_size=dt, sampling_step_size=m * dt, solver='euler', backend='default', outputs={'x': 'p/op/x'},
                      vectorize=False, clear=True, in_place=False, verbose=False, float_precision='float64')
        x = np.asarray(out['x'].values, dtype=float).squeeze()
    except Exception as e:
        res.update(status='violation', symptom=f"loud: long delayed run raised {type(e).__name__}: {e}", mech=mech)
        return res
    if x.shape != ref.shape:
        res.update(status='violation', symptom=f"silent: long delayed run returned shape {x.shape}, expected {ref.shape}", mech=mech)
        return res
    err = np.abs(x - ref)
    i = int(np.argmax(err))
    if not err[i] <= 1e-9 * max(1.0, float(np.max(np.abs(ref)))):
        first = int(np.nonzero(err > 1e-9)[0][0])
        res.update(status='violation', symptom=f"silent: euler run of x' = c*x + k*x(t-tau) over {steps} steps (lag {lag} steps, sampling every {m}): row {first} is the "
                   f"first that is not the Euler iterate ({x[first]!r} vs {ref[first]!r}), max deviation {err[i]:.3e} at row {i}", mech=mech)
        return res
    mech['rows_compared'] = int(x.size)
    res.update(status='ok', symptom='', mech=mech)
    return res


def warmup(ctx):
    import pyrates  # noqa
    import scipy.integrate  # noqa
    ctx['open_risks'] = open_risks('C01') | open_risks(PID)
    monitors.install()
    monitors.install_trace()


def pick_settings(rnd, exact):
    dt = 2.0 ** -10 if exact else rnd.choice([1e-3, 2e-3, 5e-3, 1e-2])
    m = rnd.choice([1, 1, 2, 3, 5, 10])
    nrows = rnd.randint(3, 30)
    dts = m * dt
    T = nrows * dts
    if not exact and rnd.random() < 0.6:
        # the decimal literal a user would write (0.3, 0.007): T/dt is then often just below the integer
        dts = float(repr(round(dts, 10)))
        if rnd.random() < 0.6:
            # prefer a duration whose quotient T/dt (or T/dts) falls just below the integer number of steps
            cands = [n for n in range(3, 41)
                     if int(float(repr(round(n * dts, 10))) / dt) != int(round(float(repr(round(n * dts, 10))) / dt))
                     or int(float(repr(round(n * dts, 10))) / dts) != n]
            if cands:
                nrows = rnd.choice(cands)
        T = float(repr(round(nrows * dts, 10)))
    r = rnd.random()
    if r < 0.4:
        cutoff, j = 0.0, 0
    elif exact:
        j = rnd.randint(1, nrows - 1)
        cutoff = j * dts
    else:
        j = rnd.randint(0, nrows - 2)
        cutoff = (j + 0.5) * dts
        j = j + 1
    return dt, m, nrows, dts, T, cutoff, j


def run_explicit_time_case(case, ctx):
    """A model whose equations refer to the time t explicitly (x' = -a*x + b*sin(w*t), documented in math_syntax): the fixed-step
    result must be the Euler / Heun iterates with t_k = k*dt, the adaptive result the solution of the ODE."""
    from pyrates import OperatorTemplate, NodeTemplate, CircuitTemplate
    from scipy.integrate import solve_ivp
    rnd = random.Random(case['cseed'])
    solver = case['solver']
    a, b, w = round(rnd.uniform(0.5, 3.0), 3), round(rnd.uniform(0.5, 2.0), 3), round(rnd.uniform(5.0, 40.0), 2)
    x0 = round(rnd.uniform(-1, 1), 3)
    dt = rnd.choice([1e-3, 5e-4, 2e-3])
    steps = rnd.randint(150, 400)
    T = steps * dt
    fixed = solver in ('euler', 'heun')
    mech = {}
    res = {'features': ['explicit_time', solver], 'risk': ['explicit_time_fixed_step'] if fixed else [],
           'sig': stable_hash([a, b, w, x0, dt, steps, solver]), 'nontrivial': True}
    try:
        op = OperatorTemplate(name='t_op', equations=[f"x' = -a*x + b*sin({w}*t)"], variables={'x': f'output({x0})', 'a': a, 'b': b, 't': 'variable(0.0)'})
        c = CircuitTemplate(name='tc', nodes={'n': NodeTemplate(name='t_node', operators=[op])})
        kw = {} if fixed else {'method': 'RK45', 'rtol': 1e-9, 'atol': 1e-11}
        try:
            df = c.run(simulation_time=T, step_size=dt, outputs={'x': 'n/t_op/x'}, solver=solver, verbose=False, clear=True, in_place=False,
                       float_precision='float64', vectorize=False, **kw)
        except Exception as e:
            raise observe.Mismatch(f"loud: run(solver={solver}) of a model with an explicit t raised {type(e).__name__}: {e}")
        got = np.asarray(df.values, dtype=float).ravel()
        f = lambda t, x: -a * x + b * math.sin(w * t)
        if fixed:
            exp = [x0]
            for k in range(steps - 1):
                t_k, x = k * dt, exp[-1]
                if solver == 'euler':
                    exp.append(x + dt * f(t_k, x))
                else:
                    xp = x + dt * f(t_k, x)
                    exp.append(x + 0.5 * dt * (f(t_k, x) + f(t_k, xp)))       # (stage time: see C08 - both stages belong to step k)
            exp = np.array(exp)
            tol = 1e-9
        else:
            times = np.asarray(df.index, dtype=float)
            sol = solve_ivp(lambda t, y: [f(t, y[0])], (0.0, float(times[-1]) + 1e-12), [x0], t_eval=times, rtol=1e-12, atol=1e-14, method='DOP853')
            exp = sol.y[0]
            tol = 1e-6
        if got.shape != exp.shape:
            raise observe.Mismatch(f"run(solver={solver}) returned {got.shape[0]} rows, expected {exp.shape[0]}")
        err = float(np.max(np.abs(got - exp)))
        if not err <= tol * max(1.0, float(np.max(np.abs(exp)))):
            i = int(np.argmax(np.abs(got - exp)))
            raise observe.Mismatch(f"explicit time: x' = -{a}*x + {b}*sin({w}*t), solver={solver}, dt={dt}: row {i} is {got[i]!r}, "
                                   f"{'iterates with t_k = k*dt give' if fixed else 'ODE solution is'} {exp[i]!r} (max abs err {err:.3e})")
        mech['explicit_time_rows'] = int(got.shape[0])
        mech['rows_compared'] = int(got.shape[0])
        res.update(status='ok', symptom='', mech=mech, sample={'equation': f"x' = -a*x + b*sin({w}*t)", 'solver': solver})
    except observe.Mismatch as e:
        s2 = str(e)
        res.update(status='violation', symptom=('silent: ' if 'loud' not in s2 else '') + s2, mech=mech, spec={'a': a, 'b': b, 'w': w})
    return res


def run_duration_case(case, ctx):
    """simulation_time that is a multiple of step_size but NOT of sampling_step_size: the property asks for round(T/dts) rows, row k
    at time k*dts holding the state at that time."""
    from pyrates import OperatorTemplate, NodeTemplate, CircuitTemplate
    rnd = random.Random(case['cseed'])
    solver = case['solver']
    a, x0 = round(rnd.uniform(0.5, 3.0), 3), round(rnd.uniform(0.2, 1.0), 3)
    dt = 0.01
    m = rnd.choice([2, 3, 4])
    dts = m * dt
    nfull = rnd.randint(3, 8)
    extra = rnd.randint(1, m - 1)
    T = round((nfull * m + extra) * dt, 10)
    nrows = int(round(T / dts))
    mech = {}
    res = {'features': ['duration_not_multiple_of_sampling_step', solver], 'risk': ['duration_not_multiple_of_sampling_step'],
           'sig': stable_hash([a, x0, m, nfull, extra, solver]), 'nontrivial': True}
    try:
        op = OperatorTemplate(name='d_op', equations=["x' = -a*x"], variables={'x': f'output({x0})', 'a': a})
        c = CircuitTemplate(name='dc', nodes={'n': NodeTemplate(name='d_node', operators=[op])})
        kw = {} if solver == 'euler' else {'method': 'RK45', 'rtol': 1e-10, 'atol': 1e-12}
        try:
            df = c.run(simulation_time=T, step_size=dt, sampling_step_size=dts, outputs={'x': 'n/d_op/x'}, solver=solver, verbose=False,
                       clear=True, in_place=False, float_precision='float64', vectorize=False, **kw)
        except Exception as e:
            raise observe.Mismatch(f"loud: duration: run(T={T}, step_size={dt}, sampling_step_size={dts}, solver={solver}) raised "
                                   f"{type(e).__name__}: {e}")
        got = np.asarray(df.values, dtype=float).ravel()
        idx = np.asarray(df.index, dtype=float)
        if got.shape[0] != nrows:
            raise observe.Mismatch(f"duration: T={T}, sampling_step_size={dts}: {got.shape[0]} rows, round(T/dts) = {nrows}")
        if not np.allclose(idx, np.arange(nrows) * dts, rtol=0, atol=1e-9):
            raise observe.Mismatch(f"duration: T={T}, sampling_step_size={dts}, solver={solver}: index {idx[:4].round(5).tolist()}... is not k*{dts}")
        exp = x0 * (1 - a * dt) ** (np.arange(nrows) * m) if solver == 'euler' else x0 * np.exp(-a * np.arange(nrows) * dts)
        if not np.allclose(got, exp, rtol=1e-6, atol=1e-9):
            raise observe.Mismatch(f"duration: T={T}, sampling_step_size={dts}, solver={solver}: values {got[:3].tolist()} expected {exp[:3].tolist()}")
        mech['rows_compared'] = int(nrows)
        res.update(status='ok', symptom='', mech=mech)
    except observe.Mismatch as e:
        s2 = str(e)
        res.update(status='violation', symptom=('silent: ' if 'loud' not in s2 else '') + s2, mech=mech, spec={'T': T, 'dts': dts})
    return res


def run_other_backend_case(case, ctx):
    """Fixed-step runs on the torch / jax / fortran backends with a sampling step of 2-5 integration steps and an extrinsic input:
    every backend has its own stepping and storage loop (comparison with the reference iterates by vp/props/c02.py)."""
    from vp.props import c02
    import mpmath
    mpmath.mp.dps = 40
    ctx2 = dict(ctx)
    ctx2.update(mp=mpmath, open_risks=open_risks('C02'), excluded=open_risks('C01') | open_risks('C04') | open_risks('C09'))
    res = c02.run_case(dict(case, family='sampling'), ctx2)
    res['risk'] = []
    m = res.setdefault('mech', {})
    if res.get('status') == 'ok':
        m['other_backend_rows'] = m.get('rows_compared', 0)
        m[case['backend'] + '_fixed_step_runs'] = 1
    res['features'] = list(res.get('features', [])) + ['other_backend']
    return res


def run_case(case, ctx):
    if case.get('family') == 'other_backends':
        return run_other_backend_case(case, ctx)
    if case.get('family') == 'long_dde':
        return run_long_dde_case(case, ctx)
    if case.get('family') in ('explicit_time', 'probe:explicit_time_fixed_step'):
        return run_explicit_time_case(case, ctx)
    if case.get('family') in ('duration', 'probe:duration_not_multiple_of_sampling_step'):
        return run_duration_case(case, ctx)
    rnd = random.Random(case['cseed'])
    mech = {}
    monitors.reset()
    n_nodes = rnd.choice([1, 1, 2, 3])
    spec, feats, risk = gen.gen_net(rnd, n_nodes=n_nodes, pool=gen.SAFE_POOL, depth=rnd.choice([0, 0, 1]),
                                    forbid=ctx['open_risks'], unique_types=True, max_types=n_nodes)
    ref = RefModel(spec)
    res = {'features': feats + [case['solver']], 'risk': risk, 'nontrivial': len(ref.state_keys) >= 2}
    keys = list(ref.state_keys)
    rnd.shuffle(keys)
    keys = keys[:rnd.randint(1, len(keys))]
    outputs = {f'o{i}': '/'.join(k) for i, k in enumerate(keys)}
    exact = rnd.random() < 0.3
    dt, m, nrows, dts, T, cutoff, jcut = pick_settings(rnd, exact)
    # optional extrinsic input on an unconnected input variable
    inputs = None
    input_fn = None
    in_keys = [k for k in ref.param_keys if ref.kind[k] == 'in' and not ref._intra_sources(k)
               and not any(e['tgt'] == k for e in ref.edges)]
    steps = int(round(T / dt))
    if int(T / dt) != steps:
        mech['durations_with_quotient_just_below_integer'] = 1
    use_input = bool(in_keys) and rnd.random() < 0.4 and case['solver'] in ('euler', 'heun')
    if use_input:
        ik = rnd.choice(in_keys)
        nrs = np.random.RandomState(case['cseed'] % (2 ** 31))
        arr = nrs.standard_normal(steps + 1)
        inputs = {'/'.join(ik): arr[:steps].copy()}
        input_fn = lambda k, ik=ik, arr=arr: {ik: float(arr[min(k, steps - 1)])} if k < steps else {ik: float(arr[steps - 1])}
        res['features'].append('extrinsic_input')
        res['nontrivial'] = True
    settings = {'T': T, 'dt': dt, 'dts': dts, 'm': m, 'cutoff': cutoff, 'solver': case['solver'], 'outputs': outputs,
                'input': list(inputs) if inputs else None}
    res['sig'] = stable_hash([spec, settings])
    try:
        if case['solver'] == 'oscillator':
            msg = oscillator_check(rnd, mech)
        elif case['solver'] == 'order':
            msg = order_check(spec, ref, keys, outputs, rnd, mech)
        elif case['solver'] in ('euler', 'heun'):
            msg = fixed_step(spec, ref, keys, outputs, case['solver'], dt, m, nrows, dts, T, cutoff, jcut, inputs,
                             input_fn, mech, rnd)
        else:
            msg = adaptive(spec, ref, keys, outputs, dt, nrows, dts, T, cutoff, jcut, mech, rnd)
    except observe.Mismatch as e:
        msg = str(e)
    if msg == 'discard':
        res.update(status='discard', symptom='reference not finite', mech=mech)
        return res
    if msg:
        res.update(status='violation', symptom=msg, mech=mech, spec=spec, settings=settings)
    else:
        res.update(status='ok', symptom='', mech=mech)
        res['sample'] = {'settings': settings, 'n_state': len(ref.state_keys), 'observed': dict(mech)}
    return res


def _run(spec, outputs, **kw):
    try:
        return observe.run_model(spec, outputs=outputs, **kw)
    except Exception as e:
        import traceback
        raise observe.Mismatch(f"loud: run raised {type(e).__name__}: {e} :: {traceback.format_exc()[-800:]}")


def check_frame(df, names, nrows, dts, cutoff, jcut, mech):
    """shape / index / cutoff part of the property."""
    idx = np.asarray(df.index, dtype=float)
    if list(df.columns) != list(names):
        return f"columns {list(df.columns)} != requested outputs {list(names)}"
    exp_rows = nrows - jcut
    if df.shape[0] != exp_rows:
        return (f"{df.shape[0]} rows returned, expected round(T/dts)={nrows} minus {jcut} rows with time < cutoff={cutoff!r} "
                f"(index {idx[:3].tolist()}..{idx[-2:].tolist()})")
    exp_idx = np.arange(jcut, nrows) * dts
    if not np.allclose(idx, exp_idx, rtol=1e-9, atol=1e-12):
        return f"index {idx[:4].tolist()} != expected times {exp_idx[:4].tolist()}"
    mech['index_checks'] = mech.get('index_checks', 0) + 1
    if jcut:
        if idx.size and idx[0] < cutoff - 1e-12:
            return f"row with time {idx[0]} < cutoff {cutoff} was returned"
        mech['cutoff_checks'] = mech.get('cutoff_checks', 0) + 1
    else:
        mech['cutoff_checks'] = mech.get('cutoff_checks', 0) + (1 if cutoff == 0.0 else 0)
    return None


def check_trace(solver, dt, m, steps, nrows, mech):
    """Online trace specification on the recorded RHS call sequence (default backend)."""
    tr = monitors.get_trace()
    if tr is None:
        return 'inconclusive: no trace recorded'
    calls = tr['calls']
    per = 1 if solver == 'euler' else 2
    if len(calls) != per * steps:
        return f"trace: {len(calls)} RHS calls for {steps} {solver} steps (expected {per * steps})"
    y = np.array(tr['y0'], dtype=float, copy=True)
    t0 = tr['t0']
    states = []
    for k in range(steps):
        t, yk, rk, _ = calls[per * k]
        if t != t0 + k:
            return f"trace: call for step {k} received t={t!r}, expected step counter {t0 + k}"
        if not np.allclose(yk, y, rtol=1e-13, atol=1e-15):
            return (f"trace: state passed to the RHS at step {k} is {yk.tolist()[:4]} but the {solver} iterate from the "
                    f"recorded returns is {y.tolist()[:4]}")
        states.append(yk)
        if solver == 'euler':
            y = yk + dt * rk
        else:
            t2, y2, r2, _ = calls[2 * k + 1]
            ypred = yk + dt * rk
            if not np.allclose(y2, ypred, rtol=1e-13, atol=1e-15):
                return f"trace: Heun predictor at step {k} is {y2.tolist()[:4]}, expected y+dt*k1={ypred.tolist()[:4]}"
            if t2 not in (t, t + 1):
                return f"trace: Heun second stage at step {k} received t={t2!r}"
            y = yk + dt / 2 * (rk + r2)
        mech['trace_calls_checked'] = mech.get('trace_calls_checked', 0) + per
    return states


def fixed_step(spec, ref, keys, outputs, solver, dt, m, nrows, dts, T, cutoff, jcut, inputs, input_fn, mech, rnd):
    steps = int(round(T / dt))
    df = _run(spec, outputs, T=T, dt=dt, solver=solver, dts=dts, cutoff=cutoff, inputs=inputs)
    mech[solver + '_runs'] = mech.get(solver + '_runs', 0) + 1
    msg = check_frame(df, list(outputs), nrows, dts, cutoff, jcut, mech)
    if msg:
        return msg
    states = check_trace(solver, dt, m, steps, nrows, mech)
    if isinstance(states, str):
        return states
    # offline: reference iterates of the reference RHS
    rows = list(range(jcut * m, steps, m))
    exps = []
    for stage2 in ['same']:      # both Heun stages of integration step k use input sample k (C08)
        exp_full = observe.ref_trajectory(ref, keys, steps, dt, heun=(solver == 'heun'), input_fn=input_fn, stage2=stage2)
        exps.append(exp_full[rows])
    got = df.values
    msgs = [observe.compare_traj(got, e, rtol=1e-7) for e in exps]
    if all(msgs):
        if 'discard' in msgs:
            return 'discard'
        return f"{solver} result differs from the reference iterates: " + msgs[0]
    mech['rows_compared'] = mech.get('rows_compared', 0) + got.shape[0]
    # first row is the initial state
    if jcut == 0:
        y0 = np.array([float(ref.val[k]) for k in keys])
        if not np.array_equal(got[0], y0):
            return f"first row {got[0].tolist()} is not the declared initial state {y0.tolist()}"
    # row j of the result equals the traced state y_{j*m}: locate columns by initial value fingerprint
    y0_full = states[0]
    for ci, k in enumerate(keys):
        v = float(ref.val[k])
        hits = np.nonzero(y0_full == v)[0]
        if len(hits) == 1:
            col = np.array([states[r][hits[0]] for r in rows])
            if not np.allclose(got[:, ci], col, rtol=1e-13, atol=0):
                return (f"storage cadence: column {list(outputs)[ci]} rows {got[:3, ci].tolist()} are not the traced states "
                        f"at steps {rows[:3]} ({col[:3].tolist()})")
            mech['cadence_checks'] = mech.get('cadence_checks', 0) + 1
    return None


def oscillator_check(rnd, mech):
    """scipy methods at rtol 1e-6 on two coupled van der Pol units over several time units: the sampled solution must be within
    50*rtol of a tight-tolerance reference solution (shape, index as usual)"""
    from scipy.integrate import solve_ivp
    from vp.props.c02 import oscillator_spec
    spec = oscillator_spec(rnd)
    ref = RefModel(spec)
    keys = list(ref.state_keys)
    outputs = {f'o{i}': '/'.join(k) for i, k in enumerate(keys)}
    method = rnd.choice(['RK45', 'RK45', 'RK23', 'DOP853', 'LSODA'])
    T, dts, rtol = rnd.choice([4.0, 6.0, 8.0]), 0.05, 1e-6
    nrows = int(round(T / dts))
    df = _run(spec, outputs, T=T, dt=1e-3, solver='scipy', dts=dts, cutoff=0.0, method=method, rtol=rtol, atol=1e-9)
    mech['scipy_runs'] = mech.get('scipy_runs', 0) + 1
    mech['oscillator_runs'] = mech.get('oscillator_runs', 0) + 1
    msg = check_frame(df, list(outputs), nrows, dts, 0.0, 0, mech)
    if msg:
        return msg
    p = ref.p0()

    def f(t, y):
        d, _ = ref.rhs(dict(zip(keys, y)), p, t)
        return [d[k] for k in keys]
    times = np.arange(0, nrows) * dts
    sol = solve_ivp(f, (0.0, T), [float(ref.val[k]) for k in keys], method='DOP853', rtol=1e-12, atol=1e-14, t_eval=times)
    if not sol.success:
        return 'discard'
    err = float(np.max(np.abs(df.values - sol.y.T)))
    scale = max(1.0, float(np.max(np.abs(sol.y))))
    # how far the SAME method at the SAME tolerances is from the solution when it integrates the reference right-hand side: the
    # global error of an adaptive method on a relaxation oscillation is not a fixed multiple of rtol (LSODA reaches 2e-4 at
    # rtol 1e-6), so the run is judged against what the method itself achieves, not against a constant
    hand = solve_ivp(f, (0.0, T), [float(ref.val[k]) for k in keys], method=method, rtol=rtol, atol=1e-9, t_eval=times)
    if not hand.success:
        return 'discard'
    err_hand = float(np.max(np.abs(hand.y.T - sol.y.T)))
    allowed = 5 * err_hand + 20 * rtol * scale
    if not err <= allowed:
        return (f"scipy/{method} at rtol={rtol} on coupled van der Pol units over T={T}: deviates from the tight-tolerance reference by "
                f"{err:.3e}; the same method and tolerances on the reference right-hand side deviate by {err_hand:.3e} (allowed {allowed:.1e})")
    mech['adaptive_points_compared'] = mech.get('adaptive_points_compared', 0) + df.shape[0]
    return None


def adaptive(spec, ref, keys, outputs, dt, nrows, dts, T, cutoff, jcut, mech, rnd):
    from scipy.integrate import solve_ivp
    method = rnd.choice(['RK45', 'DOP853', 'Radau', 'LSODA'])
    rtol = 1e-8
    df = _run(spec, outputs, T=T, dt=dt, solver='scipy', dts=dts, cutoff=cutoff, method=method, rtol=rtol, atol=1e-10)
    mech['scipy_runs'] = mech.get('scipy_runs', 0) + 1
    mech['scipy_' + method] = mech.get('scipy_' + method, 0) + 1
    msg = check_frame(df, list(outputs), nrows, dts, cutoff, jcut, mech)
    if msg:
        return msg
    skeys = list(ref.state_keys)
    p = ref.p0()

    def f(t, y):
        d, _ = ref.rhs(dict(zip(skeys, y)), p, t)
        return [d[k] for k in skeys]

    times = np.arange(jcut, nrows) * dts
    y0 = [float(ref.val[k]) for k in skeys]
    sol = solve_ivp(f, (0.0, T), y0, method='DOP853', rtol=1e-12, atol=1e-14, t_eval=times)
    if not sol.success:
        return 'discard'
    cols = [skeys.index(k) for k in keys]
    exp = sol.y.T[:, cols]
    got = df.values
    scale = max(1.0, float(np.max(np.abs(sol.y))))
    if scale > 1e4:
        # a solution that grows by orders of magnitude amplifies the step errors of ANY adaptive run exponentially; the global error is
        # then no fixed multiple of rtol (same rule as observe.compare_traj uses for fixed-step runs)
        return 'discard'
    err = float(np.max(np.abs(got - exp))) if got.size else 0.0
    if not err <= 50 * rtol * scale + 1e-8:
        k = int(np.argmax(np.max(np.abs(got - exp), axis=1)))
        return (f"scipy/{method} result deviates from the tight-tolerance reference by {err:.3e} at t={times[k]!r} "
                f"(allowed {50 * rtol * scale + 1e-8:.1e}): got {got[k].tolist()} ref {exp[k].tolist()}")
    mech['adaptive_points_compared'] = mech.get('adaptive_points_compared', 0) + got.size
    return None


def order_check(spec, ref, keys, outputs, rnd, mech):
    """Convergence monitor: halving dt must reduce the error of Euler by ~2 and of Heun by ~4 w.r.t. a tight reference."""
    from scipy.integrate import solve_ivp
    skeys = list(ref.state_keys)
    p = ref.p0()

    def f(t, y):
        d, _ = ref.rhs(dict(zip(skeys, y)), p, t)
        return [d[k] for k in skeys]

    T = 0.32
    y0 = [float(ref.val[k]) for k in skeys]
    sol = solve_ivp(f, (0.0, T), y0, method='DOP853', rtol=1e-12, atol=1e-14, t_eval=[T - 0.02])
    if not sol.success:
        return 'discard'
    cols = [skeys.index(k) for k in keys]
    exact = sol.y[cols, -1]
    for solver, lo, hi in (('euler', 1.6, 2.6), ('heun', 3.0, 5.5)):
        errs = []
        for dt in (0.004, 0.002):
            df = _run(spec, outputs, T=T, dt=dt, solver=solver, dts=0.02, cutoff=0.0)
            errs.append(np.max(np.abs(df.values[-1] - exact)))
        if errs[0] < 1e-9 or errs[1] < 1e-11:
            continue   # error too small to measure an order
        ratio = errs[0] / errs[1]
        mech['order_checks'] = mech.get('order_checks', 0) + 1
        if not lo <= ratio <= hi:
            return f"{solver}: error ratio when halving dt is {ratio:.2f} (errors {errs}), expected within [{lo},{hi}]"
    return None


# MANIFEST-BEGIN
MANIFEST = {
    'technique': 'online trace checker on the RHS call sequence recorded inside BaseBackend.run + offline comparison of the returned DataFrame with independent reference iterates / tight-tolerance solutions',
    'level_text': 'For each generated model and random (T, dt, dts, cutoff, solver) the recorded sequence of vector-field calls is checked against the Euler/Heun stepping protocol (step counter, state passed, values returned at call time, predictor), the DataFrame is checked for shape, index, cutoff, first row and storage cadence, and its values are compared with the reference iterates of the independent reference RHS (1e-7) or, for scipy methods RK45/DOP853/Radau/LSODA, with a 1e-12 reference solution (50*rtol); both Heun stages use the input sample of their step; an order-of-convergence monitor checks Euler ratio ~2 and Heun ~4. Durations are given as exact binary values, as products and as the decimal literals a user writes, preferring T whose float quotient T/dt lies just below the integer step count. Relaxation oscillators integrated with scipy methods at rtol 1e-6 are judged against the error that the same method and tolerances reach on the reference right-hand side (5x + 20*rtol; rejected steps). Equations with an explicit t: adaptive solvers in the main sweep, euler / heun as probe family of a recorded finding; durations that are no multiple of the sampling step: probe family of a recorded finding. A long_dde family runs x(t-tau) models for 1100-2600 steps (more records than the first capacity of the history buffer) with sampling every 1, 2 or 5 steps against the Euler iterates. Held on the observed runs only.',
    'level_note': 'Trusted: vp/ref.py reference RHS and integrators, scipy DOP853 at rtol 1e-12 as the adaptive reference. Mainly the default backend; a family of fixed-step runs with coarser sampling and inputs on torch / jax / fortran shares its machinery with C02. Models are smooth and moderately stable by construction.',
}
# MANIFEST-END
