"""C10 - Delayed terms read the true past of the trajectory."""
import bisect
import math
import random

import numpy as np

from vp import gen, observe, monitors, expr as E
from vp.ref import RefModel
from vp.runner import open_risks, stable_hash

PID = 'C10'
LEVEL = 'exploration'
RULE = ("seeded models with 1-3 delays on 1-3 state variables written as past(x, tau) or x(t-tau) (1-2 nodes, or 2-4 structurally identical nodes compiled with vectorize=True; optional delayed "
        "edges under an adaptive solver); (a) the compiled function is called with a hand-made analytic history "
        "hist(t)_i = sin(a_i t + b_i) at random (t, y) for fixed-step builds (t is a step counter) and adaptive builds and must "
        "equal the reference RHS evaluated with hist(t - tau); (b) run() with euler/heun is compared with a method-of-steps "
        "reference that interpolates its own iterates linearly (constant pre-history), run() with scipy with a fine-step "
        "reference solution; non-trivial = >= 1 delayed term on a variable that is not the first state variable or >= 2 "
        "delays; distinct = distinct (spec, mode) hash")
DECIDING = ['probe_points_fixed', 'probe_points_adaptive', 'euler_rows_compared', 'scipy_rows_compared', 'delays_on_nonfirst_state',
            'multi_delay_models', 'tminus_syntax', 'past_syntax', 'vectorized_models', 'long_history_runs', 'complex_history_runs',
            'runs_with_coarser_sampling', 'torch_euler_runs']
ASSUMPTIONS = ['delayed variables are state variables of the operator that uses them', 'constant pre-history = declared initial state',
               'adaptive runs: PyRates records accepted steps only, its linear interpolation error is tolerated (2e-3 relative)']
CASE_TIMEOUT = 300
FOCUS = ['delayed_edge_adaptive', 'negative_coefficient_on_past', 'edge_delay_exactly_one', 'vectorized_parameter_delay']


def plan(tier, seed):
    rnd = random.Random(f'{PID}-{seed}')
    n = 130 if tier == 'quick' else 3000
    cases = []
    for _ in range(n):
        r = rnd.random()
        mode = 'probe_fixed' if r < 0.3 else 'probe_adaptive' if r < 0.6 else 'euler' if r < 0.8 else 'heun' if r < 0.87 else 'scipy'
        cases.append({'family': 'main', 'cseed': rnd.randrange(1 << 30), 'mode': mode})
    # vectorized DDE models: 2-4 structurally identical nodes (merged into vector-valued variables) with past() terms
    for _ in range(40 if tier == 'quick' else 900):
        cases.append({'family': 'vectorized', 'cseed': rnd.randrange(1 << 30), 'vec_n': rnd.choice([2, 2, 3, 4]),
                      'mode': rnd.choice(['probe_fixed', 'probe_adaptive', 'probe_adaptive', 'euler', 'scipy'])})
    for _ in range(24 if tier == 'quick' else 500):
        cases.append({'family': 'vectorized', 'cseed': rnd.randrange(1 << 30), 'vec_n': rnd.choice([2, 3, 3, 4]), 'vec_edges': True,
                      'mode': rnd.choice(['probe_adaptive', 'probe_adaptive', 'scipy'])})
    # delays given as named operator constants (past(x, tau_a)), scalar models
    for _ in range(24 if tier == 'quick' else 500):
        cases.append({'family': 'param_delays', 'cseed': rnd.randrange(1 << 30),
                      'mode': rnd.choice(['probe_fixed', 'probe_adaptive', 'probe_adaptive', 'euler', 'scipy'])})
    # long runs (more history records than the initial capacity of the history buffer) of linear DDEs, real and complex valued,
    # against a hand-written loop that reads the delayed value from the trajectory computed so far
    for i_ in range(8 if tier == 'quick' else 120):
        cases.append({'family': 'long_history', 'cseed': rnd.randrange(1 << 30), 'mode': 'long_history', 'cplx': i_ % 2 == 0})
    opened = open_risks(PID)
    k = 10 if tier == 'quick' else 80
    for feat in FOCUS:
        fam = 'probe:' + feat if feat in opened else 'main'
        cases += [{'family': fam, 'cseed': rnd.randrange(1 << 30), 'want': feat,
                   'mode': rnd.choice(['probe_adaptive', 'scipy']) if feat == 'delayed_edge_adaptive' else
                   'probe_adaptive' if feat == 'edge_delay_exactly_one' else
                   rnd.choice(['probe_fixed', 'probe_adaptive']) if feat == 'vectorized_parameter_delay' else
                   rnd.choice(['probe_fixed', 'probe_adaptive', 'euler'])} for _ in range(k)]
    return cases


def warmup(ctx):
    import pyrates  # noqa
    import scipy.integrate  # noqa
    import mpmath
    mpmath.mp.dps = 40
    ctx['mp'] = mpmath
    ctx['open_risks'] = open_risks(PID)
    monitors.install()


def gen_dde(rnd, want=None, single=False, int_delays=False, param_delays=False):
    """small DDE spec: 1-2 nodes, each with one operator with 2-3 state variables, delayed terms on some."""
    vals = gen.Vals(rnd)
    ops, nts, nodes = {}, {}, {}
    n_nodes = rnd.choice([1, 1, 2]) if want not in ('delayed_edge_adaptive', 'edge_delay_exactly_one') else 2
    if single:
        n_nodes = 1
    style = rnd.choice(['past', 't-'])
    n_delays_total = 0
    nonfirst = False
    flags = {}
    for ni in range(n_nodes):
        names = rnd.sample(['x', 'z', 'r', 'v', 'q', 'w'], rnd.choice([2, 3]))
        consts = ['k', 'c']
        vars_ = {names[0]: ['out', vals.new()]}
        for s in names[1:]:
            vars_[s] = ['var', vals.new()]
        for c in consts:
            vars_[c] = ['const', vals.new()]
        inname = 'u'
        vars_[inname] = ['in', 0.0]
        eqs = []
        taus = [round(rnd.uniform(0.004, 0.03), 4) for _ in range(3)]
        if int_delays:
            taus = [float(x) for x in rnd.sample([1, 2, 3, 5, 10, 20, 30, 100], 3)]     # whole-number delays (x(t-10))
        for si, s in enumerate(names):
            ex = E.neg(E.mul(E.var('k'), E.var(s)))
            nd = rnd.choice([0, 1, 1, 2])
            for _ in range(nd):
                dv = rnd.choice(names)
                tau = rnd.choice(taus)
                if param_delays:
                    # the delay is a named constant of the operator (past(x, tau_a)) instead of a literal
                    tname = f'tau_{"abc"[taus.index(tau)]}'
                    vars_[tname] = ['const', tau]
                    term = E.call('past', E.var(dv), E.var(tname))
                else:
                    term = E.call('past', E.var(dv), E.num(tau))
                neg_ok = want == 'negative_coefficient_on_past'

                def coef():
                    c = E.rnd_coef(rnd)
                    if c < 0:
                        if neg_ok:
                            flags['neg'] = True
                        else:
                            c = round(-c, 2)
                    return c
                if rnd.random() < 0.4:
                    term = E.mul(term, E.var(rnd.choice(names)))     # product of delayed and instantaneous factor
                if rnd.random() < 0.3:
                    term = E.call(rnd.choice(['sin', 'tanh']), E.mul(E.num(coef()), term))
                ex = E.add(ex, E.mul(E.num(coef()), term))
                n_delays_total += 1
                if names.index(dv) > 0 or ni > 0:
                    nonfirst = True
            if rnd.random() < 0.6:
                ex = E.add(ex, E.mul(E.var('c'), E.call('tanh', E.mul(E.num(E.rnd_coef(rnd)), E.var(rnd.choice(names))))))
            if si == 0:
                ex = E.add(ex, E.mul(E.num(E.rnd_coef(rnd)), E.var(inname)))
            eqs.append(['de', s, E.tolist(ex)])
        opn = f'dde_op{ni}'
        ops[opn] = {'eqs': eqs, 'vars': vars_}
        nts[f'nt{ni}'] = {'ops': [opn], 'over': {}}
        nodes[f'n{ni}'] = f'nt{ni}'
    edges = []
    if n_nodes == 2 and (want in ('delayed_edge_adaptive', 'edge_delay_exactly_one') or rnd.random() < 0.5):
        s_out = [v for v, d in ops['dde_op0']['vars'].items() if d[0] == 'out'][0]
        a = {'weight': round(vals.new() * 2, 4)}
        if want == 'delayed_edge_adaptive':
            a['delay'] = round(rnd.uniform(0.004, 0.03), 4)
        if want == 'edge_delay_exactly_one':
            a['delay'] = 1.0     # the value that PyRates also uses internally as its "no delay" marker
        edges.append(['n0/dde_op0/' + s_out, 'n1/dde_op1/u', None, a])
    spec = {'ops': ops, 'node_types': nts, 'edge_types': {}, 'circ': {'name': 'c', 'nodes': nodes, 'subs': {}, 'edges': edges}}
    info = {'style': style, 'n_delays': n_delays_total, 'nonfirst': nonfirst, 'neg': bool(flags.get('neg')), 'int_delays': bool(int_delays), 'param_delays': bool(param_delays)}
    return spec, info


class LinHist:
    """piecewise-linear history of a reference trajectory with constant pre-history"""

    def __init__(self, keys, y0, t0=0.0):
        self.keys = list(keys)
        self.t = [t0]
        self.y = [np.array([y0[k] for k in self.keys], dtype=float)]

    def add(self, t, ydict):
        self.t.append(t)
        self.y.append(np.array([ydict[k] for k in self.keys], dtype=float))

    def __call__(self, key, tq):
        j = self.keys.index(key)
        if tq <= self.t[0]:
            return float(self.y[0][j])
        if tq >= self.t[-1]:
            return float(self.y[-1][j])
        i = bisect.bisect_right(self.t, tq) - 1
        a = (tq - self.t[i]) / (self.t[i + 1] - self.t[i])
        return float(self.y[i][j] + a * (self.y[i + 1][j] - self.y[i][j]))


def ref_fixed(ref, steps, dt, keys, heun=False):
    """method of steps for the fixed-step solvers: the delayed value is the linear interpolant of the iterates so far"""
    y = ref.y0()
    p = ref.p0()
    H = LinHist(ref.state_keys, y)
    rec = []
    for k in range(steps):
        rec.append([y[q] for q in keys])
        f, _ = ref.rhs(y, p, k * dt, hist=H)
        if heun:
            y1 = {q: y[q] + dt * f[q] for q in y}
            f2, _ = ref.rhs(y1, p, k * dt, hist=H)
            y = {q: y[q] + dt / 2 * (f[q] + f2[q]) for q in y}
        else:
            y = {q: y[q] + dt * f[q] for q in y}
        H.add((k + 1) * dt, y)
    return np.array(rec)


def ref_fine(ref, T, times, keys, h=2e-5):
    """fine-step RK4 method-of-steps reference (linear interpolation of its own fine history)"""
    y = ref.y0()
    p = ref.p0()
    sk = list(ref.state_keys)
    H = LinHist(sk, y)
    out = []
    ti = 0
    n = int(round(T / h))
    t = 0.0

    def f(tt, yy):
        d, _ = ref.rhs(yy, p, tt, hist=H)
        return d
    for i in range(n + 1):
        while ti < len(times) and times[ti] <= t + 1e-12:
            out.append([y[q] for q in keys])
            ti += 1
        k1 = f(t, y)
        y2 = {q: y[q] + h / 2 * k1[q] for q in sk}
        k2 = f(t + h / 2, y2)
        y3 = {q: y[q] + h / 2 * k2[q] for q in sk}
        k3 = f(t + h / 2, y3)
        y4 = {q: y[q] + h * k3[q] for q in sk}
        k4 = f(t + h, y4)
        y = {q: y[q] + h / 6 * (k1[q] + 2 * k2[q] + 2 * k3[q] + k4[q]) for q in sk}
        t = (i + 1) * h
        H.add(t, y)
    return np.array(out)


def run_long_history(case, ctx):
    """z' = c*z + k*past(z, tau), tau = m*dt, Euler for 1100-2600 steps; complex (complex128) or real (float64) coefficients"""
    from pyrates import OperatorTemplate, NodeTemplate, CircuitTemplate
    rnd = random.Random(case['cseed'])
    cplx = rnd.random() < 0.6
    if 'cplx' in case:
        cplx = bool(case['cplx'])        # (set by the plan, so that every run sees both kinds)
    mk = (lambda: complex(round(rnd.uniform(-0.9, 0.9), 3), round(rnd.uniform(-2.0, 2.0), 3))) if cplx else (lambda: round(rnd.uniform(-0.9, 0.9), 3))
    z0, c, k = mk(), mk(), mk()
    if cplx:
        c = complex(-abs(c.real), c.imag)
    else:
        c = -abs(c)
    dt = 1e-3
    lag = rnd.randint(5, 400)
    tau = round(lag * dt, 6)
    steps = rnd.randint(1100, 2600)
    mech = {'long_history_runs': 1, 'complex_history_runs': 1 if cplx else 0}
    res = {'features': ['long_history', 'complex' if cplx else 'real'], 'risk': [], 'sig': stable_hash([z0.real if cplx else z0, str(c), str(k), lag, steps]),
           'nontrivial': True}
    ref = np.empty(steps + 1, dtype=np.complex128 if cplx else np.float64)
    ref[0] = z0
    for i in range(steps):
        zd = ref[i - lag] if i >= lag else z0
        ref[i + 1] = ref[i] + dt * (c * ref[i] + k * zd)
    ref = ref[:steps]
    fmt = (lambda v: f"{v.real!r}{'+' if v.imag >= 0 else '-'}{abs(v.imag)!r}j") if cplx else (lambda v: repr(float(v)))
    try:
        op = OperatorTemplate(name='op', equations=[f"d/dt * z = c*z + k*past(z, {tau!r})"],
                              variables={'z': f'output({fmt(z0)})', 'c': c, 'k': k})
        net = CircuitTemplate(name='net', nodes={'p': NodeTemplate(name='n', operators=[op])})
        out = net.run(simulation_time=steps * dt, step_size=dt, sampling_step_size=dt, solver='euler', backend='default', outputs={'z': 'p/op/z'},
                      vectorize=False, clear=True, in_place=False, verbose=False, float_precision='complex128' if cplx else 'float64')
        z = np.asarray(out['z'].values).squeeze()
    except Exception as e:
        import traceback
        res.update(status='violation', symptom=f"loud: long DDE run raised {type(e).__name__}: {e} :: {traceback.format_exc()[-300:]}", mech=mech)
        return res
    if z.shape != ref.shape:
        res.update(status='violation', symptom=f"silent: long DDE run returned shape {z.shape}, expected {ref.shape}", mech=mech)
        return res
    err = np.abs(z - ref)
    bad = np.flatnonzero(err > 1e-9 * max(1.0, float(np.abs(ref).max())))
    if bad.size:
        i = int(bad[0])
        res.update(status='violation', mech=mech,
                   symptom=(f"silent: {'complex' if cplx else 'real'} DDE z' = c*z + k*past(z, {tau}) over {steps} Euler steps: first deviation from the "
                            f"hand-written loop at step {i} (PyRates {z[i]!r}, reference {ref[i]!r}); steps before that agree"))
        return res
    mech['euler_rows_compared'] = steps
    res.update(status='ok', symptom='', mech=mech, sample={'z0': str(z0), 'c': str(c), 'k': str(k), 'lag_steps': lag, 'steps': steps})
    return res


def run_case(case, ctx):
    if case.get('family') == 'long_history':
        return run_long_history(case, ctx)
    rnd = random.Random(case['cseed'])
    if case.get('spec') is not None:
        spec, info = case['spec'], case['info']
    else:
        for _ in range(200):
            wantv = case.get('want') == 'vectorized_parameter_delay'
            pd_ = wantv or (case.get('family') == 'param_delays')
            spec, info = gen_dde(rnd, case.get('want'), single=case.get('family') == 'vectorized' or wantv,
                                 int_delays=case.get('mode', '').startswith('probe') and rnd.random() < 0.2 and not pd_,
                                 param_delays=pd_)
            if info['n_delays'] >= 1 and (case.get('want') != 'negative_coefficient_on_past' or info['neg']):
                break
        if case.get('family') == 'vectorized' or wantv:
            # replicate the node: same operator, unique initial values (and, half of the time, unique constants) per node
            N = case.get('vec_n') or rnd.choice([1, 2, 3])
            spec['circ']['nodes'] = {f'n{i}': 'nt0' for i in range(N)}
            spec = gen.individualize(spec, rnd, params='different' if wantv else rnd.choice(['different', 'equal']))
            info['vec_n'] = N
            if case.get('family') == 'vectorized' and case.get('vec_edges') and N >= 2:
                # delayed edges between the merged nodes (adaptive solvers read them through hist as well)
                s_out = [v for v, d in spec['ops']['dde_op0']['vars'].items() if d[0] == 'out'][0]
                pairs = [(i, j) for i in range(N) for j in range(N) if i != j]
                rnd.shuffle(pairs)
                used_t = set()
                if rnd.random() < 0.4:
                    # instead: ONE node of another type (not merged, scalar source variable) projects to the merged nodes with a
                    # different delay per connection
                    pairs = []
                    spec['ops']['src_op'] = {'eqs': [['de', 'sx', E.tolist(E.neg(E.mul(E.var('ks'), E.var('sx'))))]],
                                             'vars': {'sx': ['out', 0.77], 'ks': ['const', 0.9]}}
                    spec['node_types']['nt_src'] = {'ops': ['src_op'], 'over': {}}
                    spec['circ']['nodes']['srcn'] = 'nt_src'
                    dl_ = rnd.sample([0.004, 0.007, 0.011, 0.016, 0.023, 0.03], N)
                    for j in range(N):
                        spec['circ']['edges'].append(['srcn/src_op/sx', f'n{j}/dde_op0/u', None,
                                                      {'weight': round(rnd.uniform(0.3, 1.9), 3), 'delay': dl_[j] if rnd.random() < 0.8 else dl_[0]}])
                    info['scalar_source_delays'] = True
                for (i, j) in pairs:
                    if j in used_t or rnd.random() < 0.3:
                        continue
                    used_t.add(j)
                    spec['circ']['edges'].append([f'n{i}/dde_op0/{s_out}', f'n{j}/dde_op0/u', None,
                                                  {'weight': round(rnd.uniform(0.3, 1.9), 3), 'delay': round(rnd.uniform(0.004, 0.03), 4)}])
                info['vec_edges'] = len(spec['circ']['edges'])
    mode = case['mode']
    E.PAST_STYLE[0] = info['style']
    E.INT_DELAY_STYLE[0] = bool(info.get('int_delays'))
    E.SPLIT_DELAY_STYLE[0] = info['style'] == 't-' and random.Random(case['cseed'] + 3).random() < 0.3
    mech = {}
    if E.SPLIT_DELAY_STYLE[0]:
        mech['difference_chain_delays'] = 1
    risk = []
    ref = RefModel(spec)
    if any(e['delay'] for e in ref.edges):
        risk.append('delayed_edge_adaptive')
    if any(e['delay'] and float(e['delay']) == 1.0 for e in ref.edges):
        risk.append('edge_delay_exactly_one')
    if info.get('vec_n') and info.get('param_delays'):
        risk.append('vectorized_parameter_delay')
    if info.get('vec_edges'):
        mech['vectorized_delayed_edges'] = 1
    if info.get('scalar_source_delays'):
        mech['scalar_source_several_delays'] = 1
    if info.get('neg'):
        risk.append('negative_coefficient_on_past')
    res = {'features': [mode, info['style'], f"delays{min(info['n_delays'], 4)}"], 'risk': risk,
           'sig': stable_hash([spec, mode, info]), 'nontrivial': info['nonfirst'] or info['n_delays'] >= 2,
           'case_extra': {'info': info}}
    mech['tminus_syntax' if info['style'] == 't-' else 'past_syntax'] = 1
    if info['nonfirst']:
        mech['delays_on_nonfirst_state'] = 1
    if info['n_delays'] >= 2:
        mech['multi_delay_models'] = 1
    dt = 1e-3
    vec = bool(info.get('vec_n'))
    if info.get('param_delays'):
        mech['parameter_delays'] = 1
        res['features'].append('param_delays')
    if vec:
        mech['vectorized_models'] = 1
        res['features'].append(f"vec{info['vec_n']}")
    try:
        if mode.startswith('probe'):
            adaptive = mode == 'probe_adaptive'
            coef = {}

            def hvec(t):
                return np.array([math.sin(coef[i][0] * t + coef[i][1]) for i in range(len(coef))])
            # build once to learn the state layout, then again with the hand-made history
            try:
                obs = observe.compile_vf(spec, vectorize=vec, solver='scipy' if adaptive else 'euler', step_size=dt)
                pos = observe.locate_states(obs, ref)
                n = len(np.asarray(obs['args'][1]))
                for i in range(n):
                    coef[i] = (rnd.uniform(20, 90), rnd.uniform(0, 3))
                obs = observe.compile_vf(spec, vectorize=vec, solver='scipy' if adaptive else 'euler', step_size=dt, hist=hvec)
            except observe.Mismatch:
                raise
            except Exception as e:
                import traceback
                raise observe.Mismatch(f"loud: get_run_func raised {type(e).__name__}: {e} :: {traceback.format_exc()[-500:]}")
            if 'hist' not in obs['names']:
                raise observe.Mismatch(f"compiled DDE function has no hist argument: {obs['names']}")
            inv = {i: k for k, i in pos.items()}

            def H(key, tq):
                return float(hvec(tq)[pos[key]])
            for _ in range(8):
                if adaptive:
                    t_arg = rnd.uniform(0.0, 0.2)
                    t_real = t_arg
                else:
                    t_arg = rnd.randint(0, 200)
                    t_real = t_arg * dt
                y = np.array([rnd.gauss(0, 1) for _ in range(n)])
                ydict = {k: float(y[i]) for k, i in pos.items()}
                exp, ill = observe.ref_rhs_checked(ref, ydict, ref.p0(), ctx['mp'], t=t_real, hist=H)
                if ill:
                    continue
                got = observe.call_vf(obs, obs['args'], y.copy(), t=t_arg)
                for k, i in pos.items():
                    if not abs(got[i] - exp[k]) <= 1e-8 * max(1.0, abs(exp[k])):
                        raise observe.Mismatch(f"{'adaptive' if adaptive else 'fixed-step'} build: derivative of {'/'.join(k)} at t={t_arg!r} "
                                               f"with analytic history is {got[i]!r}, reference with hist(t - tau) is {exp[k]!r}")
                mech['probe_points_' + ('adaptive' if adaptive else 'fixed')] = mech.get('probe_points_' + ('adaptive' if adaptive else 'fixed'), 0) + 1
        else:
            keys = list(ref.state_keys)
            outputs = {f'o{i}': '/'.join(k) for i, k in enumerate(keys)}
            steps = rnd.choice([40, 60])
            T = steps * dt
            kw = {}
            # the output may be sampled more coarsely than the integration (the history must still hold every step)
            m_s = rnd.choice([1, 2, 5, 10, 20]) if mode in ('euler', 'heun') else 1
            if m_s > 1:
                kw['dts'] = m_s * dt
                mech['runs_with_coarser_sampling'] = 1
            # the torch backend has its own Euler loop (and must extend the history as well)
            if mode == 'euler' and not vec and rnd.random() < 0.3:
                kw['backend'] = 'torch'
                mech['torch_euler_runs'] = 1
            # the scipy method may be named explicitly (keyword handed through run to the solver): the delayed terms must still read the
            # computed trajectory
            if mode == 'scipy' and rnd.random() < 0.5:
                kw['method'] = rnd.choice(['RK45', 'DOP853', 'RK23'])
                mech['scipy_runs_with_method_keyword'] = 1
            try:
                df = observe.run_model(spec, T=T, dt=dt, solver=mode, outputs=outputs, vectorize=vec, **kw)
            except Exception as e:
                import traceback
                if kw.get('backend') == 'torch' and 'must be Tensor' in str(e):
                    # recorded finding: the history hands numpy values to torch functions
                    res['risk'] = sorted(set(res['risk']) | {'torch_function_of_delayed_term'})
                raise observe.Mismatch(f"loud: run raised {type(e).__name__}: {e} :: {traceback.format_exc()[-500:]}")
            if mode in ('euler', 'heun'):
                exp = ref_fixed(ref, steps, dt, keys, heun=(mode == 'heun'))[::m_s]
                msg = observe.compare_traj(df.values, exp, rtol=1e-7)
                cnt = 'euler_rows_compared'
            else:
                times = np.asarray(df.index, dtype=float)
                exp = ref_fine(ref, T, times, keys)
                if exp.shape != df.values.shape:
                    raise observe.Mismatch(f"scipy DDE run returned shape {df.values.shape}, expected {exp.shape}")
                msg = observe.compare_traj(df.values, exp, rtol=2e-3)
                cnt = 'scipy_rows_compared'
            if msg == 'discard':
                res.update(status='discard', symptom='reference not finite', mech=mech)
                return res
            if msg:
                raise observe.Mismatch(f"{mode} DDE run: {msg}")
            mech[cnt] = df.shape[0]
        res.update(status='ok', symptom='', mech=mech)
        from vp.build import eq_text
        res['sample'] = {'equations': {n: [eq_text(k, l, x) for k, l, x in o['eqs']] for n, o in spec['ops'].items()},
                         'mode': mode, 'edges': spec['circ']['edges']}
    except observe.Mismatch as e:
        s = str(e)
        res.update(status='violation', symptom=('silent: ' if 'loud' not in s else '') + s, mech=mech, spec=spec)
    finally:
        E.PAST_STYLE[0] = 'past'
        E.INT_DELAY_STYLE[0] = False
        E.SPLIT_DELAY_STYLE[0] = False
    return res


# MANIFEST-BEGIN
MANIFEST = {
    'technique': 'reference monitor on the compiled DDE function called with a hand-made analytic history, plus method-of-steps reference for run()',
    'level_text': 'Generated models with several delays on several state variables (both notations, products of delayed and instantaneous factors, delayed edges under adaptive solvers) are compiled for fixed-step and adaptive stepping and the returned function is called with hist(t)_i = sin(a_i t + b_i): every derivative must equal the reference RHS with component x of hist(t - tau) (t*dt - tau for step counters), which pins the history index, the time conversion and the delay of every term; run() with euler/heun is compared (1e-7) with a method-of-steps reference using the same linear interpolation and constant pre-history, run() with scipy with a fine-step RK4 reference (2e-3). Further families: 2-4 structurally identical nodes compiled with vectorize=True (past() terms and delayed edges under adaptive solvers), delays given as named operator constants, whole-number delays (x(t-10)), and long runs (1100-2600 steps) of real and complex linear DDEs against a hand-written loop. A vectorized family lets one scalar (unmerged) source project to the merged nodes with a different delay per connection. Coarser sampling (sampling step up to 20 integration steps) and torch-backend euler runs with past() terms are included; probe family: a function applied to a delayed term on torch (recorded finding). Delays are also written as difference chains (x(t-0.004-0.003)), and scipy runs may name the method explicitly (method= keyword). The difference-chain spelling also comes as x(t-a+b). Held on observed models only.',
    'level_note': 'Trusted: vp/ref.py with history callback, the fine-step reference (h = 2e-5). The looser adaptive tolerance reflects the linear interpolation of accepted steps in DDEHistory, not a property weakening: index/delay errors are O(1e-2..1).',
}
# MANIFEST-END
