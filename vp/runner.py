"""Check driver: shards cases over zygote workers (fork per case), classifies results against
known_findings.json, writes evidence/<id>.json and replay files, prints VIOLATION / KNOWN-FINDING lines."""
import hashlib
import importlib
import json
import os
import re
import subprocess
import sys
import time

ROOT = os.path.dirname(os.path.dirname(os.path.abspath(__file__)))
WORK = os.environ.get('VERIF_WORK', os.path.join(ROOT, '.work'))
PY = os.environ.get('VERIF_PYTHON', '/venv/bin/python')


def load_findings():
    with open(os.path.join(ROOT, 'known_findings.json')) as f:
        return json.load(f)


def open_findings(pid):
    return [e for e in load_findings()['findings'] if e['property'] == pid and e['status'] == 'open']


def open_risks(pid):
    r = set()
    for e in open_findings(pid):
        r.update(e.get('risk_features', []))
    return r


def stable_hash(obj):
    return hashlib.sha256(json.dumps(obj, sort_keys=True, default=str).encode()).hexdigest()[:16]


def env_for_workers():
    env = dict(os.environ)
    env['PYTHONHASHSEED'] = '0'
    for k in ('OMP_NUM_THREADS', 'OPENBLAS_NUM_THREADS', 'MKL_NUM_THREADS', 'NUMEXPR_NUM_THREADS',
              'XLA_FLAGS_THREADS', 'TF_NUM_INTRAOP_THREADS'):
        env[k] = '1'
    env['PYRATES_VERIF'] = '1'
    env['PATH'] = '/venv/bin:' + env.get('PATH', '')
    deps = os.path.join(ROOT, '.deps')
    env['PYTHONPATH'] = ROOT + os.pathsep + deps + (os.pathsep + env['PYTHONPATH'] if env.get('PYTHONPATH') else '')
    # optional: run against a scratch copy of the repository (selftest / background runs); a copy that comes first on
    # PYTHONPATH takes precedence over the editable install of /repo.  Registered commands never set this.
    if env.get('VERIF_REPO'):
        env['PYTHONPATH'] = env['VERIF_REPO'] + os.pathsep + env['PYTHONPATH']
    env['JAX_PLATFORMS'] = 'cpu'
    env['TF_CPP_MIN_LOG_LEVEL'] = '3'
    env['FFLAGS'] = '-fcheck=all -g -fbacktrace'
    env['VERIF_WORK'] = WORK
    return env


def ensure_deps():
    deps = os.path.join(ROOT, '.deps')
    if not os.path.isdir(os.path.join(deps, 'icontract')):
        subprocess.run([PY, '-m', 'pip', 'install', '-q', '--no-index', '--find-links', '/opt/veriftools/wheels',
                        '--target', deps, 'icontract', 'deal'], check=False,
                       stdout=subprocess.DEVNULL, stderr=subprocess.DEVNULL)


def classify(pid, res, findings):
    """Return ('ok'|'known'|'violation'|'discard'|'inconclusive', entry_or_None)."""
    st = res.get('status')
    if st in ('ok', 'discard'):
        return st, None
    if st in ('timeout', 'crash-harness'):
        return 'inconclusive', None
    # violation / loud: known only if the case carries an open finding's risk feature AND shows its symptom
    risks = set(res.get('risk', []))
    sym = res.get('symptom', '')
    for e in findings:
        if set(e.get('risk_features', [])) & risks and re.search(e['symptom'], sym, re.S):
            return 'known', e
    return 'violation', None


def run_check(pid, tier, seed, replay=None, nworkers=None, verbose=True):
    t0 = time.time()
    ensure_deps()
    mod = importlib.import_module(f'vp.props.{pid.lower()}')
    findings = open_findings(pid)
    os.makedirs(os.path.join(WORK, 'scratch'), exist_ok=True)
    os.makedirs(os.path.join(WORK, 'replays', pid), exist_ok=True)
    os.makedirs(os.path.join(ROOT, 'evidence'), exist_ok=True)
    env = env_for_workers()

    if not replay:
        for fn in os.listdir(os.path.join(WORK, 'replays', pid)):
            if fn.startswith(f'seed{seed}_{tier}_'):
                os.remove(os.path.join(WORK, 'replays', pid, fn))
    if replay:
        with open(replay) as f:
            rp = json.load(f)
        cases = [rp['case']]
        seed = rp.get('seed', seed)
        tier = rp.get('tier', tier)
        nworkers = 1
    else:
        cases = mod.plan(tier, seed)
    nworkers = nworkers or min(int(os.environ.get('VERIF_WORKERS', '16')), max(1, len(cases)))
    run_id = f"{pid}-{os.getpid()}"
    rdir = os.path.join(WORK, 'runs', run_id)
    os.makedirs(rdir, exist_ok=True)
    groups = {}
    for i, c in enumerate(cases):
        c.setdefault('idx', i)
        groups.setdefault(c.get('exec', 'fork'), []).append(c)
    procs = []
    for mode, cs in groups.items():
        nw = min(nworkers, len(cs)) if mode == 'fork' else min(getattr(mod, 'BATCH_WORKERS', nworkers), len(cs))
        for w in range(nw):
            shard = cs[w::nw]
            inp = os.path.join(rdir, f'in_{mode}_{w}.json')
            outp = os.path.join(rdir, f'out_{mode}_{w}.jsonl')
            with open(inp, 'w') as f:
                json.dump({'pid': pid, 'tier': tier, 'seed': seed, 'cases': shard, 'mode': mode}, f)
            lg = open(os.path.join(rdir, f'log_{mode}_{w}.txt'), 'w')
            p = subprocess.Popen([PY, '-m', 'vp.worker', inp, outp], env=env, cwd=ROOT, stdout=lg, stderr=lg)
            procs.append((p, outp, shard, lg, mode, w))
    budget = getattr(mod, 'WALL_BUDGET', {'quick': 900, 'thorough': 7200})[tier]
    results = []
    for p, outp, shard, lg, mode, w in procs:
        left = max(5, budget - (time.time() - t0))
        try:
            p.wait(timeout=left)
        except subprocess.TimeoutExpired:
            p.kill()
        lg.close()
        got = {}
        if os.path.exists(outp):
            with open(outp) as f:
                for line in f:
                    try:
                        r = json.loads(line)
                        got[r['idx']] = r
                    except Exception:
                        pass
        for c in shard:
            r = got.get(c['idx'])
            if r is None:
                r = {'idx': c['idx'], 'status': 'timeout', 'detail': 'worker produced no result', 'family': c.get('family')}
            r['case'] = c
            results.append(r)
    results.sort(key=lambda r: r['idx'])

    # ---- aggregate --------------------------------------------------------------------------
    counts = {'ok': 0, 'known': 0, 'violation': 0, 'discard': 0, 'inconclusive': 0}
    mech = {}
    feats = {}
    fam = {}
    sigs = set()
    known_seen = {}
    viol = []
    samples = []
    for r in results:
        cls, entry = classify(pid, r, findings)
        r['class'] = cls
        counts[cls] += 1
        fam[r.get('family', 'main')] = fam.get(r.get('family', 'main'), 0) + 1
        for k, v in (r.get('mech') or {}).items():
            mech[k] = mech.get(k, 0) + v
        for k in (r.get('features') or []):
            feats[k] = feats.get(k, 0) + 1
        if r.get('nontrivial') and r.get('sig') and cls in ('ok', 'known', 'violation'):
            sigs.add(r['sig'])
        if cls == 'known':
            known_seen.setdefault(entry['id'], []).append(r)
        if cls == 'violation':
            viol.append(r)
        if len(samples) < 4 and r.get('sample') is not None and cls == 'ok':
            samples.append(r['sample'])
    if not samples:
        samples = [r.get('sample') or {'case': r['case']} for r in results[:2]]

    out_lines = []
    for fid, rs in known_seen.items():
        e = [x for x in findings if x['id'] == fid][0]
        out_lines.append(f"KNOWN-FINDING: property={pid} {fid}: {e['what']} (seen in {len(rs)} probe case(s))")
    replay_paths = []
    for r in viol[:int(os.environ.get("VERIF_MAX_REPLAYS", "25"))]:
        path = os.path.join(WORK, 'replays', pid, f"seed{seed}_{tier}_case{r['idx']}.json")
        with open(path, 'w') as f:
            rcase = dict(r['case'])
            if r.get('spec') is not None:
                rcase['spec'] = r['spec']       # replay exactly this model even if the generators change later
            rcase.update(r.get('case_extra') or {})
            json.dump({'property': pid, 'seed': seed, 'tier': tier, 'case': rcase, 'result': {k: v for k, v in r.items() if k != 'case'}},
                      f, indent=1, default=str)
        replay_paths.append(path)
        out_lines.append(f"VIOLATION property={pid} replay={path}")
        out_lines.append(f"  family={r.get('family')} risk={r.get('risk')} symptom={str(r.get('symptom'))[:300]}")

    deciding = getattr(mod, 'DECIDING', [])
    missing = [k for k in deciding if mech.get(k, 0) == 0]
    n_eval = counts['ok'] + counts['known'] + counts['violation']
    inconclusive = False
    reasons = []
    if missing and not replay:
        inconclusive = True
        reasons.append(f"deciding monitors never reached: {missing}")
    if not replay and counts['inconclusive'] > max(2, 0.1 * len(results)):
        inconclusive = True
        reasons.append(f"{counts['inconclusive']} of {len(results)} cases timed out / crashed in the harness")
    if not replay and n_eval < max(2, 0.5 * len(results)):
        inconclusive = True
        reasons.append(f"only {n_eval} of {len(results)} cases evaluated (discarded {counts['discard']})")

    wall = time.time() - t0
    ev = {
        'property_id': pid, 'tier': tier, 'seed': int(seed), 'level': getattr(mod, 'LEVEL', 'exploration'),
        'coverage': {
            'evaluations': n_eval,
            'distinct_nontrivial': len(sigs),
            'rule': getattr(mod, 'RULE', ''),
            'samples': samples,
            'mechanism_counters': mech,
            'feature_histogram': feats,
            'families': fam,
            'discarded': counts['discard'],
            'inconclusive_cases': counts['inconclusive'],
            'known_findings_seen': {k: len(v) for k, v in known_seen.items()},
            'deciding_monitors': deciding,
            'verdict': 'violated' if viol else ('inconclusive' if inconclusive else 'held on what was observed'),
        },
        'assumptions': getattr(mod, 'ASSUMPTIONS', []),
        'wall_s': round(wall, 2),
        'violations': len(viol),
    }
    if not replay:
        with open(os.path.join(ROOT, 'evidence', f'{pid}.json'), 'w') as f:
            json.dump(ev, f, indent=1, default=str)
    # clean run dir
    try:
        import shutil
        shutil.rmtree(rdir, ignore_errors=True)
    except Exception:
        pass

    for l in out_lines:
        print(l)
    print(f"[{pid}] tier={tier} seed={seed} cases={len(results)} evaluated={n_eval} distinct_nontrivial={len(sigs)} "
          f"ok={counts['ok']} known={counts['known']} violations={counts['violation']} discarded={counts['discard']} "
          f"inconclusive={counts['inconclusive']} wall={wall:.1f}s")
    hist = {}
    for r in results:
        if r['class'] in ('violation', 'inconclusive', 'known'):
            k = (r['class'], r.get('family'), re.sub(r'[0-9.]+', '#', str(r.get('symptom'))[:110]))
            hist[k] = hist.get(k, 0) + 1
    for k, v in sorted(hist.items(), key=lambda kv: -kv[1])[:25]:
        print(f"   {v:5d} x {k}")
    if verbose:
        print(f"[{pid}] mechanism counters: {json.dumps(mech, sort_keys=True)}")
    if replay:
        for r in results:
            print(json.dumps({k: v for k, v in r.items() if k not in ('case', 'spec', 'generated_source', 'sample')},
                             indent=1, default=str)[:6000])
            for src in (r.get('generated_source') or []):
                print('----- generated source (tail) -----')
                print(src)
    if viol:
        return 1
    if inconclusive:
        print(f"INCONCLUSIVE property={pid} " + '; '.join(reasons))
        return 2
    return 0
