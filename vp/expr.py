"""Expression AST used by the generators and the reference semantics.

An expression is a nested tuple:
    ('num', float) | ('var', name) | ('neg', a) | ('add', a, b) | ('sub', a, b) | ('mul', a, b) | ('div', a, b)
    | ('pow', a, int_exponent) | ('call', fname, a, ...) | ('const', 'pi'|'E')
The module never imports pyrates or sympy: it is the independent executable meaning of the equation language.
"""
import math
import random

FUNCS1 = ('sin', 'cos', 'tanh', 'exp', 'sigmoid', 'absv', 'sqrt', 'log', 'tan', 'atan', 'sinh', 'cosh', 'abs')
FUNCS2 = ('maxi', 'mini')

PAST_STYLE = ['past']     # 'past' -> past(x, tau) ; 't-' -> x(t-tau)

PREC = {'add': 1, 'sub': 1, 'mul': 2, 'div': 2, 'neg': 3, 'pow': 4}


def num(v):
    return ('num', float(v))


def var(n):
    return ('var', n)


def add(a, b):
    return ('add', a, b)


def sub(a, b):
    return ('sub', a, b)


def mul(a, b):
    return ('mul', a, b)


def div(a, b):
    return ('div', a, b)


def neg(a):
    return ('neg', a)


def call(f, *a):
    return ('call', f) + tuple(a)


def variables(e, acc=None):
    """Set of variable names in e."""
    if acc is None:
        acc = set()
    k = e[0]
    if k == 'var':
        acc.add(e[1])
    elif k in ('num', 'const'):
        pass
    elif k == 'call':
        for a in e[2:]:
            variables(a, acc)
    elif k == 'pow':
        variables(e[1], acc)
    else:
        for a in e[1:]:
            variables(a, acc)
    return acc


def fmt_num(v, style=0):
    """Render a float literal. style selects spelling variants that denote the same value."""
    v = float(v)
    if v == int(v) and abs(v) < 1e6:
        if style % 3 == 0:
            return repr(v)                # 3.0
        if style % 3 == 1:
            return str(int(v)) + '.0'
        return repr(v)
    r = repr(v)
    return r


INT_DELAY_STYLE = [False]
SPLIT_DELAY_STYLE = [False]


def to_str(e, pow_sym='**', sp=' ', paren=False, numstyle=0, rnd=None, top=True):
    """Print expression.  paren: add redundant parentheses around every binary node.
    rnd: optional random.Random to vary spacing/parens per node."""
    k = e[0]
    if k == 'num':
        v = e[1]
        s = fmt_num(abs(v), numstyle)
        if v < 0 or (v == 0 and math.copysign(1, v) < 0):
            return '(-' + s + ')'
        return s
    if k == 'const':
        return e[1]
    if k == 'var':
        return e[1]
    if k == 'call':
        if e[1] == 'past' and len(e) == 4 and e[3][0] == 'num' and float(e[3][1]) == int(e[3][1]) and INT_DELAY_STYLE[0]:
            # a whole-number delay written the way users write it: x(t-10), past(x, 10)
            dtxt = str(int(e[3][1]))
            if PAST_STYLE[0] == 't-':
                return f"{e[2][1]}(t-{dtxt})"
            return f"past({to_str(e[2], pow_sym, sp, paren, numstyle, rnd, True)},{sp if sp else ''}{dtxt})"
        if e[1] == 'past' and PAST_STYLE[0] == 't-' and SPLIT_DELAY_STYLE[0] and e[3][0] == 'num' and float(e[3][1]) > 0:
            # a delay written as a difference chain, x(t-0.004-0.003): x at time t-(0.004+0.003)
            d_ = float(e[3][1])
            if (int(round(d_ * 1e4)) + int(round(d_ * 1e3))) % 2:
                # x(t-a+b): x at time t-(a-b)
                a_ = float(f"{1.4 * d_:.3g}")
                b_ = float(f"{a_ - d_:.12g}")
                if a_ > 0 and b_ > 0:
                    return f"{e[2][1]}(t-{a_!r}+{b_!r})"
            a_ = float(f"{0.6 * d_:.3g}")
            b_ = float(f"{d_ - a_:.12g}")
            if a_ > 0 and b_ > 0:
                return f"{e[2][1]}(t-{a_!r}-{b_!r})"
        if e[1] == 'past' and PAST_STYLE[0] == 't-':
            return f"{e[2][1]}(t-{to_str(e[3], pow_sym, sp, paren, numstyle, rnd, True)})"
        args = (',' + (sp if sp else '')).join(to_str(a, pow_sym, sp, paren, numstyle, rnd, True) for a in e[2:])
        return f"{e[1]}({args})"
    if k == 'neg':
        inner = to_str(e[1], pow_sym, sp, paren, numstyle, rnd, False)
        if e[1][0] in ('add', 'sub', 'mul', 'div', 'neg') or (e[1][0] == 'num' and e[1][1] < 0):
            inner = '(' + inner + ')' if not inner.startswith('(') or e[1][0] != 'num' else inner
        # always parenthesise a negation so that it never merges with a preceding operator
        return '(-' + inner + ')'
    if k == 'pow':
        base = to_str(e[1], pow_sym, sp, paren, numstyle, rnd, False)
        if e[1][0] not in ('var', 'call', 'const') and not (e[1][0] == 'num' and e[1][1] >= 0):
            if not (base.startswith('(') and _balanced_outer(base)):
                base = '(' + base + ')'
        return f"{base}{pow_sym}{int(e[2])}"
    sym = {'add': '+', 'sub': '-', 'mul': '*', 'div': '/'}[k]
    a, b = e[1], e[2]
    sa = to_str(a, pow_sym, sp, paren, numstyle, rnd, False)
    sb = to_str(b, pow_sym, sp, paren, numstyle, rnd, False)
    pa = PREC.get(a[0], 9)
    pb = PREC.get(b[0], 9)
    p = PREC[k]
    if pa < p:
        sa = '(' + sa + ')'
    if pb < p or (pb == p and k in ('sub', 'div')) or (pb == p and k == 'mul' and b[0] == 'div'):
        sb = '(' + sb + ')'
    s_ = sp
    if rnd is not None:
        s_ = rnd.choice(['', ' ', '  '])
    out = f"{sa}{s_}{sym}{s_}{sb}"
    addp = paren if rnd is None else (rnd.random() < 0.3)
    if addp and not top:
        out = '(' + out + ')'
    return out


def _balanced_outer(s):
    """True if s is '( ... )' where the first paren closes at the very end."""
    depth = 0
    for i, c in enumerate(s):
        if c == '(':
            depth += 1
        elif c == ')':
            depth -= 1
            if depth == 0 and i != len(s) - 1:
                return False
    return True


def commute(e, rnd):
    """Return an expression denoting the same real function with commuted add/mul operands (random)."""
    k = e[0]
    if k in ('num', 'var', 'const'):
        return e
    if k == 'call':
        return ('call', e[1]) + tuple(commute(a, rnd) for a in e[2:])
    if k == 'neg':
        return ('neg', commute(e[1], rnd))
    if k == 'pow':
        return ('pow', commute(e[1], rnd), e[2])
    a, b = commute(e[1], rnd), commute(e[2], rnd)
    if k in ('add', 'mul') and rnd.random() < 0.5:
        a, b = b, a
    return (k, a, b)


# ---------------------------------------------------------------------------------------------
# evaluation
# ---------------------------------------------------------------------------------------------

def _sigmoid(x):
    if x >= 0:
        return 1.0 / (1.0 + math.exp(-x))
    ex = math.exp(x)
    return ex / (1.0 + ex)


F64 = {
    'sin': math.sin, 'cos': math.cos, 'tanh': math.tanh, 'exp': math.exp, 'sigmoid': _sigmoid,
    'absv': abs, 'abs': abs, 'sqrt': math.sqrt, 'log': math.log, 'tan': math.tan, 'atan': math.atan,
    'sinh': math.sinh, 'cosh': math.cosh, 'maxi': max, 'mini': min,
}


def ev(e, env):
    """float64 evaluation. env: name -> float."""
    k = e[0]
    if k == 'num':
        return e[1]
    if k == 'var':
        v = env[e[1]] if not callable(env) else env(e[1])
        return v
    if k == 'const':
        return math.pi if e[1] == 'pi' else math.e
    if k == 'neg':
        return -ev(e[1], env)
    if k == 'add':
        return ev(e[1], env) + ev(e[2], env)
    if k == 'sub':
        return ev(e[1], env) - ev(e[2], env)
    if k == 'mul':
        return ev(e[1], env) * ev(e[2], env)
    if k == 'div':
        return ev(e[1], env) / ev(e[2], env)
    if k == 'pow':
        return ev(e[1], env) ** int(e[2])
    if k == 'call':
        if e[1] == 'past':
            return env(('past', e[2][1], ev(e[3], env)))      # delayed value of variable e[2] at t - tau
        return F64[e[1]](*[ev(a, env) for a in e[2:]])
    raise ValueError(k)


def ev_mp(e, env, mp):
    """mpmath evaluation (mp = mpmath module with mp.mp.dps set by caller). env: name -> float."""
    k = e[0]
    if k == 'num':
        return mp.mpf(e[1])
    if k == 'var':
        v = env[e[1]] if not callable(env) else env(e[1])
        return mp.mpf(v)
    if k == 'const':
        return mp.pi if e[1] == 'pi' else mp.e
    if k == 'neg':
        return -ev_mp(e[1], env, mp)
    if k == 'add':
        return ev_mp(e[1], env, mp) + ev_mp(e[2], env, mp)
    if k == 'sub':
        return ev_mp(e[1], env, mp) - ev_mp(e[2], env, mp)
    if k == 'mul':
        return ev_mp(e[1], env, mp) * ev_mp(e[2], env, mp)
    if k == 'div':
        return ev_mp(e[1], env, mp) / ev_mp(e[2], env, mp)
    if k == 'pow':
        return ev_mp(e[1], env, mp) ** int(e[2])
    if k == 'call':
        if e[1] == 'past':
            return mp.mpf(env(('past', e[2][1], float(ev_mp(e[3], env, mp)))))
        a = [ev_mp(x, env, mp) for x in e[2:]]
        f = e[1]
        if f == 'sigmoid':
            return 1 / (1 + mp.exp(-a[0]))
        if f in ('absv', 'abs'):
            return abs(a[0])
        if f == 'maxi':
            return max(a[0], a[1])
        if f == 'mini':
            return min(a[0], a[1])
        if f == 'arctan':
            return mp.atan(a[0])
        if f == 'sign':
            return mp.mpf((a[0] > 0) - (a[0] < 0))
        return getattr(mp, f)(*a)
    raise ValueError(k)


# ---------------------------------------------------------------------------------------------
# symbolic derivative (own implementation, used as independent oracle for C12)
# ---------------------------------------------------------------------------------------------

def d(e, x):
    """d e / d x  as an expression (x: variable name). abs/maxi/mini use their a.e. derivatives."""
    k = e[0]
    if k in ('num', 'const'):
        return num(0)
    if k == 'var':
        return num(1.0 if e[1] == x else 0.0)
    if k == 'neg':
        return neg(d(e[1], x))
    if k == 'add':
        return add(d(e[1], x), d(e[2], x))
    if k == 'sub':
        return sub(d(e[1], x), d(e[2], x))
    if k == 'mul':
        return add(mul(d(e[1], x), e[2]), mul(e[1], d(e[2], x)))
    if k == 'div':
        return div(sub(mul(d(e[1], x), e[2]), mul(e[1], d(e[2], x))), ('pow', e[2], 2))
    if k == 'pow':
        n = int(e[2])
        if n == 0:
            return num(0)
        return mul(mul(num(n), ('pow', e[1], n - 1)), d(e[1], x))
    if k == 'call':
        f = e[1]
        a = e[2]
        da = d(a, x)
        if f == 'sin':
            return mul(call('cos', a), da)
        if f == 'cos':
            return mul(neg(call('sin', a)), da)
        if f == 'tanh':
            return mul(sub(num(1), ('pow', call('tanh', a), 2)), da)
        if f == 'exp':
            return mul(call('exp', a), da)
        if f == 'sigmoid':
            s = call('sigmoid', a)
            return mul(mul(s, sub(num(1), s)), da)
        if f in ('absv', 'abs'):
            return mul(call('_sign', a), da)
        if f == 'sqrt':
            return div(da, mul(num(2), call('sqrt', a)))
        if f == 'log':
            return div(da, a)
        if f == 'tan':
            return mul(add(num(1), ('pow', call('tan', a), 2)), da)
        if f == 'atan':
            return div(da, add(num(1), ('pow', a, 2)))
        if f == 'sinh':
            return mul(call('cosh', a), da)
        if f == 'cosh':
            return mul(call('sinh', a), da)
        if f == '_sign':
            return num(0)
        if f in ('maxi', 'mini'):
            b = e[3]
            db = d(b, x)
            # derivative of the selected branch
            sel = call('_gt', a, b) if f == 'maxi' else call('_gt', b, a)
            return add(mul(sel, da), mul(sub(num(1), sel), db))
        raise ValueError(f)
    raise ValueError(k)


F64['_sign'] = lambda v: float(v > 0) - float(v < 0)
F64['sign'] = lambda v: float(v > 0) - float(v < 0)
F64['_gt'] = lambda a, b: 1.0 if a > b else 0.0


def subst(e, mapping):
    """Rename variables: mapping name -> name or -> expression tuple."""
    k = e[0]
    if k == 'var':
        m = mapping.get(e[1], e[1])
        return ('var', m) if isinstance(m, str) else m
    if k in ('num', 'const'):
        return e
    if k == 'call':
        return ('call', e[1]) + tuple(subst(a, mapping) for a in e[2:])
    if k == 'pow':
        return ('pow', subst(e[1], mapping), e[2])
    return (k,) + tuple(subst(a, mapping) for a in e[1:])


def tolist(e):
    """JSON friendly."""
    return [tolist(x) if isinstance(x, tuple) else x for x in e]


def fromlist(l):
    return tuple(fromlist(x) if isinstance(x, list) else x for x in l)


# ---------------------------------------------------------------------------------------------
# random bounded expressions
# ---------------------------------------------------------------------------------------------

def rnd_coef(rnd, small=False):
    """Non-trivial coefficient, never 0 or +-1, 2-3 significant digits."""
    # positive coefficients are multiples of 0.01, negative ones are shifted by 0.003: a sum of fewer than ten
    # coefficients never cancels exactly, so sympy cannot simplify f(a*x + b*x) to a call on a literal
    while True:
        c = round(rnd.uniform(-2.5, 2.5), 2) if not small else round(rnd.uniform(-0.9, 0.9), 2)
        if abs(c) > 0.15 and abs(abs(c) - 1.0) > 0.05:
            return c if c > 0 else round(c - 0.003, 3)


ALLOW_DIRECT_NESTING = [False]   # f(f(x)) is a separate risk feature (C05 probe family)


def safe_call(rnd, f, inner):
    """call f(inner); a direct nesting f(f(..)) is avoided unless ALLOW_DIRECT_NESTING is set."""
    if inner[0] == 'call' and inner[1] == f and not ALLOW_DIRECT_NESTING[0]:
        inner = mul(num(rnd_coef(rnd)), inner)
    return call(f, inner)


def has_direct_nesting(e):
    k = e[0]
    if k in ('num', 'var', 'const'):
        return False
    if k == 'call':
        if any(a[0] == 'call' and a[1] == e[1] for a in e[2:]):
            return True
        return any(has_direct_nesting(a) for a in e[2:])
    if k == 'pow':
        return has_direct_nesting(e[1])
    return any(has_direct_nesting(a) for a in e[1:])


def bounded(rnd, names, depth=2, funcs=('sin', 'tanh', 'sigmoid', 'cos')):
    """Random smooth expression over `names` that is bounded or at most mildly polynomial.  Every sub-expression
    contains at least one variable (function calls on literals only are a separate risk feature)."""
    if not names:
        raise ValueError('bounded() needs at least one variable name')
    if depth <= 0 or rnd.random() < 0.25:
        return mul(num(rnd_coef(rnd)), var(rnd.choice(names)))
    r = rnd.random()
    if r < 0.35:
        return safe_call(rnd, rnd.choice(funcs), bounded(rnd, names, depth - 1, funcs))
    if r < 0.6:
        return add(bounded(rnd, names, depth - 1, funcs), bounded(rnd, names, depth - 1, funcs))
    if r < 0.75:
        return sub(bounded(rnd, names, depth - 1, funcs), num(rnd_coef(rnd)))
    if r < 0.9:
        return mul(bounded(rnd, names, depth - 1, funcs),
                   safe_call(rnd, rnd.choice(funcs), bounded(rnd, names, depth - 1, funcs)))
    return div(bounded(rnd, names, depth - 1, funcs), add(num(2.0), ('pow', bounded(rnd, names, depth - 1, funcs), 2)))


def has_literal_call(e):
    """a function call none of whose arguments contains a variable"""
    k = e[0]
    if k in ('num', 'var', 'const'):
        return False
    if k == 'call':
        if e[1] != 'past' and not any(variables(a) for a in e[2:]):
            return True
        return any(has_literal_call(a) for a in e[2:])
    if k == 'pow':
        return has_literal_call(e[1])
    return any(has_literal_call(a) for a in e[1:])
