import argparse
import os
import sys


def main():
    ap = argparse.ArgumentParser()
    ap.add_argument('pid')
    ap.add_argument('--tier', default=os.environ.get('VERIF_TIER', 'quick'), choices=['quick', 'thorough'])
    ap.add_argument('--seed', type=int, default=int(os.environ.get('VERIF_SEED', '0')))
    ap.add_argument('--replay', default=None)
    ap.add_argument('--workers', type=int, default=None)
    a = ap.parse_args()
    from vp.runner import run_check
    sys.exit(run_check(a.pid.upper(), a.tier, a.seed, replay=a.replay, nworkers=a.workers))


if __name__ == '__main__':
    main()
