"""Drive the public PyRates API and compare what comes back with the reference semantics."""
import numpy as np

from . import build
from .ref import RefModel, RefError

RTOL = 1e-8


def quant(obs, v):
    """declared value as it is representable in the precision of the build (float32 builds store float32)"""
    return float(np.float32(v)) if obs.get('f32') else float(v)


class Mismatch(Exception):
    """Property violation found by an oracle (message = symptom)."""


def compile_vf(spec, vectorize=False, backend='default', style=None, step_size=1e-3, template=None, **kw):
    """get_run_func on a fresh template built from the spec."""
    if template is None:
        template, _ = build.build_python(spec, style=style)
    kw.setdefault('float_precision', 'float64')
    kw.setdefault('in_place', False)
    f32 = kw['float_precision'] == 'float32'
    if spec is not None and spec.get('node_values'):
        kw.setdefault('node_values', build.node_values_kw(spec))
    import os as _os
    kw.setdefault('clear', _os.environ.get('VERIF_KEEP') != '1')   # public reset after each compile: checks other than C13 must not depend on leaks
    func, args, names, smap = template.get_run_func('vf', step_size=step_size, backend=backend, vectorize=vectorize,
                                                    verbose=False, **kw)
    return {'func': func, 'args': list(args), 'names': list(names), 'smap': dict(smap), 'template': template, 'f32': f32}


def _positions_from_smap(entry):
    if isinstance(entry, (tuple, list)):
        return list(range(int(entry[0]), int(entry[1])))
    return [int(entry)]


def locate_states(obs, ref, check_smap=True):
    """Position of every declared state variable.  Non-vectorized builds: the returned state map names every
    frontend state variable; its position must hold the declared initial value, positions must be pairwise distinct
    and cover the state vector, and (when the initial value is unique in the model) value fingerprinting must agree.
    Vectorized builds (entries are ranges): value fingerprinting inside the range that the map reports.
    Raises Mismatch on layout violations."""
    y0 = np.asarray(to_np(obs['args'][1]), dtype=float).ravel()
    smap = obs['smap']
    seen = {}
    for name, ent in smap.items():
        for p in _positions_from_smap(ent):
            if p < 0 or p >= len(y0):
                raise Mismatch(f"layout: state map entry {name}: {ent} outside state vector of length {len(y0)}")
            if p in seen:
                raise Mismatch(f"layout: state map entries {name} and {seen[p]} overlap at position {p}")
            seen[p] = name
    if len(seen) != len(y0):
        missing = [i for i in range(len(y0)) if i not in seen]
        raise Mismatch(f"layout: state map does not cover positions {missing} of the state vector")
    counts = {}
    for key in ref.state_keys:
        counts[quant(obs, ref.val[key])] = counts.get(quant(obs, ref.val[key]), 0) + 1
    pos = {}
    used = {}
    for key in ref.state_keys:
        v = quant(obs, ref.val[key])
        name = '/'.join(key)
        hits = [i for i in range(len(y0)) if y0[i] == v]
        if name in smap and len(_positions_from_smap(smap[name])) == 1:
            p = _positions_from_smap(smap[name])[0]
            if y0[p] != v:
                raise Mismatch(f"layout: state map reports {name} at {p} but the initial state there is {y0[p]!r}, "
                               f"declared/overridden initial value is {v!r}")
            if counts[v] == 1 and hits != [p]:
                raise Mismatch(f"layout: unique initial value {v} of {name} found at {hits}, state map says {p}")
        else:
            if counts[v] != 1:
                raise Mismatch(f"layout: declared state variable {name} is not named in the returned state map "
                               f"{sorted(smap)[:12]} (and its initial value {v} is not unique, so it cannot be located)")
            if len(hits) != 1:
                raise Mismatch(f"layout: initial value {v} of state variable {name} occurs {len(hits)} times in the "
                               f"returned initial state {y0.tolist()[:40]} (expected exactly once)")
            p = hits[0]
            if name in smap and p not in _positions_from_smap(smap[name]):
                raise Mismatch(f"layout: state map reports {name} at {smap[name]} but its initial value sits at {p}")
        if p in used:
            raise Mismatch(f"layout: {name} and {'/'.join(used[p])} share position {p}")
        used[p] = key
        pos[key] = p
    return pos


def check_arg_values(obs, ref, vectorized):
    """Returned argument values are the declared (overridden) values of the variables they are named after."""
    n_checked = 0
    for name, val in zip(obs['names'], obs['args']):
        if name in ('t', 'y', 'dy', 'hist') or callable(val):
            continue
        parts = name.split('/')
        if len(parts) < 3:
            continue
        key = ('/'.join(parts[:-2]), parts[-2], parts[-1])
        if key not in ref.kind or ref.kind[key] not in ('const', 'in'):
            continue
        arr = np.asarray(to_np(val), dtype=float).ravel()
        exp = quant(obs, ref.val[key])
        n_checked += 1
        if not vectorized:
            if arr.size != 1 or arr[0] != exp:
                raise Mismatch(f"argument {name} = {arr.tolist()} but the declared/overridden value is {exp}")
        else:
            if exp not in arr.tolist():
                raise Mismatch(f"argument {name} = {arr.tolist()} does not contain the declared/overridden value {exp}")
    return n_checked


def is_param_array(a):
    if callable(a):
        return False
    a = to_np(a)
    return a.dtype.kind == 'f'


def perturb_params(obs, ref, rnd, frac=1.0):
    """Write new values for parameters into the returned argument arrays (located by value fingerprint) and return
    (new_args, new_p).  A reference parameter whose value occurs in no argument stays at its declared value."""
    p = ref.p0()
    byval = {}
    for k, v in p.items():
        byval.setdefault(quant(obs, v), []).append(k)
    start = max([i for i, n in enumerate(obs['names']) if n in ('t', 'y', 'dy', 'hist')]) + 1
    new_args = list(obs['args'][:start])
    pairs = [(e['src'], e['tgt']) for e in ref.edges]
    parallel = len(set(pairs)) != len(pairs)
    newval, chosen = {}, {}
    n_slots = 0
    for name, a in zip(obs['names'][start:], obs['args'][start:]):
        if callable(a) or not is_param_array(a):
            new_args.append(a)
            continue
        arr = np.array(to_np(a), copy=True)
        flat = arr.reshape(-1)
        is_edge_arg = '/in_edge_' in name
        for i in range(flat.size):
            v = float(flat[i])
            keys = byval.get(v)
            if not keys or len(keys) != 1 or v == 1.0 or v == 0.0:
                continue
            # edge weights live in in_edge_* arguments only, node parameters never do; merged (summed) weights of
            # parallel edges cannot be fingerprinted, so weights stay at their declared values in such models
            if (keys[0][0] == '__w') != is_edge_arg:
                continue
            if is_edge_arg and parallel:
                continue
            # (one decision per VALUE, not per slot: a value may sit in several slots - merged copies, or a scratch buffer that
            # happens to hold a state value equal to a weight - and the reference parameter changes iff all of them change)
            if v not in chosen:
                chosen[v] = rnd.random() <= frac
            if not chosen[v]:
                continue
            if v not in newval:
                newval[v] = quant(obs, round(v * rnd.uniform(0.5, 1.6) + rnd.uniform(-0.2, 0.2), 6))
            flat[i] = newval[v]
            n_slots += 1
        new_args.append(like(a, arr))
    for v, nv in newval.items():
        p[byval[v][0]] = nv
    return new_args, p, n_slots


def to_np(a):
    """numpy view/copy of a numpy / torch / jax array"""
    if hasattr(a, 'detach'):
        return a.detach().cpu().numpy()
    return np.asarray(a)


def like(template, arr):
    """convert numpy array to the array type (and dtype) of `template`"""
    if hasattr(template, 'detach'):
        import torch
        return torch.as_tensor(np.asarray(arr), dtype=template.dtype)
    if type(template).__module__.startswith('jax'):
        import jax.numpy as jnp
        return jnp.asarray(np.asarray(arr), dtype=template.dtype)
    return np.asarray(arr, dtype=np.asarray(template).dtype)


def call_vf(obs, args, y, t=0):
    f = obs['func']
    try:
        yb = like(args[1], y)
        out = f(t, yb, *args[2:])
        if out is None:            # in-place convention of the Fortran subroutine: the result is in the dy argument
            out = args[obs['names'].index('dy')]
    except Mismatch:
        raise
    except Exception as e:
        raise Mismatch(f"loud: generated function raised {type(e).__name__}: {e}")
    return np.array(to_np(out), dtype=float, copy=True).ravel()


def ref_rhs_checked(ref, ydict, p, mp, t=0.0, delayed=None, inputs=None, hist=None):
    """Reference derivative in float64 and mpmath; returns (values dict, illconditioned flag)."""
    f64, _ = ref.rhs(ydict, p, t, delayed, inputs=inputs, hist=hist)
    fmp, _ = ref.rhs(ydict, p, t, delayed, mp=mp, inputs=inputs, hist=hist)
    ill = False
    out = {}
    for k in f64:
        a, b = float(f64[k]), float(fmp[k])
        if abs(a - b) > 1e-11 * max(1.0, abs(b)):
            ill = True
        out[k] = b
    return out, ill


def compare_vf(obs, ref, rnd, mp, n_points=6, vectorized=False, mech=None, perturb=True, rtol=None):
    """Full C01 observation: layout, argument values, derivative at probe points with perturbed parameters."""
    mech = mech if mech is not None else {}
    pos = locate_states(obs, ref)
    mech['layout_checks'] = mech.get('layout_checks', 0) + 1
    mech['arg_value_checks'] = mech.get('arg_value_checks', 0) + check_arg_values(obs, ref, vectorized)
    y0 = np.asarray(to_np(obs['args'][1]), dtype=float).ravel()
    n = len(y0)
    hidden = [i for i in range(n) if i not in set(pos.values())]
    worst = 0.0
    for pt in range(n_points):
        if perturb and pt > 0:
            args, p, nsl = perturb_params(obs, ref, rnd, frac=1.0 if pt % 2 else 0.5)
            mech['perturbed_param_slots'] = mech.get('perturbed_param_slots', 0) + nsl
        else:
            args, p = list(obs['args']), ref.p0()
        y = y0.copy() if pt == 0 else np.array([rnd.gauss(0, 1) for _ in range(n)])
        if pt == n_points - 1 and n_points >= 3:
            # special value: some (at least one) state variables exactly 0.0 (sign(0), abs(0), 0*x, ...)
            zi = [i for i in range(n) if rnd.random() < 0.5] or [rnd.randrange(n)]
            y[zi] = 0.0
            mech['zero_state_probe_points'] = mech.get('zero_state_probe_points', 0) + 1
        elif pt == n_points - 2 and n_points >= 4:
            # special value: some state variables tiny but NOT zero (sign / abs / comparisons near zero must not treat them as 0)
            zi = [i for i in range(n) if rnd.random() < 0.5] or [rnd.randrange(n)]
            for i in zi:
                y[i] = rnd.choice([1.0, -1.0]) * 10.0 ** (-rnd.choice([9, 12, 17, 30, 120]))
            mech['tiny_state_probe_points'] = mech.get('tiny_state_probe_points', 0) + 1
        if obs.get('f32'):
            y = np.asarray(y, dtype=np.float32).astype(float)
        ydict = {k: float(y[i]) for k, i in pos.items()}
        for ck in ref.chain_states:
            ydict[ck] = 0.0
        try:
            exp, ill = ref_rhs_checked(ref, ydict, p, mp)
        except (OverflowError, ZeroDivisionError, ValueError):
            mech['points_discarded'] = mech.get('points_discarded', 0) + 1
            continue
        if ill:
            mech['points_discarded'] = mech.get('points_discarded', 0) + 1
            continue
        got = call_vf(obs, args, y.copy())
        if got.shape[0] != n:
            raise Mismatch(f"vector field returns {got.shape[0]} values for a state vector of length {n}")
        mech['probe_points'] = mech.get('probe_points', 0) + 1
        for key, i in pos.items():
            e = exp[key]
            err = abs(got[i] - e)
            mech['derivatives_compared'] = mech.get('derivatives_compared', 0) + 1
            if not err <= (rtol or RTOL) * max(1.0, abs(e)):
                raise Mismatch(f"derivative of {'/'.join(key)} (position {i}) at probe point {pt}: PyRates {got[i]!r} vs "
                               f"reference {e!r} (abs err {err:.3e}); params perturbed={pt > 0}")
            worst = max(worst, err)
    return pos, worst


# ---------------------------------------------------------------------------------------------------------------------
# simulations
# ---------------------------------------------------------------------------------------------------------------------

def run_model(spec, T, dt, solver='euler', dts=None, cutoff=0.0, outputs=None, backend='default', vectorize=False,
              inputs=None, template=None, style=None, **kw):
    """CircuitTemplate.run on a fresh template.  outputs: dict name -> path, or list of paths."""
    if template is None:
        template, _ = build.build_python(spec, style=style)
    kw.setdefault('float_precision', 'float64')
    kw.setdefault('clear', True)
    if spec is not None and spec.get('node_values'):
        kw.setdefault('node_values', build.node_values_kw(spec))
    res = template.run(simulation_time=T, step_size=dt, sampling_step_size=dts, cutoff=cutoff, solver=solver,
                       outputs=outputs, backend=backend, vectorize=vectorize, inputs=inputs, verbose=False, **kw)
    return res


def ref_trajectory(ref, keys, steps, dt, heun=False, input_fn=None, stage2='same', p=None):
    """Reference fixed-step iterates: array (steps, len(keys)), row k = value at step k (before the update)."""
    rec, _ = ref.euler(steps, dt, record=keys, heun=heun, input_fn=input_fn, p=p, stage2=stage2)
    return np.array(rec, dtype=float).reshape(steps, len(keys))


def compare_traj(got, exp, rtol=1e-7, label=''):
    """max-abs comparison column by column with a scale-aware tolerance; returns message or None."""
    got = np.asarray(got, dtype=float)
    exp = np.asarray(exp, dtype=float)
    if got.shape != exp.shape:
        return f"{label}shape {got.shape} != expected {exp.shape}"
    if not np.all(np.isfinite(exp)) or (exp.size and float(np.max(np.abs(exp))) > 1e4):
        return 'discard'        # blow-up: the comparison would measure amplified rounding noise
    for j in range(exp.shape[1]):
        scale = max(1.0, float(np.max(np.abs(exp[:, j]))))
        err = np.abs(got[:, j] - exp[:, j])
        k = int(np.argmax(err)) if err.size else 0
        if err.size and not err[k] <= rtol * scale:
            return (f"{label}column {j}: row {k} is {got[k, j]!r}, reference {exp[k, j]!r} (abs err {err[k]:.3e}, "
                    f"scale {scale:.3g}); first rows got {got[:3, j].tolist()} ref {exp[:3, j].tolist()}")
    return None
