"""Independent reference semantics of a model spec (never imports pyrates).

spec = {
  'ops':        {opname: {'eqs': [[kind, lhs, expr]], 'vars': {v: [vkind, value]}}}
                   eq kind: 'de' | 'alg';  vkind: 'out' | 'var' | 'in' | 'const'
  'node_types': {nt: {'ops': [opname, ...], 'over': {opname: {v: value}}}}
  'edge_types': {et: {'ops': [opname, ...], 'over': {...}}}          (optional)
  'circ':       {'name': str, 'nodes': {label: nt}, 'subs': {label: circ}, 'edges': [[src, tgt, et|None, attrs]]}
  'updates':    [[path_with_wildcards, value_or_list], ...]           (optional, update_var semantics, applied in order)
}
Edge attrs: weight (default 1.0), delay, spread, and for templated edges parameter overrides 'op/var': value.
"""
import math
from . import expr as E


class RefError(Exception):
    pass


class EdgeRec(list):
    """[src, tgt, edge_type, attrs] with the prefix of the circuit that defines the edge"""

    def __init__(self, items, defined_in=''):
        super().__init__(items)
        self.defined_in = defined_in


def _walk(circ, prefix=''):
    """yield (node_path, node_type) in declaration order, depth first; and edges with absolute paths."""
    nodes, edges = [], []
    for lab, nt in circ.get('nodes', {}).items():
        nodes.append((prefix + lab, nt))
    for lab, sub in circ.get('subs', {}).items():
        n2, e2 = _walk(sub, prefix + lab + '/')
        nodes += n2
        edges += e2
    for e in circ.get('edges', []):
        src, tgt, et, attrs = e
        attrs = dict(attrs)
        for k, v in list(attrs.items()):
            if isinstance(v, str) and v != 'source':
                attrs[k] = prefix + v
        edges.append(EdgeRec([prefix + src, prefix + tgt, et, attrs], prefix))
    return nodes, edges


def match_nodes(all_nodes, pattern_parts):
    """Resolve node path pattern (list of parts, 'all' wildcards) against list of node paths, declaration order."""
    out = []
    for n in all_nodes:
        parts = n.split('/')
        if len(parts) != len(pattern_parts):
            continue
        if all(p == 'all' or p == q for p, q in zip(pattern_parts, parts)):
            out.append(n)
    return out


class RefModel:
    def __init__(self, spec):
        self.spec = spec
        ops = spec['ops']
        self.nodes = {}      # path -> {'ops': [opnames]}
        self.kind = {}       # (node, op, var) -> 'state' | 'alg' | 'in' | 'const'
        self.val = {}        # (node, op, var) -> declared (overridden) value
        self.eq = {}         # (node, op, var) -> expr  (de or alg)
        self.out = {}        # (node, op) -> output var name
        node_list, edge_list = _walk(spec['circ'])
        self.node_order = [n for n, _ in node_list]
        for path, nt in node_list:
            self._add_instance(path, spec['node_types'][nt])
        # update_var style overrides
        for upd in spec.get('updates', []):
            self.apply_update(upd[0], upd[1])
        # apply(node_values=...) semantics: same addressing, applied on top of everything else
        for path, value in spec.get('node_values', {}).items():
            self.apply_update(path, value, var_filter=False)
        # update_var(edge_vars=[(source, target, {...})]) on the top-level circuit: first edge with that source/target
        for src, tgt, attrs in spec.get('edge_updates', []):
            for e in edge_list:
                # get_edge addresses the edges defined by the circuit update_var is called on (the top level)
                if e[0] == src and e[1] == tgt and getattr(e, 'defined_in', '') == '':
                    e[3] = dict(e[3])
                    e[3].update(attrs)
                    break
            else:
                raise RefError(f'edge update: no edge {src} -> {tgt}')
        # edges
        self.edges = []
        self.chain_states = []    # keys of hidden chain states
        for i, (src, tgt, et, attrs) in enumerate(edge_list):
            s = tuple(src.rsplit('/', 2))
            t = tuple(tgt.rsplit('/', 2))
            if s not in self.kind:
                raise RefError(f"edge source {src} does not exist")
            if t not in self.kind:
                raise RefError(f"edge target {tgt} does not exist")
            e = {'src': s, 'tgt': t, 'w': float(attrs.get('weight', 1.0)), 'delay': attrs.get('delay'),
                 'spread': attrs.get('spread'), 'et': et, 'idx': i, 'wkey': ('__w', i)}
            if et is not None:
                # instantiate the edge template as a private node
                label = f'__edge{i}'
                ett = spec['edge_types'][et]
                over = {}
                extra = {}
                for k, v in attrs.items():
                    if k in ('weight', 'delay', 'spread'):
                        continue
                    if isinstance(v, str):
                        # source mapping  '<et>/op/var': 'source' | 'node/op/var'
                        extra[tuple(k.split('/')[-2:])] = v
                    else:
                        o, vv = k.split('/')[-2:]
                        over.setdefault(o, {})[vv] = v
                self._add_instance(label, ett, extra_over=over)
                e['enode'] = label
                # find the edge's input variable(s)
                ins = [(k[1], k[2]) for k in self.kind if k[0] == label and self.kind[k] == 'in'
                       and not self._intra_sources(k)]
                e['ein'] = {}
                if extra:
                    for (o, vv), srcpath in extra.items():
                        e['ein'][(label, o, vv)] = s if srcpath == 'source' else tuple(srcpath.rsplit('/', 2))
                else:
                    if len(ins) != 1:
                        raise RefError(f"edge template {et} needs exactly one free input, has {ins}")
                    e['ein'][(label,) + ins[0]] = s
                # output operator = last operator in topological order = the one whose output no one consumes
                outs = [(o, self.out[(label, o)]) for o in self.nodes[label]['ops']]
                free = [(o, v) for o, v in outs
                        if not any(self.kind.get((label, o2, v)) == 'in' for o2 in self.nodes[label]['ops'])]
                if len(free) != 1:
                    raise RefError(f"edge template {et}: ambiguous output {free}")
                e['eout'] = (label,) + free[0]
            if e['spread']:
                d_, s_ = float(e['delay']), float(e['spread'])
                n = int(round((d_ / s_) ** 2))
                n = max(n, 0)
                e['chain_n'] = n
                e['chain_rate'] = n / d_ if d_ else 0.0
                e['chain_keys'] = [('__chain', i, k) for k in range(1, n + 1)]
                self.chain_states += e['chain_keys']
            self.edges.append(e)
        self.state_keys = [k for k in self.kind if self.kind[k] == 'state']
        self.param_keys = [k for k in self.kind if self.kind[k] in ('const', 'in')]

    # -----------------------------------------------------------------------------------------
    def _add_instance(self, path, nt, extra_over=None):
        ops = self.spec['ops']
        self.nodes[path] = {'ops': list(nt['ops'])}
        for opn in nt['ops']:
            op = ops[opn]
            de = {e[1] for e in op['eqs'] if e[0] == 'de'}
            alg = {e[1] for e in op['eqs'] if e[0] == 'alg'}
            for v, (vk, val) in op['vars'].items():
                key = (path, opn, v)
                if v in de:
                    self.kind[key] = 'state'
                elif v in alg:
                    self.kind[key] = 'alg'
                elif vk == 'in':
                    self.kind[key] = 'in'
                elif vk == 'const':
                    self.kind[key] = 'const'
                else:
                    # declared variable without an equation: behaves as a constant holding its value
                    self.kind[key] = 'const'
                self.val[key] = val
                if vk == 'out':
                    self.out[(path, opn)] = v
            for kind, lhs, ex in op['eqs']:
                self.eq[(path, opn, lhs)] = E.fromlist(ex) if isinstance(ex, list) else ex
            for v, val in nt.get('over', {}).get(opn, {}).items():
                self.val[(path, opn, v)] = val
            if extra_over:
                for v, val in extra_over.get(opn, {}).items():
                    self.val[(path, opn, v)] = val

    def apply_update(self, path, value, var_filter=True):
        *node, op, v = path.split('/')
        if var_filter:
            targets = [n for n in match_nodes(self.node_order, node) if (n, op, v) in self.kind]
        else:
            # node_values: distributed over all nodes matching the node part of the path
            targets = match_nodes(self.node_order, node)
            if any((n, op, v) not in self.kind for n in targets):
                raise RefError(f'node_values path {path} addresses a node without that variable')
        for i, n in enumerate(targets):
            val = value
            if isinstance(value, (list, tuple)) and len(value) == len(targets):
                val = value[i]
            self.val[(n, op, v)] = val
        return targets

    def _intra_sources(self, key):
        node, op, v = key
        return [(node, o2, v) for o2 in self.nodes[node]['ops'] if o2 != op and self.out.get((node, o2)) == v]

    # -----------------------------------------------------------------------------------------
    def y0(self):
        d = {k: float(self.val[k]) for k in self.state_keys}
        for k in self.chain_states:
            d[k] = 0.0
        return d

    def p0(self):
        d = {k: float(self.val[k]) for k in self.param_keys}
        for e in self.edges:
            d[e['wkey']] = e['w']
        return d

    def evaluator(self, y, p, t=0.0, delayed=None, mp=None, inputs=None, hist=None):
        """Return value(key) closure. delayed: optional fn(edge, getter)->source value for delayed edges.
        inputs: dict key -> extra additive extrinsic input value."""
        memo = {}
        busy = set()
        incoming = {}
        for e in self.edges:
            incoming.setdefault(e['tgt'], []).append(e)
            if e['et'] is not None:
                pass
        ein_map = {}
        for e in self.edges:
            if e['et'] is not None:
                for k, s in e['ein'].items():
                    ein_map[k] = (e, s)

        def conv(x):
            return mp.mpf(x) if mp is not None else x

        def value(key):
            if key in memo:
                return memo[key]
            if key in busy:
                raise RefError(f"algebraic loop through {key}")
            busy.add(key)
            if key[0] == '__chain':
                r = conv(y[key])
            else:
                kd = self.kind[key]
                if kd == 'state':
                    r = conv(y[key])
                elif kd == 'const':
                    r = conv(p[key])
                elif kd == 'alg':
                    r = self._eval(self.eq[key], key[0], key[1], value, mp, t, hist)
                else:  # input
                    terms = []
                    for s in self._intra_sources(key):
                        terms.append(value(s))
                    if key in ein_map:
                        e, s = ein_map[key]
                        terms.append(value(s))
                    for e in incoming.get(key, []):
                        terms.append(conv(p[e['wkey']]) * edge_source(e))
                    if inputs and key in inputs:
                        terms.append(conv(inputs[key]))
                    if terms:
                        r = terms[0]
                        for x in terms[1:]:
                            r = r + x
                    else:
                        r = conv(p[key])
            busy.discard(key)
            memo[key] = r
            return r
        value.memo = memo       # every intermediate value evaluated so far (used for conditioning filters)

        def edge_raw_source(e):
            if e['et'] is not None:
                return value(e['eout'])
            return value(e['src'])

        def edge_source(e):
            if e.get('chain_keys') is not None:
                if e['chain_n'] == 0:
                    return edge_raw_source(e)
                return conv(y[e['chain_keys'][-1]])
            if e['delay'] and delayed is not None:
                return conv(delayed(e, edge_raw_source))
            return edge_raw_source(e)

        value.edge_raw_source = edge_raw_source
        return value

    def _eval(self, ex, node, op, value, mp, t=0.0, hist=None):
        def env(name):
            if isinstance(name, tuple):       # ('past', var, tau): delayed value of a variable of this operator
                if hist is None:
                    raise RefError('past() needs a history')
                return hist((node, op, name[1]), t - name[2])
            if name == 't':
                raise RefError('t not supported here')
            return value((node, op, name))
        if mp is not None:
            return E.ev_mp(ex, env, mp)
        return E.ev(ex, env)

    def rhs(self, y, p, t=0.0, delayed=None, mp=None, inputs=None, hist=None):
        """Derivatives of all state variables (and hidden chain states) as dict key -> value.
        hist(key, time) -> past value of a state variable (for past() terms and delayed edges under adaptive solvers)."""
        if hist is not None and delayed is None:
            def delayed(e, raw, t=t):
                return hist(e['src'], t - float(e['delay']))
        value = self.evaluator(y, p, t, delayed, mp, inputs, hist)
        out = {}
        for k in self.state_keys:
            out[k] = self._eval(self.eq[k], k[0], k[1], value, mp, t, hist)
        for e in self.edges:
            ck = e.get('chain_keys')
            if ck:
                prev = value.edge_raw_source(e)
                r = e['chain_rate']
                for key in ck:
                    zk = y[key] if mp is None else mp.mpf(y[key])
                    out[key] = r * (prev - zk)
                    prev = zk
        return out, value

    # -----------------------------------------------------------------------------------------
    def euler(self, steps, dt, y=None, p=None, record=None, input_fn=None, heun=False, stage2='same'):
        """Fixed step reference iterates. Discrete edge delays: source value at step k - round(d/dt), zero before
        the start.  record: list of keys (state or alg) to record at every step (value at step k before the
        update).  input_fn(k) -> dict key -> extrinsic value for step k."""
        y = dict(self.y0() if y is None else y)
        p = self.p0() if p is None else p
        dedges = [e for e in self.edges if e['delay'] and not e.get('chain_keys')]
        hist = {e['idx']: [] for e in dedges}
        dsteps = {e['idx']: int(round(float(e['delay']) / dt)) for e in dedges}
        rec = []
        keys = list(y.keys())
        for k in range(steps):
            def delayed(e, raw, k=k):
                d = dsteps[e['idx']]
                h = hist[e['idx']]
                if d < 1:
                    return raw(e)           # a delay that rounds to zero steps: the current value
                j = k - d
                return h[j] if j >= 0 else 0.0
            inp = input_fn(k) if input_fn else None
            f, value = self.rhs(y, p, k, delayed, inputs=inp)
            # store raw source values of delayed edges at this step
            for e in dedges:
                hist[e['idx']].append(value.edge_raw_source(e))
            if record is not None:
                rec.append([value(key) for key in record])
            if not heun:
                for key in keys:
                    y[key] = y[key] + dt * f[key]
            else:
                y1 = {key: y[key] + dt * f[key] for key in keys}
                inp2 = inp if (stage2 == 'same' or not input_fn) else input_fn(k + 1)
                f2, _ = self.rhs(y1, p, k, delayed, inputs=inp2)
                for key in keys:
                    y[key] = y[key] + dt / 2 * (f[key] + f2[key])
        return rec, y
