#!/usr/bin/env python3
"""Rewrites the 'q / t' column of DESIGN.md section 3 with the current plan sizes (seed 0) of every check."""
import importlib, os, re, sys
ROOT = os.path.dirname(os.path.abspath(__file__))
sys.path.insert(0, ROOT)
sizes = {}
for i in range(1, 21):
    m = importlib.import_module(f'vp.props.c{i:02d}')
    if i == 5:       # C05 evaluates several expressions per case: the cell counts expressions
        sizes['C05'] = tuple(sum(c.get('n_exprs', 1) for c in m.plan(t, 0)) for t in ('quick', 'thorough'))
        continue
    sizes[f'C{i:02d}'] = (len(m.plan('quick', 0)), len(m.plan('thorough', 0)))
p = os.path.join(ROOT, 'DESIGN.md')
s = open(p).read()
a = s.index('## 3. Per-property monitors')
b = s.index('**not_applicable**')
sec = s[a:b]
for pid, (q, t) in sizes.items():
    suf = ''
    sec, n = re.subn(r'(^\| %s \|.*\| )\d+(?: x 25)? / \d+(?: x 25)?( \|$)' % pid,
                     lambda m_: f'{m_.group(1)}{q}{suf} / {t}{suf}{m_.group(2)}', sec, flags=re.M)
    assert n == 1, pid
open(p, 'w').write(s[:a] + sec + s[b:])
print(sizes)
